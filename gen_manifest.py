#!/usr/bin/env python3
"""Regenerates MANIFEST.json from checks_config.py (run after adding a check)."""
import json, os, subprocess, sys
ROOT = os.path.dirname(os.path.abspath(__file__))
sys.path.insert(0, ROOT)
from checks_config import CHECKS

props = [json.loads(l) for l in open(os.path.join(ROOT, "properties.jsonl"))]
checks, na = [], []
for p in props:
    pid = p["id"]
    c = CHECKS.get(pid)
    if not c or c.get("disabled"):
        na.append({"property_id": pid, "reason": (c or {}).get("na_reason", "check not built yet - to be decided by runtime monitoring (see DESIGN.md section 3); not claimed until its monitor exists and is silent on the unchanged tree")})
        continue
    checks.append({
        "property_id": pid,
        "quick_cmd": "./check %s quick" % pid,
        "thorough_cmd": "./check %s thorough" % pid,
        "evidence_file": "/verif/evidence/%s.json" % pid,
        "replay_cmd_template": "./check %s --replay {path}" % pid,
        "engine": "vh-" + pid.lower(),
        "level_claimed": {"category": c["level"], "text": c.get("level_text", ""), "design_ref": "DESIGN.md section 3, " + pid},
        "level_note": c.get("level_note", "trusted: the harness's own reference code (see assumptions in the evidence file), rustc, the crypto crates called directly for reference signatures"),
        "technique": c.get("technique", "runtime monitoring: oracle over real executions"),
    })
hook_commits = []
m = {
    "version": 1,
    "setup_cmd": "./check --setup",
    "hooks": {
        "guard": "identity_rs_verif",
        "enable": "no source hooks are used: every observation point is public API and every collaborator (verifier, storages, resolver handlers) is injected through public traits",
        "baseline_off_cmd": "cd /repo && cargo test --workspace --no-fail-fast --offline",
        "source_commits": hook_commits,
        "add_only": True,
    },
    "engines": [{"name": "vh-" + c["id"].lower(), "path": "harness/vh/src/bin/%s.rs" % c["bin"], "serves_properties": [c["id"]],
                 "kind_free_text": "Rust harness binary driving /repo crates by path dependency, monitored by harness oracles; sharded and judged by ./check"} for c in CHECKS.values() if not c.get("disabled")],
    "checks": checks,
    "not_applicable": na,
    "notes": "All checks are runtime monitors over real executions of /repo (path dependencies, rebuilt on every run). Exit 0 = held on what was observed, 1 = violation, 2 = inconclusive. known_findings.txt lists recorded findings and fixes.",
}
json.dump(m, open(os.path.join(ROOT, "MANIFEST.json"), "w"), indent=1)
print("checks:", [c["property_id"] for c in checks], "n/a:", [n["property_id"] for n in na])
