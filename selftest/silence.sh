#!/bin/bash
# Self-test: every check must stay silent (exit 0) on the unchanged tree for several seeds.
# usage: selftest/silence.sh <tier> <seed>...
cd "$(dirname "$0")/.."
tier=$1; shift
mkdir -p harness/target/tmp/silence
for seed in "$@"; do
  for id in C01 C02 C03 C04 C05 C06 C07 C08 C09 C10 C11 C12 C13 C14 C15 C16 C17 C18 C19 C20; do
    t0=$(date +%s)
    VERIF_SEED=$seed ./check $id $tier > harness/target/tmp/silence/$id.$tier.$seed.log 2>&1
    rc=$?
    echo "$id $tier seed=$seed exit=$rc wall=$(( $(date +%s) - t0 ))s $(grep -c '^VIOLATION' harness/target/tmp/silence/$id.$tier.$seed.log) violations $(grep -c '^INCONCLUSIVE' harness/target/tmp/silence/$id.$tier.$seed.log) inconclusive"
  done
done
