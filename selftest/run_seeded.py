#!/usr/bin/env python3
"""Self-test (not a registered check): applies each kept seeded change under /verif/seeded/<name>/patch.diff to /repo,
runs the quick (optionally thorough) check of the property it breaks, expects exit 1, and restores /repo.

  selftest/run_seeded.py [name ...] [--tier quick|thorough] [--all-checks]

Results are written to seeded/RESULTS.json and printed. /repo must be clean (committed) before running."""
import json, os, subprocess, sys, time
ROOT = os.path.dirname(os.path.dirname(os.path.abspath(__file__)))
SEEDED = os.path.join(ROOT, "seeded")

def sh(cmd, **kw):
    return subprocess.run(cmd, shell=True, stdout=subprocess.PIPE, stderr=subprocess.STDOUT, text=True, **kw)

def main():
    args = sys.argv[1:]
    tier = "quick"
    if "--tier" in args:
        i = args.index("--tier"); tier = args[i + 1]; del args[i:i + 2]
    scratch = "--scratch" in args
    names = [a for a in args if not a.startswith("--")] or sorted(d for d in os.listdir(SEEDED) if os.path.isdir(os.path.join(SEEDED, d)))
    SCR = os.environ.get("VERIF_SCRATCH", "/scratch/seedrun")
    if scratch:
        # run against a scratch copy of /repo (cargo paths override) so that /repo itself is not touched
        os.makedirs("/scratch", exist_ok=True)
        # no -t: a file reverted with `patch -R` keeps its new mtime (so cargo rebuilds it); only files whose CONTENT differs from /repo are copied
        sh("rsync -rlpD --checksum --delete --exclude target --exclude .git /repo/ %s/" % SCR)
    elif sh("git -C /repo status --porcelain --untracked-files=no").stdout.strip():
        print("refusing: /repo has uncommitted changes"); return 2
    res_path = os.environ.get("VERIF_RESULTS", os.path.join(SEEDED, "RESULTS.json"))
    results = json.load(open(res_path)) if os.path.exists(res_path) else {}
    for name in names:
        d = os.path.join(SEEDED, name)
        meta = json.load(open(os.path.join(d, "meta.json")))
        pid = meta["property"]
        checks = meta.get("also_check", []) and [pid] + meta["also_check"] or [pid]
        if scratch:
            ap = sh("patch -p1 -s -d %s < %s" % (SCR, os.path.join(d, "patch.diff")))
        else:
            ap = sh("git -C /repo apply %s" % os.path.join(d, "patch.diff"))
        if ap.returncode != 0:
            print(name, "PATCH DOES NOT APPLY", ap.stdout[-400:]); results[name] = {"property": pid, "applies": False}; continue
        try:
            entry = {"property": pid, "applies": True, "tier": tier, "runs": {}}
            for c in checks:
                t0 = time.time()
                r = sh("cd %s && %s./check %s %s" % (ROOT, ("VERIF_REPO=%s " % SCR) if scratch else "", c, tier))
                sigs = [l.strip()[len("violation sig="):].split(" :: ")[0] for l in r.stdout.splitlines() if l.strip().startswith("violation sig=")]
                entry["runs"][c] = {"exit": r.returncode, "signatures": sigs[:8], "wall_s": round(time.time() - t0, 1)}
                print("%-22s %s %s exit=%d %s" % (name, c, tier, r.returncode, sigs[:3]))
            entry["caught"] = any(v["exit"] == 1 for v in entry["runs"].values())
            results[name] = entry
        finally:
            if scratch:
                sh("patch -R -p1 -s -d %s < %s" % (SCR, os.path.join(d, "patch.diff")))
            else:
                sh("git -C /repo checkout -- .")
            sh("rm -rf %s/replays/*" % ROOT)
        json.dump(results, open(res_path, "w"), indent=1, sort_keys=True)
    missed = [n for n in names if results.get(n, {}).get("applies") and not results[n].get("caught")]
    print("caught %d / %d ; missed: %s" % (len([n for n in names if results.get(n, {}).get("caught")]), len(names), missed))
    return 0

if __name__ == "__main__":
    sys.exit(main())
