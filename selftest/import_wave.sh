#!/bin/bash
# selftest/import_wave.sh <wave-dir> <wave-tag> <cNN>... : copy agent deliverables into /verif/seeded/<cNN>-<tag>m<k>/
W=$1; TAG=$2; shift 2
for c in "$@"; do
  for m in "$W/$c"/_mutant/m*; do
    [ -f "$m/patch.diff" ] || continue
    k=$(basename "$m"); d=/verif/seeded/$c-$TAG$k
    mkdir -p "$d"; cp "$m/patch.diff" "$m/meta.json" "$d/" ; cp "$m"/demo*.rs "$d/" 2>/dev/null; cp "$m/RUN.md" "$d/" 2>/dev/null
    echo "$d"
  done
done
