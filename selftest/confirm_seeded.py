#!/usr/bin/env python3
"""Confirms a seeded change independently of its author, in the scratch worktree it was written in:
  (1) the demonstration passes on the unchanged code, (2) fails with patch.diff applied,
  (3) the existing tests of the touched crates still pass with the patch (demo removed).
The commands are taken from the change's RUN.md (first `cp ... demo.rs <dest>` and first `cargo test ... --test <name>`).
Result is recorded in seeded/<name>/meta.json under "confirmation".

  selftest/confirm_seeded.py <name> [<name> ...]      (name = cNN-mK, worktree /tmp/mut/cNN)"""
import json, os, re, subprocess, sys, time
ROOT = os.path.dirname(os.path.dirname(os.path.abspath(__file__)))

def sh(cmd, cwd):
    p = subprocess.run(cmd, shell=True, cwd=cwd, stdout=subprocess.PIPE, stderr=subprocess.STDOUT, text=True,
                       env=dict(os.environ, CARGO_NET_OFFLINE="true", CARGO_TARGET_DIR=os.environ.get("CONFIRM_TARGET", "/tmp/mut/shared-target")))
    return p.returncode, p.stdout

def confirm(name):
    d = os.path.join(ROOT, "seeded", name)
    wave = "/tmp/mut7/" if "-w7" in name else "/tmp/mut6/" if "-w6" in name else "/tmp/mut5/" if "-w5" in name else "/tmp/mut4/" if "-w4" in name else ("/tmp/mut3/" if "-w3" in name else ("/tmp/mut2/" if "-w2" in name else "/tmp/mut/"))
    wt = wave + name.split("-")[0]
    mk = name.split("-")[1].replace("w2", "").replace("w3", "").replace("w4", "").replace("w5", "").replace("w6", "").replace("w7", "")
    run = open(os.path.join(d, "RUN.md")).read()
    m_cp = re.search(r"cp\s+_mutant/%s/demo\.rs\s+(\S+)" % mk, run)
    m_test = re.search(r"(cargo test [^\n]*--test\s+\S+[^\n]*)", run)
    if not (m_cp and m_test):
        return {"ok": False, "why": "could not find cp/cargo test commands in RUN.md"}
    dest, testcmd = m_cp.group(1), m_test.group(1).strip().rstrip("\\").strip()
    patch = os.path.join(d, "patch.diff")
    crates = sorted({l.split("/")[0][2:] if l.startswith("b/") else l.split("/")[1] for l in
                     [x[4:].strip() for x in open(patch) if x.startswith("+++ ")]})
    crates = [c for c in crates if c.startswith("identity_")]
    res = {"worktree": wt, "demo_dest": dest, "demo_cmd": testcmd, "crates_tested": crates}
    rc, out = sh("git status --porcelain --untracked-files=no", wt)
    if out.strip():
        sh("git checkout -- .", wt)
    os.makedirs(os.path.dirname(os.path.join(wt, dest)), exist_ok=True)
    made_dir = None
    sh("cp %s %s" % (os.path.join(d, "demo.rs"), dest), wt)
    try:
        rc1, out1 = sh(testcmd, wt)
        res["demo_on_unchanged_exit"] = rc1
        rc, out = sh("git apply %s" % patch, wt)
        if rc != 0:
            res["ok"] = False; res["why"] = "patch does not apply in worktree: " + out[-300:]; return res
        rc2, out2 = sh(testcmd, wt)
        res["demo_with_change_exit"] = rc2
        res["demo_with_change_tail"] = [l for l in out2.splitlines() if "panicked" in l or "FAILED" in l or "failed" in l][:4]
        os.remove(os.path.join(wt, dest))
        rc3, out3 = sh("cargo test --offline " + " ".join("-p " + c for c in crates), wt)
        res["existing_tests_with_change_exit"] = rc3
        res["existing_tests_summary"] = [l.strip() for l in out3.splitlines() if l.startswith("test result")][:12]
        res["ok"] = (rc1 == 0 and rc2 != 0 and rc3 == 0)
    finally:
        sh("git checkout -- .", wt)
        if os.path.exists(os.path.join(wt, dest)):
            os.remove(os.path.join(wt, dest))
    return res

for name in sys.argv[1:]:
    t0 = time.time()
    r = confirm(name)
    r["wall_s"] = round(time.time() - t0, 1)
    mp = os.path.join(ROOT, "seeded", name, "meta.json")
    meta = json.load(open(mp)); meta["confirmation"] = r
    json.dump(meta, open(mp, "w"), indent=1)
    print(name, "CONFIRMED" if r.get("ok") else "NOT CONFIRMED", json.dumps({k: v for k, v in r.items() if k.endswith("_exit") or k == "why"}), flush=True)
