#!/usr/bin/env python3
"""Renders seeded/RESULTS.json + meta.json files as the markdown table of DESIGN.md section 10 (between the markers)."""
import json, os, glob, re
ROOT = os.path.dirname(os.path.dirname(os.path.abspath(__file__)))
res = json.load(open(os.path.join(ROOT, "seeded", "RESULTS.json")))
rows = []
for name in sorted(res):
    d = os.path.join(ROOT, "seeded", name)
    if not os.path.isdir(d):
        continue
    m = json.load(open(os.path.join(d, "meta.json")))
    r = res[name]
    run = r.get("runs", {}).get(m["property"], {})
    sigs = ", ".join("`%s`" % s for s in run.get("signatures", [])[:2]) or "-"
    conf = m.get("confirmation", {})
    c = "yes" if conf.get("ok") else ("pending" if not conf else "NO")
    summ = re.sub(r"\s+", " ", m.get("summary", "")).strip()
    if len(summ) > 170:
        summ = summ[:167] + "..."
    rows.append("| %s | %s | %s | %s | %s | %s |" % (name, m["property"], summ.replace("|", "\\|"), c,
                                                  ("caught (exit %s)" % run.get("exit") if run.get("exit") == 1 else "caught by %s" % ", ".join(k for k, v in r.get("runs", {}).items() if v.get("exit") == 1)) if r.get("caught") else ("not caught: " + ("non-default cargo feature" if "feature" in m.get("out_of_reach", "") else "adds new API" if "NEW public" in m.get("out_of_reach", "") else "judged not a violation" if "NOT to break" in m.get("out_of_reach", "") else "**missed**")), sigs.replace("|", "\\|")))
table = "| change | property | what it does | demo confirmed | quick check | first signatures |\n|---|---|---|---|---|---|\n" + "\n".join(rows)
p = os.path.join(ROOT, "DESIGN.md")
s = open(p).read()
a, b = "<!-- SEEDED-TABLE-BEGIN -->", "<!-- SEEDED-TABLE-END -->"
if a in s:
    s = s[:s.index(a) + len(a)] + "\n" + table + "\n" + s[s.index(b):]
    open(p, "w").write(s)
print(table[:600])
