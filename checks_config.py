"""Per-property configuration of the driver: harness binary, stages per tier, thresholds."""

def cfg(pid, level="exploration", quick=None, thorough=None, **kw):
    d = {"id": pid, "bin": pid.lower(), "level": level,
         "quick": quick or [{"flavour": "checked", "shards": 8, "timeout": 600}],
         "thorough": thorough or [{"flavour": "checked", "shards": 16, "timeout": 3000}]}
    d.update(kw)
    return d

CHECKS = {}

CHECKS["C13"] = cfg(
    "C13",
    technique="runtime monitoring: differential oracle (own civil-date arithmetic) over boundary grid x all 2879 offsets + seeded random instants; panic monitor",
    level_text="Every RFC 3339 string rendered from the boundary date-times x every UTC offset x fraction lengths, plus seeded random instants, unix seconds and durations, is run through the real Timestamp API and judged against the harness's integer reference; a panic anywhere is a violation. Exploration, not proof: held on the executions listed in the evidence.",
    min={"quick": {"parse_accepted": 50000, "arith_checked": 1000, "from_unix_accepted": 1000, "order_checked": 3000000, "order_boundary_blocks_leap_year": 2000, "nontrivial": 20},
         "thorough": {"parse_accepted": 500000, "arith_checked": 10000, "nontrivial": 20}},
    assumptions=["reference civil-date arithmetic (Howard Hinnant's days_from_civil) in the harness is correct",
                 "second=60 may be rejected or mapped to :59/:60"],
)

CHECKS["C11"] = cfg(
    "C11", exhaustive=True,
    technique="runtime monitoring: exhaustive decision table over header pairs at 13 encoder/decoder entry points, verdict predicate written from the statement",
    level_text="The complete table of (protected, unprotected) header contents named by the property (alg, b64, 14 crit lists, shared registered/custom names, either header missing) is run through every encoder constructor, add_recipient, every decoder entry point and verify; each verdict is compared with a predicate derived from the statement. Exhaustive for the table, exploration beyond it.",
    min={"quick": {"shared_custom_name_value_rows": 250, "custom_value_rows": 500, "setter_built_reserved_name_value_rows": 20, "accepted": 3000, "rejected": 1000000, "rows_violating_exactly_one_rule": 1000},
         "thorough": {"accepted": 10000, "rejected": 4000000, "rows_violating_exactly_one_rule": 3000}},
    assumptions=["b64-disagreement between recipients is demanded of GeneralJwsEncoder::add_recipient only (the anchor); the general decoder is not judged on it",
                 "a header pair with neither header present is outside the table (the statement gives no verdict for it)"],
)

CHECKS["C01"] = cfg(
    "C01",
    technique="runtime monitoring: recording JwsVerifier + own JWS assembler; oracle over the verifier call log, reference re-verification with the crypto crates, single-bit mutation of verified tokens",
    level_text="Tokens in all three serializations (and compact through CoreDocument::verify_jws) are assembled by the harness from raw header text, so P, Y and S are known; every token the library reports verified is checked against the recording verifier's log (signing input == ASCII(P)||'.'||Y, alg from the protected header, caller's key, decoded signature, delegate verdict honoured, key alg pin, claims) and re-verified with ed25519/p256/k256 directly; then every single bit of P, Y and S of verified tokens is flipped and must stop verifying.",
    min={"quick": {"decorations": 20000, "decorated_tokens": 100, "decorations:ends": 200, "decorations:protected": 5000, "decorations:signature": 5000, "verified": 800, "bitflips": 50000, "verified:Compact": 100, "verified:Flattened": 100, "verified:General": 100, "verified:Document": 60, "nontrivial": 100},
         "thorough": {"verified": 10000, "bitflips": 500000, "nontrivial": 300}},
    thorough=[{"flavour": "checked", "shards": 16, "timeout": 3000},
              {"flavour": "asan", "tier": "quick", "shards": 8, "timeout": 3000, "args": {"scale": 1000}}],
    assumptions=["completeness (valid tokens are accepted) is counted, not demanded: the statement is 'verified only if'",
                 "ed25519/p256/k256 crates called directly are the reference for signature validity"],
)

CHECKS["C08"] = cfg(
    "C08",
    technique="runtime monitoring: produce tokens with the real encoders / create_jws, dissect them with own base64url + signing-input formula, decode and verify with the library, negative verification matrix",
    level_text="Generated legal header sets x payload classes x b64 x detached x charset x 1-4 recipients go through the three encoders; every produced token is decoded by the library's decoder and compared (claims, both headers, signing input, signature) with what was given, against the harness's own formula, and verified with the real verifiers. create_jws on CoreDocument/IotaDocument is driven over every JwsSignatureOptions field; each token must verify for its method (every containing scope, kid or method id) and must fail for every other method, wrong/absent nonce and every excluding scope.",
    min={"quick": {"near_namesake_documents": 40, "near_namesake_tokens": 300, "near_namesake_verified": 1500, "oracle_ref_signature_checks": 1200, "produced:bridge": 400, "verified:bridge:no-kid": 250, "verified:bridge:json": 250, "documents_with_dangling_references": 20, "produced": 4000, "produced:compact": 800, "produced:flattened": 800, "produced:general": 800, "produced:create_jws": 500,
                   "verified": 5000, "negative_verifications": 5000, "nontrivial": 400},
         "thorough": {"near_namesake_documents": 1000, "near_namesake_tokens": 10000, "produced": 100000, "verified": 100000, "negative_verifications": 100000, "nontrivial": 1000}},
    thorough=[{"flavour": "checked", "shards": 16, "timeout": 3000},
              {"flavour": "asan", "tier": "quick", "shards": 8, "timeout": 3000, "args": {"scale": 1000}}],
    assumptions=["an encoder refusing an input is counted, not a violation (the statement is about tokens that were produced)",
                 "detached payloads are handed to the decoder in the form they were signed (base64url text when b64 is true)",
                 "custom header parameter names are non-registered names"],
)

CHECKS["C18"] = cfg(
    "C18",
    technique="runtime monitoring: invariant monitors over every JWK observed (exhaustive private-member subsets x routes, random identity groups, odd JSON, setter histories, key generation) with own RFC 7638 reference",
    level_text="Every JWK built through constructors, setters, JSON (member permutations, family mismatches) and key generation is run through monitors: kty equals the family of the params carried, is_public iff no private member, to_public leaks nothing / keeps public members / is idempotent, thumbprint equals the harness's RFC 7638 computation and is invariant under optional members, order and private parts; verification-method constructors refuse private JWKs; generated output and documents are deep-scanned for private members.",
    min={"quick": {"unchecked_groups": 6000, "oracle_thumb_unchecked_invariance": 25000, "oracle_thumb_mismatched_with_private": 6000, "ext_converted": 3000, "ext_converted_source_kty_differs_from_variant": 2000, "container_jwks": 10000, "container_reads": 20000, "jwks_observed": 50000, "wellformed_built": 20000, "oracle_thumbprint_ref": 50000, "oracle_to_public": 40000,
                   "vm_private_refused": 100000, "vm_public_accepted": 40000, "odd_json_accepted": 200, "gen_outputs": 100,
                   "document_jwks_scanned": 150, "nontrivial": 2000},
         "thorough": {"jwks_observed": 2000000, "wellformed_built": 800000, "oracle_to_public": 1700000, "nontrivial": 20000}},
    assumptions=["set_params_unchecked / params_mut / data_mut are explicitly unchecked and not judged",
                 "thumbprint escaping of values containing quotes/backslashes is observed, not judged"],
)

CHECKS["C07"] = cfg(
    "C07",
    technique="runtime monitoring: generated credentials/presentations -> serialize_jwt -> claims-shape oracle -> back-conversion through the validators (always-Ok verifier) compared with the original; enumerated tampered claim sets",
    level_text="Credentials and presentations generated over every optional field are converted to JWT claims by the library; the claims are checked for the registered claims carried exactly once and for vc/vp not repeating them, then converted back through the only public path (validators with an always-Ok verifier) and compared for equality. All 20736 tampering vectors (each duplicated member absent/equal/different x registered claim present/absent x iat/nbf forms) plus numeric dates at the range ends are fed to the same path: disagreeing duplicates and out-of-range dates must be rejected.",
    min={"quick": {"nearmiss_cases": 600, "nearmiss_disagreeing": 400, "nearmiss_roundtrips": 80, "nearmiss_same_after_serialisation": 150, "raw_dup_cases": 800, "raw_dup_rejected": 600, "raw_control_accepted": 200, "numeric_spelling_cases": 1500, "numeric_spelling_rejected": 1500, "credentials_serialized": 3000, "credential_backconversions": 2000, "presentation_backconversions": 800,
                   "tampered_accepted": 100, "tampered_rejected": 3000, "nontrivial": 1000},
         "thorough": {"nearmiss_cases": 600, "nearmiss_disagreeing": 400, "credentials_serialized": 100000, "credential_backconversions": 80000, "tampered_rejected": 20000, "nontrivial": 5000}},
    assumptions=["a duplicated vc member whose registered claim is absent may be rejected or accepted (latitude)",
                 "an out-of-range iat that is shadowed by an in-range nbf is not judged",
                 "custom claims None and {} are the same observation",
                 "extra property names avoid reserved member names"],
)

CHECKS["C02"] = cfg(
    "C02",
    technique="runtime monitoring: decision-table oracle over harness-constructed scenarios (own keys, own JWT assembler); accept <=> all conditions; errors must identify falsified conditions",
    level_text="Every scenario is built by the harness so that the truth of each of the 12 conditions (signature, kid/method-id lookup, scope, kid DID vs document, issuer vs method DID, nonce, issuance/expiry bounds at +-1 s, structure, subject-holder mode, status form x mode) is known by construction. validate() must accept exactly when all hold; with AllErrors the reported concerns must equal the falsified credential-side conditions, with FirstError be one of them; signature-side failures must be identified by a matching error family; on acceptance the returned credential, header and custom claims must be those signed. Includes the exhaustive 2^5 credential-side table and verify_signature over two trusted issuers.",
    min={"quick": {"namesake_table_rows": 2600, "namesake_rows": 3000, "namesake_foreign_signed_in_scope_prefix_related": 300, "namesake_genuine_next_to_prefix_related": 150, "namesake_accepted": 250, "issuer_table_rows": 40, "service_list_table_rows": 70, "sole_false_issuer_did_method_name": 15, "status_with_same_fragment_services": 600, "wall_clock_accepted": 10, "wall_clock_rejected": 60, "accepted": 800, "rejected:credential-side": 800, "rejected:signature-side": 800, "u_table_rows": 200, "distinct:condition_vectors": 150},
         "thorough": {"namesake_table_rows": 2600, "namesake_rows": 30000, "accepted": 200000, "rejected:credential-side": 200000, "rejected:signature-side": 200000, "distinct:condition_vectors": 250}},
    assumptions=["validation bounds are always explicit (no wall clock)",
                 "signature-side error families are matched loosely (any family belonging to a falsified condition)"],
)

CHECKS["C19"] = cfg(
    "C19", exhaustive=True,
    technique="runtime monitoring: reference duplicate-free list model compared after every operation; exhaustive op sequences to bounded length, state-graph closure, random histories, constructor/serde lists",
    level_text="Every OrderedSet/OneOrSet/OneOrMany operation is executed on the real collection and on a harness list model; result flag and full order are compared after each step, exhaustively for all op sequences up to a per-universe length, for every (reachable state x op) transition, and for long random histories; all short lists (with duplicates/empties) go through every constructor and serde path.",
    min={"quick": {"direct_steps": 100000, "direct_sequences": 3000, "direct_list_cases": 200, "direct_json_roundtrips": 4000, "direct_ctor_rejected": 150, "direct_ctor_accepted": 150, "json_other_path_roundtrips": 20000, "json_borrowed_roundtrips": 200, "oneormany_singleton_bare": 100, "oset_exhaustive_sequences": 30000000, "oset_closure_steps": 4000, "oset_rand_steps": 150000, "oset_tryfrom_rejected": 500,
                   "json_roundtrips": 30000, "oneorset_checks": 10000, "oneorset_rejected_duplicates": 1000, "oneormany_checks": 5000, "nontrivial": 30000000},
         "thorough": {"direct_steps": 1000000, "direct_sequences": 30000, "direct_list_cases": 200, "oset_exhaustive_sequences": 1000000000, "oset_closure_steps": 50000, "oset_rand_steps": 3000000, "nontrivial": 1000000000}},
    thorough=[{"flavour": "checked", "shards": 16, "timeout": 3000},
              {"flavour": "miri", "tier": "quick", "shards": 16, "timeout": 14400, "args": {"scale": 1}}],
    assumptions=["iter_mut_unchecked/head_mut/tail_mut/clear are documented as invariant-breaking and not part of the histories",
                 "replace(cur, upd) with cur absent and upd's key present follows the list model of DESIGN.md: upd replaces the entry holding its key, flag true"],
)

CHECKS["C15"] = cfg(
    "C15",
    technique="runtime monitoring: sequential model of both stores over random histories; racing std-thread rounds with per-digest linearizability (Wing-Gong) check over recorded call/return stamps; TSan and Miri flavours",
    level_text="Random operation histories on JwkMemStore/KeyIdMemstore are compared step by step with a harness model (fresh ids, public-only JWK, RFC 7638 kid recomputed, signatures verifying under their own key and no other, deleted/never-issued ids dead, insert argument validation, second insert per digest refused). Racing rounds on 2-16 threads record client-boundary histories whose per-digest sub-histories must be linearizable (exactly one winner, every get returns it). A second stage (harness/vhs, bin c15s; quick and thorough) runs the same model, oracles and racing rounds on StrongholdStorage with real snapshot files. Thorough adds ThreadSanitizer and Miri runs of the memstore racing rounds.",
    min={"quick": {"race_delete_single_winner": 2000, "race_delete_overlap": 300, "insert_kty_mismatch_rejected": 60, "insert_ok_kid_seen_before": 60, "sh_insert_kty_mismatch_rejected": 3, "sign_ok": 1000, "cross_key_verifications": 5000, "generate_ok": 500, "insert_rejected": 200, "kid_insert_dup_rejected": 50,
                   "race_single_winner": 1000, "race_overlapping_rounds": 50, "lin_checked": 2000, "lin_checked_with_overlap": 200, "nontrivial": 200,
                   "sh_seq_ops": 500, "sh_sign_ok": 100, "sh_delete_absent_rejected": 30, "sh_race_single_winner": 30},
         "thorough": {"sign_ok": 50000, "race_single_winner": 50000, "lin_checked": 100000, "lin_checked_with_overlap": 10000,
                      "sh_seq_ops": 3000, "sh_sign_ok": 800, "sh_cross_key_verifications": 5000, "sh_race_single_winner": 300, "sh_lin_checked": 200}},
    quick=[{"flavour": "checked", "shards": 8, "timeout": 600},
           {"flavour": "checked", "package": "vhs", "bin": "c15s", "shards": 8, "timeout": 600}],
    thorough=[{"flavour": "checked", "shards": 16, "timeout": 3000},
              {"flavour": "tsan", "tier": "quick", "shards": 8, "timeout": 3000, "args": {"scale": 1000}},
              {"flavour": "miri", "tier": "quick", "shards": 16, "timeout": 14400, "args": {"scale": 5, "parts": 6}},
              {"flavour": "checked", "package": "vhs", "bin": "c15s", "shards": 16, "timeout": 3000}],
    assumptions=["the public_key argument of sign only needs to carry alg/curve",
                 "StrongholdStorage is exercised by the separate stronghold stage (harness/vhs, bin c15s; quick and thorough); Miri cannot cross its FFI",
                 "insert of a JWK whose d is malformed is counted, not judged"],
)

CHECKS["C03"] = cfg(
    "C03",
    technique="runtime monitoring: decision-table oracle over harness-constructed presentation tokens (own keys, own JWT assembler); accept <=> all conditions",
    level_text="Presentation tokens are built by the harness against a holder document with a general-purpose, an embedded and a foreign-DID method; each of the 10 conditions (signature, kid/method-id resolution as full id/'#fragment'/bare fragment, scope, nonce, iss == document id, expiry and issuance bounds at +-1 s with nbf-else-iat, vp.id/vp.holder consistency, numeric dates in range) is true or false by construction. validate() must accept exactly when all hold, and on acceptance return the presentation, aud, dates, custom claims and header that were signed.",
    min={"quick": {"nonce_pair_probes": 1900, "nonce_pair_probes:equal-special": 40, "rejected:nonce": 1500, "nonce_cases:invisible-on-signed": 40, "nonce_cases:invisible-on-expected": 40, "nonce_cases:eq-special": 150, "dangling_reference_probes": 200, "fractional_date_probes": 40, "fractional_date_cases": 200, "accepted": 600, "rejected": 1500, "rejected:signature": 150, "rejected:iss-equals-holder-document": 150, "rejected:scope": 80,
                   "rejected:vp.id-consistent": 100, "rejected:numeric-date-in-range": 100, "distinct:condition_vectors": 60},
         "thorough": {"nonce_pair_probes": 1900, "nonce_pair_probes:equal-special": 40, "rejected:nonce": 50000, "accepted": 200000, "rejected": 500000, "distinct:condition_vectors": 120}},
    assumptions=["validation bounds are always explicit (no wall clock)",
                 "a vp.id present while jti is absent is not judged (latitude)"],
)

CHECKS["C16"] = cfg(
    "C16",
    technique="runtime monitoring: decision-table oracle over harness-assembled SD-JWTs, disclosures (own SHA-256 digests) and KB-JWTs; accept <=> all conditions; panic monitor",
    level_text="SD-JWT credentials (0-4 concealed claims + nested concealed claim, decoys, every disclosed subset, forged/foreign/duplicated/garbage/reordered disclosures, _sd_alg forms) and KB-JWTs (typ, kid/method id, scope, signature by another key, sd_hash over other concatenations, nonce, aud, iat at the inclusive window edges and a day either side of now) are assembled by the harness so each condition is true or false by construction; validate_credential / validate_key_binding_jwt must accept exactly when all hold, return the original credential with exactly the disclosed claims restored, and never panic.",
    min={"quick": {"kb_typ_near_miss_cases": 250, "kb_typ_near_miss_alone_rejected": 220, "distinct:typ_near_miss_classes": 12, "distinct:typ_near_miss_values": 100, "kb_fixed_sweep_cases": 170, "kb_presentation_altered_after_signing": 100, "kb_rejected:empty-expectation-not-met": 20, "kb_via_wire_text": 200, "cred_accepted": 300, "cred_rejected": 600, "kb_accepted": 200, "kb_rejected": 700, "kb_rejected:signature": 100, "kb_rejected:sd_hash": 60,
                   "cred_rejected:disclosure-bound-to-signed-digest": 60, "two_issuers_accepted": 40, "two_issuers_rejected": 60, "distinct:condition_vectors": 60},
         "thorough": {"kb_typ_near_miss_cases": 250, "kb_typ_near_miss_alone_rejected": 220, "distinct:typ_near_miss_classes": 12, "cred_accepted": 6000, "kb_accepted": 4000, "kb_rejected": 15000, "distinct:condition_vectors": 70}},
    assumptions=["a duplicated disclosure may be refused or accepted (latitude)",
                 "the typ spelling is judged by one dedicated signature (known finding: the dependency's constant is ' kb+jwt'); all other KB scenarios treat the library's own constant and 'kb+jwt' as the right type",
                 "the 'not in the future' branch (latest_issuance_date unset) is tested a full day either side of the wall clock, and 5 s ahead; the 5 s case is judged only when the signed iat is still ahead of the wall clock after the call returned"],
)

CHECKS["C06"] = cfg(
    "C06",
    technique="runtime monitoring: BTreeSet<u32> reference model over bitmap/service/document/validator executions; legacy form built by the harness; zlib block-type classification of every produced stream",
    level_text="Index sets of every shape (boundaries, dense, runs, sparse, all 65536 containers, up to 1e5 elements; stored, fixed and dynamic deflate blocks all observed) are encoded to a service and decoded back through the real code and compared with a set model, in the modern and the harness-built legacy form; revoke/unrevoke batch histories on CoreDocument/IotaDocument must change exactly the batch indices and nothing else in the document; check_status must report Revoked iff member. A second stage (harness/vhs, bin c06j) compiles identity_credential with the non-default jpt-bbs-plus feature and drives the RevocationTimeframe2024 status checks of JptCredentialValidatorUtils (check_revocation_*, check_timeframes_* and the combined function) over issuer documents with several bitmap services, member / non-member indices, validity windows and query instants before / at / inside / after the window (and now) in every StatusCheck mode: Revoked must be reported exactly for members of the addressed service whatever the instant, OutsideTimeframe exactly for non-members strictly outside the window.",
    min={"quick": {"jpt_revoked_reported": 10000, "jpt_not_revoked_ok": 12000, "jpt_combined_revoked_outside_window": 45000, "jpt_combined_member_inside_window": 30000, "jpt_combined_nonmember_checks": 120000, "jpt_timeframe_outside": 150000, "jpt_timeframe_inside_ok": 100000, "jpt_skipall": 250000, "jpt_status_absent_ok": 15000, "jpt_probes_with_namesake": 3500, "jpt_boundary_index_member": 1800, "jpt_unsupported_skipped": 4000, "jpt_no_service_error": 8000,
                   "fault_histories": 150, "fault_ops": 1500, "fault_ops_rejected": 1000, "fault_ops_other_thread": 200, "after_fault_reads_ok": 1000, "after_fault_batches": 100,
                   "namesake_cases": 120, "namesake_targets_shadowed": 150, "namesake_reads_ok": 1000, "namesake_status_rounds": 600, "namesake_batches": 150,
                   "sets": 2000, "roundtrip_ok": 500, "legacy_ok": 500, "block_stored": 50, "block_fixed": 200, "block_dynamic": 300,
                   "histories": 200, "batches": 150, "check_status_revoked": 2000, "check_status_not_revoked": 5000, "mismatch_rejected": 1000, "nontrivial": 500},
         "thorough": {"jpt_revoked_reported": 250000, "jpt_not_revoked_ok": 300000, "jpt_combined_revoked_outside_window": 1000000, "jpt_combined_member_inside_window": 700000, "jpt_timeframe_outside": 3500000, "jpt_skipall": 6000000,
                      "sets": 50000, "roundtrip_ok": 10000, "legacy_ok": 10000, "block_stored": 1000, "block_dynamic": 5000, "histories": 6000, "batches": 5000}},
    quick=[{"flavour": "checked", "shards": 8, "timeout": 600},
           {"flavour": "checked", "package": "vhs", "bin": "c06j", "shards": 8, "timeout": 600}],
    thorough=[{"flavour": "checked", "shards": 16, "timeout": 3000},
              {"flavour": "checked", "package": "vhs", "bin": "c06j", "shards": 16, "timeout": 3000}],
    assumptions=["endpoints produced by other zlib encoders are outside the statement"],
)

CHECKS["C04"] = cfg(
    "C04", exhaustive=True,
    technique="runtime monitoring: entry-model oracle after every document operation (effect, id-uniqueness invariants, JSON round trip, full resolution table), exhaustive op sequences to bounded depth + random walks",
    level_text="All sequences of checked document mutations to depth 3 (quick) / 4 (thorough) over a 48-operation universe from four start documents (empty, built, with dangling references, with path/query id variants), plus long random walks over a larger universe and deserialised start documents, on CoreDocument and IotaDocument. After every step the harness compares the public snapshot with its own entry model: announced effect, refused-means-unchanged, the three id-uniqueness invariants, to_json/from_json identity, and every resolve_method/resolve_service/methods query in every scope against the set of answers the model allows.",
    min={"quick": {"resolve_exact_some_fullid_delim_fragment": 100000, "resolve_exact_some_relref_did_fragment": 25000, "insert_refused_taken_id_delim_fragment": 4000, "attach_true_relref_did_fragment": 100, "resolve_method_mut_checks": 10000000, "resolve_other_query_forms": 10000000, "insert_method_ok_custom_data": 3000, "insert_method_ok_builder_made": 8000,
                   "roundtrip_checks_with_custom_data": 8000,
                   "op_steps": 300000, "distinct_exact": 400000, "state_checks": 20000, "resolve_exact_some": 500000, "insert_method_ok": 10000,
                   "remove_method_some": 5000, "insert_service_ok": 4000, "attach_true": 8000, "detach_true": 3000, "start_accepted": 2000, "walks": 2000, "nontrivial": 500},
         "thorough": {"op_steps": 10000000, "distinct_exact": 10000000, "state_checks": 500000, "walks": 100000}},
    thorough=[{"flavour": "checked", "shards": 16, "timeout": 3000},
              {"flavour": "miri", "tier": "quick", "shards": 16, "timeout": 14400, "args": {"scale": 1}}],
    assumptions=["collections are compared as multisets (order is not part of the statement)",
                 "for genuinely ambiguous queries any matching entry is accepted",
                 "remove_method returning None may still drop dangling references with exactly that id (documented behaviour)",
                 "the *_unchecked mutators are not part of the histories"],
)

CHECKS["C09"] = cfg(
    "C09", level="fault_enumeration", exhaustive=True,
    technique="runtime monitoring with fault injection: fault-injecting JwkStorage/KeyIdStorage wrappers, exhaustive enumeration of failing-call subsets per scenario (incl. undo path), before/after observation of document and both stores",
    level_text="For generate_method and purge_method on CoreDocument and IotaDocument every subset of failing storage call occurrences (discovered by dry runs and grown to a fixpoint so that undo-path calls are included) is injected, over every scope/fragment form/target shape (embedded in each relationship, general purpose with each of the 32 reference subsets), both poll orders of the joined deletes; document (methods with scopes, relationship references, services) and both stores are compared as sets before/after: Ok => everything in place and signing works / everything gone; Err other than UndoOperationFailed => observably unchanged. Seeded random generate/purge/attach histories with per-call fault masks on top.",
    min={"quick": {"arg_scenarios": 3000, "real_failure_checked_clean": 3000, "real_failure_checked_clean:supported_key_type_other_alg": 300, "shipped_histories": 5000, "shipped_generate_err_clean:supported-key-type-other-alg": 5000, "shipped_generate_ok": 6000, "shipped_generate_sign_verified": 6000, "shipped_purge_ok": 2500, "shipped_purge_err_clean:key-gone-from-store": 1000, "shipped_purge_err_clean:keyid-gone-from-store": 1000, "shipped_purge_err_clean:absent": 3000, "purge_target_undigestable": 800, "purge_err_clean:undigestable": 200, "purge_err_clean:halfbacked": 1000, "purge_err_clean:foreign_namesake": 3000,
                   "purge_ok:foreign_namesake": 500, "generate_err_clean:kidless_nofragment": 60, "generate_ok:kidless_fragment": 60, "generate_ok:store_kid": 100,
                   "generate_ok:foreign_namesake": 120, "histories_with_foreign_namesakes": 3000,
                   "generate_ok": 4000, "generate_sign_verified": 4000, "purge_ok": 1000, "generate_err_clean": 4000, "purge_err_clean": 4000,
                   "faults_fired": 8000, "plans_run": 8000, "scenarios": 600, "histories": 20000, "nontrivial": 1500},
         "thorough": {"arg_scenarios": 3000, "real_failure_checked_clean": 3000, "shipped_histories": 50000, "shipped_generate_ok": 60000, "generate_ok": 250000, "purge_ok": 60000, "faults_fired": 400000, "plans_run": 8500, "histories": 1000000}},
    assumptions=["fault model: an injected fault returns an error WITHOUT performing the call's effect (no rollback protocol can be all-or-nothing against a store that lies)",
                 "an error of kind UndoOperationFailed is tolerated when at least one fault fired",
                 "the position of a re-inserted method is free; its scope and references are not"],
)

CHECKS["C12"] = cfg(
    "C12", exhaustive=True,
    technique="runtime monitoring: bit-vector reference model; exhaustive (byte value x bit offset x written value) single-write table; random write histories; independent gzip/base64 codec; credential-level and validator oracles",
    level_text="Every (byte value, offset, written value) single write at several byte positions, random 200-operation histories over every size class and credential-level scenarios for both purposes are executed on the real StatusList2021 / StatusList2021Credential and compared with a harness bit-vector: read = last write, no other entry changes (checked through get, a full sweep and the independently decoded encodedList), out-of-range => Err never panic, encode/decode identity, one-way revocation vs reversible suspension, and the validator's verdict.",
    min={"quick": {"foreign_scenarios": 100, "foreign_checks": 1000, "foreign_checks_bits_differ": 400, "huge_lists": 60, "huge_set_ok": 2000, "huge_set_ok_index_ge_2p32": 300, "huge_related_entries_read": 60000, "table_cases": 12000, "set_false_with_set_neighbours": 5000, "oob_probes": 2000, "roundtrip_identical": 12000, "list_credentials": 150,
                   "cred_writes_ok": 600, "cred_unrevoke_attempts": 80, "cred_unsuspend_ok": 80, "status_matching": 300, "status_revoked": 100, "status_suspended": 100,
                   "status_oob": 5, "nontrivial": 12300},
         "thorough": {"foreign_scenarios": 2500, "foreign_checks": 20000, "foreign_checks_bits_differ": 8000, "table_cases": 40000, "set_false_with_set_neighbours": 100000, "oob_probes": 50000, "status_matching": 9000, "nontrivial": 41000}},
    thorough=[{"flavour": "checked", "shards": 16, "timeout": 3000},
              {"flavour": "miri", "tier": "quick", "shards": 16, "timeout": 14400, "args": {"scale": 1}}],
    assumptions=["MSB-first bit order as in the W3C draft", "any Err variant is accepted where an error is required",
                 "a refused un-revoke may return Ok as long as the entry stays set"],
)

CHECKS["C20"] = cfg(
    "C20", exhaustive=True,
    technique="runtime monitoring with a controlled scheduler: gate-controlled recording handlers, hand-polled futures with a counting waker, enumeration of all completion orders; did:jwk expansion oracle; threaded TSan/Miri flavours",
    level_text="Harness handlers log (table entry, DID) and complete only when the harness opens their gate while resolve/resolve_multiple are polled by hand, so every completion order of up to 5 pending handlers (all 120) is driven, on the Send and the single-threaded resolver: exactly one call on the handler registered for the method, with the input DID; unsupported method => error and no call; resolve_multiple = one entry per distinct DID equal to single resolution, for every order, Err iff some DID fails. did:jwk over generated public JWKs must expand to a document whose single method carries exactly that key.",
    min={"quick": {"neardup_list_cases": 1200, "neardup_pairs_hexcase": 1000, "neardup_pairs_lettercase": 400, "neardup_pairs_pct-vs-literal": 400, "neardup_pairs_prefix": 400, "neardup_pairs_duplicate": 400, "neardup_pairs_method": 400, "neardup_lists_as_picky": 200, "neardup_fixed_families": 30, "long_list_cases": 60, "long_list_distinct_dids": 20000, "jwk_list_cases": 2500, "jwk_respelled_pairs": 4000, "lookalike_list_cases": 300, "multi_lookups_checked": 40000, "multi_cases": 4000, "multi_ok": 2000, "multi_err": 2000, "orders_enumerated_exhaustively": 2000, "single_ok": 2000, "single_unsupported": 400,
                   "handler_calls_checked": 7000, "jwk_public_accepted": 3000, "jwk_docs_checked": 5000, "threaded_cases": 80, "distinct:orders": 250, "nontrivial": 500},
         "thorough": {"neardup_list_cases": 30000, "neardup_pairs_hexcase": 20000, "neardup_fixed_families": 30, "multi_cases": 400000, "multi_ok": 100000, "orders_enumerated_exhaustively": 150000, "jwk_docs_checked": 150000, "threaded_cases": 6000}},
    thorough=[{"flavour": "checked", "shards": 16, "timeout": 3000},
              {"flavour": "tsan", "tier": "quick", "shards": 8, "timeout": 3000, "args": {"scale": 1000}},
              {"flavour": "miri", "tier": "quick", "shards": 16, "timeout": 14400, "args": {"scale": 1}}],
    assumptions=["fragment '#0' and the exact relationship set of a did:jwk document are not demanded by the statement (counted)",
                 "liveness only as bounded progress: every gated future completes once all gates are open"],
)

CHECKS["C10"] = cfg(
    "C10", exhaustive=True,
    technique="runtime monitoring: own W3C DID ABNF recogniser and DID-URL splitter as oracle over exhaustive short strings, %XY grid, random/mutated DID URLs, (value, segment) pairs for every setter and join, Eq/Ord/Hash pair laws",
    level_text="Every string over a 14-symbol adversarial alphabet up to length 5 (quick) / 7 (thorough) after 'did:m:' (and after 'did:'), a %XY grid, whitespace/control wraps and random/mutated DID URLs go through every construction path of CoreDID, DIDUrl and DIDJwk; accepted values must be reproduced verbatim, recompose from their components, satisfy the ABNF per component and carry no URL part in a plain DID; every setter/join must yield a value that re-parses to itself or leave the value unchanged; ==, cmp and hash must agree on all pairs of a value pool built through six routes.",
    min={"quick": {"exhaustive_strings": 500000, "core_accepted_clean": 5000, "url_accepted_clean": 10000, "setter_ok": 700, "setter_refused": 1400, "join_ok": 140,
                   "reparse_checks": 800, "pairs_checked": 50000, "pairs_equal_across_routes": 300, "jwk_decoded": 3, "random_strings": 16000, "nontrivial": 10000},
         "thorough": {"exhaustive_strings": 100000000, "core_accepted_clean": 130000, "url_accepted_clean": 390000, "pairs_checked": 1700000, "nontrivial": 700000}},
    thorough=[{"flavour": "checked", "shards": 16, "timeout": 3000},
              {"flavour": "miri", "tier": "quick", "shards": 16, "timeout": 14400, "args": {"scale": 1}}],
    assumptions=["rejecting a valid DID/DID URL is counted (url_rejected_ref_valid), not a violation: the statement constrains accepted strings",
                 "HEXDIG is taken case-insensitively; a leading ':' or '::' inside a method-specific-id is valid ABNF"],
)

CHECKS["C17"] = cfg(
    "C17", exhaustive=True,
    technique="runtime monitoring: own IOTA DID grammar + (network, tag bytes) model as oracle over an exhaustive spelling grid and random families through all 8 construction paths; pairwise Eq/Ord/Hash against the model",
    level_text="An exhaustive grid (scheme x method x network x prefix x tag length 62-66 x case/non-hex x suffix x whitespace) and random families of spellings are fed to every construction path (parse, FromStr, TryFrom<&str/String/CoreDID/BaseDIDUrl>, try_from_core, serde) and the builders; every accepted value must be the exact lowercase normal form with the default network elided and no URL parts, recompose from network_str/tag_str, round-trip through string/JSON/CoreDID, expose exactly the bytes/name given to new(), and be equal (and order/hash consistently) exactly when network and tag bytes are equal. NetworkName is driven through try_from, validate_network_name and serde (accepted exactly the 1-6 lowercase alphanumerics, builders never panic on an accepted name); from_alias_id is driven over alias-id shapes with embedded network segments (whatever it returns sits on the network passed in); every &IotaDID handed out by IotaDocument::id() / controller() of documents accepted through JSON, the tuple conversion, From<CoreDocument> and state-metadata unpacking is judged by the validity clauses (and, under separate signatures, by the normal-form clause).",
    min={"quick": {"doc_cases": 60000, "doc_accepted": 20000, "doc_refused": 30000, "doc_mixed_list_refused": 12000, "doc_state_metadata_malformed_iota_refused": 12000, "accepted": 500000, "accepted_convert_paths": 200000, "value_checks": 400000, "must_accept_checks": 300000, "rejected": 300000, "pair_checks": 2000000,
                   "pair_checks_equal_models": 800000, "new_checked": 10000, "netname_rejected": 3000, "grid_strings": 70000, "nontrivial": 2000,
                   "alias_shape_checks": 30000, "alias_shape_returned": 200, "netname_serde_checks": 12000, "netname_serde_accepted_valid": 5000, "netname_serde_rejected": 5000},
         "thorough": {"accepted": 20000000, "value_checks": 15000000, "pair_checks": 100000000, "grid_strings": 5000000, "nontrivial": 5000}},
    assumptions=["no accept/reject claim for inputs outside the grammar (only what is accepted is judged)",
                 "from_alias_id refusing (by panicking, as documented) an alias id that is not 0x + 64 hex digits is counted, not judged; whatever it returns is judged"],
)

CHECKS["C05"] = cfg(
    "C05", bin="c05", death_is_violation=True,
    technique="runtime monitoring: process-wide panic monitor + shard-death observation (abort, stack overflow, OOM) over ~100 parsing/decoding/validating entry points fed exhaustive short strings, grammar-aware random structures and corpus mutation, followed by an accessor sweep on accepted values; overflow checks and debug assertions on",
    level_text="Eleven families of entry points (DID strings and setters, timestamps/urls/collections, JWKs and the concrete verifiers, JWS in three serializations, documents/services/methods and packed state metadata, credentials/presentations, the three validators over harness-signed hostile tokens against hostile documents, status lists/bitmaps, SD-JWT/disclosures/method digests) are fed directed hostile inputs, exhaustive short strings, grammar-aware random structures and byte/JSON mutations of the repository's own fixtures; every call runs under a panic hook and every accepted value goes through all accessors, formatters and serialisers. Two further families cover NetworkName (serde / TryFrom, then the DID and document constructors) and the SD-JWT VC module (integrity metadata, type / claim / display / issuer metadata with a finite resolver web, harness-signed SdJwtVc tokens through parse, accessors, presentation, signature / key-binding verification and validate; cyclic extends webs and recursive-$ref schemas in isolated child processes). A panic, arithmetic overflow, stack overflow or dying shard is a violation.",
    min={"quick": {"ts_wire_arith": 120000, "ts_arith_some": 120000, "ts_arith_none": 90000, "respelled_documents": 400, "noninjective_maps": 6000, "smd_into_iota_document_ok": 1200, "cases_netname": 2000, "layered_payloads": 1000, "cases_sdjwtvc": 40000, "integrity_accepted": 3000, "typemeta_accepted": 800, "vc_parsed": 1000, "vc_validated": 500, "isolated_probes": 150, "isolated_returned": 120, "evaluations": 300000, "accepted": 50000, "accessor_calls": 500000, "cases_did": 150000, "cases_core": 40000, "cases_jwk": 15000, "cases_jws": 20000,
                   "cases_docs": 25000, "cases_cred": 50000, "cases_valid": 12000, "cases_status": 2500, "cases_sdjwt": 7000, "credentials_validated": 150,
                   "presentations_validated": 100, "sd_jwt_validated": 80, "kb_jwt_validated": 70, "jws_verified": 100, "nontrivial": 250},
         "thorough": {"evaluations": 8000000, "accepted": 1200000, "accessor_calls": 10000000, "cases_valid": 300000, "nontrivial": 250}},
    thorough=[{"flavour": "checked", "shards": 16, "timeout": 3000},
              {"flavour": "asan", "tier": "quick", "shards": 8, "timeout": 3000, "args": {"scale": 1000}}],
    assumptions=["jpt-bbs-plus, client-only and Stronghold code is not compiled into the harness and not covered by C05 (sd_jwt_vc is: feature sdjwtvc of the harness crate, on by default)",
                 "inputs are capped at 64 KiB and JSON nesting depth 100; allocation aborts from caller-chosen sizes are out of scope",
                 "IotaDID::from_alias_id panicking on a malformed alias id is documented behaviour of a constructor, not of a parser, and is excluded; IotaDID::new / placeholder / IotaDocument::new are applied to every accepted NetworkName and must not panic", "structurally self-referential inputs (cyclic extends webs, recursive $ref schemas) run in a child process of the same binary so that a stack overflow is observed instead of killing the shard"],
)

CHECKS["C14"] = cfg(
    "C14",
    technique="runtime monitoring: symbolic-DID document model rendered for any concrete DID as oracle for pack / unpack / rebase; exhaustive header mutations, truncations, trailing bytes, size boundary",
    level_text="IOTA documents generated from mixes of self/foreign methods in every scope, references (incl. dangling), services, controllers, alsoKnownAs and custom properties are packed, unpacked for the same DID (must equal the original) and for other DIDs/networks (must equal the harness model rendered with the target DID: exactly the self references rewritten); the payload and header are checked against the model, every single-byte header mutation and truncation must be rejected, trailing bytes ignored, and pack must fail exactly beyond 65535 bytes. A second stage (harness/vhs, bin c14s) wraps packed documents into alias outputs with Ed25519 or alias state-controller/governor addresses and reads them back with IotaDocument::unpack_from_output for the same or another DID: everything but the ledger address fields must equal the harness model, and no controller of the packed document may be dropped.",
    min={"quick": {"alias_output_alias_id_differs_from_passed_did": 500, "alias_output_alias_id_null": 100, "alias_output_target_same_tag_other_net": 40, "blocks_built": 400, "block_malformed_rejected": 250, "block_wellformed_accepted": 120, "block_documents_equal_model": 200, "pack_ok": 2000, "payload_matches_model": 2000, "unpack_ok": 2000, "roundtrip_same_ok": 2000, "rebase_ok": 5000, "self_refs_rewritten": 20000,
                   "foreign_refs_preserved": 20000, "header_mutations_rejected": 100000, "exhaustive_header_documents": 50, "truncations_rejected": 20000,
                   "trailing_ignored": 2000, "oversize_rejected": 16, "bytes_rejected_by_frame": 2000, "one_element_controller_array_inputs": 50, "nontrivial": 2000,
                   "alias_output_unpacked": 1000, "alias_output_other_did": 200, "alias_output_with_controllers_ed25519_state_controller": 200},
         "thorough": {"pack_ok": 50000, "roundtrip_same_ok": 50000, "rebase_ok": 100000, "header_mutations_rejected": 1000000, "nontrivial": 10000,
                      "alias_output_unpacked": 20000, "alias_output_with_controllers_ed25519_state_controller": 4000}},
    quick=[{"flavour": "checked", "shards": 8, "timeout": 600},
           {"flavour": "checked", "package": "vhs", "bin": "c14s", "shards": 8, "timeout": 600}],
    thorough=[{"flavour": "checked", "shards": 16, "timeout": 3000},
              {"flavour": "checked", "package": "vhs", "bin": "c14s", "shards": 16, "timeout": 3000}],
    assumptions=["documents never contain the placeholder did:0:0 (excluded by the statement)",
                 "targets for which rewriting would make two entries coincide are run under the panic monitor but not judged",
                 "custom method data never carries extra properties (the JSON form is inherently ambiguous there)"],
)

# Default entries for properties whose monitors are being built (not claimed in MANIFEST.json until enabled).
for _pid in ["C%02d" % i for i in range(1, 21)]:
    if _pid not in CHECKS:
        CHECKS[_pid] = cfg(_pid, disabled=True)
CHECKS["C05"]["death_is_violation"] = True
