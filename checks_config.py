"""Per-property configuration of the driver: harness binary, stages per tier, thresholds."""

def cfg(pid, level="exploration", quick=None, thorough=None, **kw):
    d = {"id": pid, "bin": pid.lower(), "level": level,
         "quick": quick or [{"flavour": "checked", "shards": 8, "timeout": 600}],
         "thorough": thorough or [{"flavour": "checked", "shards": 16, "timeout": 3000}]}
    d.update(kw)
    return d

CHECKS = {}

CHECKS["C13"] = cfg(
    "C13",
    technique="runtime monitoring: differential oracle (own civil-date arithmetic) over boundary grid x all 2879 offsets + seeded random instants; panic monitor",
    level_text="Every RFC 3339 string rendered from the boundary date-times x every UTC offset x fraction lengths, plus seeded random instants, unix seconds and durations, is run through the real Timestamp API and judged against the harness's integer reference; a panic anywhere is a violation. Exploration, not proof: held on the executions listed in the evidence.",
    min={"quick": {"parse_accepted": 50000, "arith_checked": 1000, "from_unix_accepted": 1000, "nontrivial": 20},
         "thorough": {"parse_accepted": 500000, "arith_checked": 10000, "nontrivial": 20}},
    assumptions=["reference civil-date arithmetic (Howard Hinnant's days_from_civil) in the harness is correct",
                 "second=60 may be rejected or mapped to :59/:60"],
)

# Default entries for properties whose monitors are being built (not claimed in MANIFEST.json until enabled).
for _pid in ["C%02d" % i for i in range(1, 21)]:
    if _pid not in CHECKS:
        CHECKS[_pid] = cfg(_pid, disabled=True)
CHECKS["C09"]["level"] = "fault_enumeration"
CHECKS["C05"]["death_is_violation"] = True
