"""Per-property configuration of the driver: harness binary, stages per tier, thresholds."""

def cfg(pid, level="exploration", quick=None, thorough=None, **kw):
    d = {"id": pid, "bin": pid.lower(), "level": level,
         "quick": quick or [{"flavour": "checked", "shards": 8, "timeout": 600}],
         "thorough": thorough or [{"flavour": "checked", "shards": 16, "timeout": 3000}]}
    d.update(kw)
    return d

CHECKS = {}

CHECKS["C13"] = cfg(
    "C13",
    technique="runtime monitoring: differential oracle (own civil-date arithmetic) over boundary grid x all 2879 offsets + seeded random instants; panic monitor",
    level_text="Every RFC 3339 string rendered from the boundary date-times x every UTC offset x fraction lengths, plus seeded random instants, unix seconds and durations, is run through the real Timestamp API and judged against the harness's integer reference; a panic anywhere is a violation. Exploration, not proof: held on the executions listed in the evidence.",
    min={"quick": {"parse_accepted": 50000, "arith_checked": 1000, "from_unix_accepted": 1000, "nontrivial": 20},
         "thorough": {"parse_accepted": 500000, "arith_checked": 10000, "nontrivial": 20}},
    assumptions=["reference civil-date arithmetic (Howard Hinnant's days_from_civil) in the harness is correct",
                 "second=60 may be rejected or mapped to :59/:60"],
)

CHECKS["C11"] = cfg(
    "C11", exhaustive=True,
    technique="runtime monitoring: exhaustive decision table over header pairs at 13 encoder/decoder entry points, verdict predicate written from the statement",
    level_text="The complete table of (protected, unprotected) header contents named by the property (alg, b64, 12 crit lists, shared registered/custom names, either header missing) is run through every encoder constructor, add_recipient, every decoder entry point and verify; each verdict is compared with a predicate derived from the statement. Exhaustive for the table, exploration beyond it.",
    min={"quick": {"accepted": 3000, "rejected": 1000000, "rows_violating_exactly_one_rule": 1000},
         "thorough": {"accepted": 10000, "rejected": 4000000, "rows_violating_exactly_one_rule": 3000}},
    assumptions=["b64-disagreement between recipients is demanded of GeneralJwsEncoder::add_recipient only (the anchor); the general decoder is not judged on it",
                 "a header pair with neither header present is outside the table (the statement gives no verdict for it)"],
)

CHECKS["C01"] = cfg(
    "C01",
    technique="runtime monitoring: recording JwsVerifier + own JWS assembler; oracle over the verifier call log, reference re-verification with the crypto crates, single-bit mutation of verified tokens",
    level_text="Tokens in all three serializations (and compact through CoreDocument::verify_jws) are assembled by the harness from raw header text, so P, Y and S are known; every token the library reports verified is checked against the recording verifier's log (signing input == ASCII(P)||'.'||Y, alg from the protected header, caller's key, decoded signature, delegate verdict honoured, key alg pin, claims) and re-verified with ed25519/p256/k256 directly; then every single bit of P, Y and S of verified tokens is flipped and must stop verifying.",
    min={"quick": {"verified": 800, "bitflips": 50000, "verified:Compact": 100, "verified:Flattened": 100, "verified:General": 100, "verified:Document": 60, "nontrivial": 100},
         "thorough": {"verified": 10000, "bitflips": 500000, "nontrivial": 300}},
    thorough=[{"flavour": "checked", "shards": 16, "timeout": 3000},
              {"flavour": "asan", "shards": 8, "timeout": 3000, "args": {"scale": 60}}],
    assumptions=["completeness (valid tokens are accepted) is counted, not demanded: the statement is 'verified only if'",
                 "ed25519/p256/k256 crates called directly are the reference for signature validity"],
)

# Default entries for properties whose monitors are being built (not claimed in MANIFEST.json until enabled).
for _pid in ["C%02d" % i for i in range(1, 21)]:
    if _pid not in CHECKS:
        CHECKS[_pid] = cfg(_pid, disabled=True)
CHECKS["C09"]["level"] = "fault_enumeration"
CHECKS["C05"]["death_is_violation"] = True
