//! C15 (Stronghold stage) — the key-storage contract of C15 checked on `StrongholdStorage`.
//!
//! Same model and oracles as `vh/src/bin/c15.rs` (copied, not shared, so that `vh` stays free of
//! libsodium): sequential histories of generate/insert/sign/delete/exists and
//! insert_key_id/get_key_id/delete_key_id with valid and invalid arguments, judged by the harness's
//! own map model, own RFC 7638 thumbprint and ed25519 verification under the own key and under every
//! other key; racing rounds (std threads + block_on) on the key-id store and on the JWK store.
//! Differences: no `count()` on Stronghold (after a rejected call every issued key id is re-checked
//! with `exists` instead); every mutating call persists the snapshot, so workloads are small.
//! Snapshots live under /verif/harness/target/tmp/stronghold/<pid>-<shard>/ and are removed at exit.
use crypto::signatures::ed25519 as ed;
use futures::executor::block_on;
use identity_did::CoreDID;
use identity_eddsa_verifier::EdDSAJwsVerifier;
use identity_jose::jwk::{Jwk, JwkParams, JwkParamsEc, JwkParamsOct, JwkParamsOkp, JwkParamsRsa, JwkType};
use identity_jose::jws::{JwsAlgorithm, JwsVerifier, VerificationInput};
use identity_storage::{JwkGenOutput, JwkStorage, KeyId, KeyIdStorage, KeyType, MethodDigest};
use identity_stronghold::{StrongholdStorage, ED25519_KEY_TYPE};
use iota_sdk::client::secret::stronghold::StrongholdSecretManager;
use iota_sdk::client::Password;
use identity_verification::VerificationMethod;
use serde_json::{json, Value};
use std::collections::{BTreeMap, BTreeSet};
use std::future::Future;
use std::sync::atomic::{AtomicU64, AtomicUsize, Ordering};
use std::path::PathBuf;
use std::sync::Arc;
use vh::b64::{url_decode, url_encode};
use vh::keys::{sha256, Alg, Key};
use vh::panicmon::{catch, PanicRec};
use vh::{Args, Report, Rng};

/// Violation signatures of this stage are prefixed so that they never collide with the memstore
/// signatures of `c15` in known_findings.txt.
trait ShViolation {
  fn sh_violation(&mut self, sig: &str, desc: &str, case: Value);
}
impl ShViolation for Report {
  fn sh_violation(&mut self, sig: &str, desc: &str, case: Value) {
    self.violation(&format!("stronghold:{}", sig), desc, case);
  }
}

/// Runs one async library call to completion on this thread, panics are returned.
fn call<T>(f: impl Future<Output = T>) -> Result<T, PanicRec> {
  catch(|| block_on(f))
}

const OTHER_ALGS: [JwsAlgorithm; 14] = [
  JwsAlgorithm::HS256,
  JwsAlgorithm::HS384,
  JwsAlgorithm::HS512,
  JwsAlgorithm::RS256,
  JwsAlgorithm::RS384,
  JwsAlgorithm::RS512,
  JwsAlgorithm::PS256,
  JwsAlgorithm::PS384,
  JwsAlgorithm::PS512,
  JwsAlgorithm::ES256,
  JwsAlgorithm::ES384,
  JwsAlgorithm::ES512,
  JwsAlgorithm::ES256K,
  JwsAlgorithm::NONE,
];

// ---------------------------------------------------------------------------------------------
// reference pieces
// ---------------------------------------------------------------------------------------------

/// RFC 7638 thumbprint of an Ed25519 OKP key, from the `x` text (harness's own computation).
fn ed_thumbprint(x_b64: &str) -> String {
  url_encode(&sha256(format!(r#"{{"crv":"Ed25519","kty":"OKP","x":"{}"}}"#, x_b64).as_bytes()))
}

fn direct_verify(pk: &[u8; 32], msg: &[u8], sig: &[u8]) -> bool {
  let Ok(sigb): Result<[u8; 64], _> = sig.try_into() else { return false };
  match ed::PublicKey::try_from(*pk) {
    Ok(p) => p.verify(&ed::Signature::from_bytes(sigb), msg),
    Err(_) => false,
  }
}

fn lib_verify(pub_jwk: &Jwk, msg: &[u8], sig: &[u8]) -> Result<bool, PanicRec> {
  catch(|| {
    EdDSAJwsVerifier::default()
      .verify(VerificationInput { alg: JwsAlgorithm::EdDSA, signing_input: msg.into(), decoded_signature: sig.into() }, pub_jwk)
      .is_ok()
  })
}

fn okp(crv: &str, x: &str, d: Option<&str>, alg: Option<&str>) -> Jwk {
  let mut p = JwkParamsOkp::new();
  p.crv = crv.to_string();
  p.x = x.to_string();
  p.d = d.map(|s| s.to_string());
  let mut j = Jwk::from_params(p);
  if let Some(a) = alg {
    j.set_alg(a);
  }
  j
}

fn ec(crv: &str, x: &str, y: &str, d: Option<&str>, alg: Option<&str>) -> Jwk {
  let mut p = JwkParamsEc::new();
  p.crv = crv.to_string();
  p.x = x.to_string();
  p.y = y.to_string();
  p.d = d.map(|s| s.to_string());
  let mut j = Jwk::from_params(p);
  if let Some(a) = alg {
    j.set_alg(a);
  }
  j
}

/// A JWK that declares `kty` but carries the parameters `params` of whatever family (the public API allows it through
/// `set_params_unchecked` and `params_mut`; `set_kty` would reset the parameters).
fn declared(kty: JwkType, params: impl Into<JwkParams>, alg: Option<&str>, via_params_mut: bool) -> Jwk {
  let mut j = Jwk::new(kty);
  if via_params_mut {
    *j.params_mut() = params.into();
  } else {
    j.set_params_unchecked(params);
  }
  if let Some(a) = alg {
    j.set_alg(a);
  }
  j
}

fn okp_params(crv: &str, x: &str, d: Option<&str>) -> JwkParamsOkp {
  let mut p = JwkParamsOkp::new();
  p.crv = crv.to_string();
  p.x = x.to_string();
  p.d = d.map(|s| s.to_string());
  p
}

fn family(k: JwkType) -> &'static str {
  match k {
    JwkType::Ec => "EC",
    JwkType::Rsa => "RSA",
    JwkType::Oct => "oct",
    JwkType::Okp => "OKP",
  }
}

/// Harness-made Ed25519 JWKs for key `label`.
fn ed_parts(label: u64) -> (String, String, [u8; 32]) {
  let k = Key::ed(label);
  let (x, _) = k.public_xy();
  let pk: [u8; 32] = x.clone().try_into().expect("32 byte ed25519 key");
  (url_encode(&x), url_encode(&k.secret_bytes()), pk)
}

fn ec_parts(alg: Alg, label: u64) -> (String, String, String) {
  let k = Key::new(alg, label);
  let (x, y) = k.public_xy();
  (url_encode(&x), url_encode(&y), url_encode(&k.secret_bytes()))
}

fn digest_from_u64(v: u64) -> MethodDigest {
  let mut b = vec![0u8];
  b.extend_from_slice(&v.to_le_bytes());
  MethodDigest::unpack(b).expect("9 byte version-0 digest unpacks")
}

// ---------------------------------------------------------------------------------------------
// snapshot files
// ---------------------------------------------------------------------------------------------

static SNAP_NO: AtomicU64 = AtomicU64::new(0);

fn snap_dir(args: &Args) -> PathBuf {
  PathBuf::from(format!("/verif/harness/target/tmp/stronghold/{}-{}", std::process::id(), args.shard))
}

/// A fresh, empty Stronghold-backed store with its own snapshot file.
fn new_store(dir: &PathBuf) -> (StrongholdStorage, PathBuf) {
  let n = SNAP_NO.fetch_add(1, Ordering::SeqCst);
  let file = dir.join(format!("s{}.stronghold", n));
  let sm = StrongholdSecretManager::builder()
    .password(Password::from("c15-harness-password".to_owned()))
    .build(&file)
    .expect("harness: stronghold secret manager builds");
  (StrongholdStorage::new(sm), file)
}

// ---------------------------------------------------------------------------------------------
// sequential histories
// ---------------------------------------------------------------------------------------------

struct KeyRec {
  id: String,
  pk: [u8; 32],
  /// public JWK that corresponds to the key (generate output, or harness-made for inserted keys)
  pub_jwk: Jwk,
  alive: bool,
  /// false for keys accepted within oracle latitude (malformed `d`, `x` not matching `d`)
  signable: bool,
  origin: &'static str,
}

struct Hist<'a> {
  rep: &'a mut Report,
  rng: Rng,
  store: StrongholdStorage,
  keys: Vec<KeyRec>,
  issued: BTreeSet<String>,
  kid_model: BTreeMap<Vec<u8>, String>,
  digests: Vec<MethodDigest>,
  log: Vec<String>,
  kinds: String,
  ctr: u64,
  label_base: u64,
  max_keys: usize,
  max_cross: usize,
  /// Miri: keep the number of (interpreted, very slow) curve operations minimal
  tiny: bool,
  seed_info: Value,
  /// `kid` values carried by JWKs that were inserted earlier in this history
  kid_pool: Vec<String>,
  /// inserted harness keys: (index into `keys`, x, d, kid the JWK carried) — for re-imports after a delete
  imported: Vec<(usize, String, String, Option<String>)>,
  /// model and store diverged through a reported violation: the history ends here
  broken: bool,
}

impl<'a> Hist<'a> {
  fn viol(&mut self, sig: &str, desc: &str) {
    let tail: Vec<String> = self.log.iter().rev().take(60).rev().cloned().collect();
    let case = json!({"history": tail, "run": self.seed_info});
    self.rep.sh_violation(sig, &format!("{} [after {} ops]", desc, self.log.len()), case);
  }
  fn panic(&mut self, op: &str, p: &PanicRec) {
    if p.in_harness() {
      panic!("harness bug in {}: {} at {}", op, p.msg, p.loc());
    }
    self.viol(&format!("{}-panic@{}", op, p.file_only()), &format!("{} panicked: {} at {}", op, p.msg, p.loc()));
  }
  fn next(&mut self) -> u64 {
    self.ctr += 1;
    self.ctr
  }
  fn alive_count(&self) -> usize {
    self.keys.iter().filter(|k| k.alive).count()
  }
  fn class(&mut self, op: &str, outcome: &str, target: &str) {
    let a = self.alive_count();
    let bucket = if a == 0 { 0 } else if a < 3 { 1 } else if a < 7 { 2 } else { 3 };
    let dead = self.keys.len() - a;
    let d = format!("sh-seq|{}|{}|{}|alive{}|dead{}", op, outcome, target, bucket, dead.min(2));
    self.rep.distinct("nontrivial", &d);
    self.kinds.push_str(op);
    self.kinds.push('/');
    self.kinds.push_str(outcome);
    self.kinds.push(';');
  }

  /// Stronghold has no `count()`: after a rejected call / a delete every issued key id must still be
  /// exactly as alive as the model says.
  fn check_count(&mut self, ctx: &str) {
    for k in 0..self.keys.len() {
      let want = self.keys[k].alive;
      match call(self.store.exists(&KeyId::new(self.keys[k].id.clone()))) {
        Ok(Ok(b)) => {
          self.rep.inc("sh_oracle_checks");
          if b != want {
            self.viol(
              if ctx == "rejected" { "rejected-call-changed-store" } else { "store-differs-from-model" },
              &format!("exists(key#{}) = {} but the model says {} ({})", k, b, want, ctx),
            );
          }
        }
        Ok(Err(e)) => {
          if want {
            self.viol("exists-error-for-stored-key", &format!("exists(key#{}) failed ({}): {}", k, ctx, e));
          }
        }
        Err(p) => self.panic("exists", &p),
      }
    }
  }

  fn pick_alive(&mut self, signable: bool) -> Option<usize> {
    let v: Vec<usize> = (0..self.keys.len()).filter(|&i| self.keys[i].alive && (!signable || self.keys[i].signable)).collect();
    if v.is_empty() {
      None
    } else {
      Some(*self.rng.pick(&v))
    }
  }

  /// A key id that is not stored: deleted, never issued, or a near miss of a live one.
  fn absent_id(&mut self) -> (String, &'static str) {
    let alive: BTreeSet<String> = self.keys.iter().filter(|k| k.alive).map(|k| k.id.clone()).collect();
    let dead: Vec<usize> = (0..self.keys.len()).filter(|&i| !self.keys[i].alive).collect();
    for _ in 0..8 {
      let (cand, kind): (String, &'static str) = match self.rng.below(7) {
        0 | 1 if !dead.is_empty() => (self.keys[*self.rng.pick(&dead)].id.clone(), "deleted"),
        2 => (String::new(), "never"),
        3 => ("non-existent-id".to_string(), "never"),
        4 if !alive.is_empty() => {
          let ids: Vec<&String> = alive.iter().collect();
          let base = (*self.rng.pick(&ids)).clone();
          match self.rng.below(4) {
            0 => (base[..base.len().saturating_sub(1)].to_string(), "nearmiss"),
            1 => (format!("{}x", base), "nearmiss"),
            2 => (base.to_lowercase(), "nearmiss"),
            _ => (base.to_uppercase(), "nearmiss"),
          }
        }
        _ => {
          const A: &[u8] = b"ABCDEFGHIJKLMNOPQRSTUVWXYZabcdefghijklmnopqrstuvwxyz0123456789";
          ((0..32).map(|_| A[self.rng.usize(A.len())] as char).collect(), "never")
        }
      };
      if !alive.contains(&cand) {
        return (cand, kind);
      }
    }
    ("definitely-not-a-key-id".to_string(), "never")
  }

  // ------------------------------------------------------------------ generate
  /// Judges a successful `generate` output against the statement; returns the model record.
  fn judge_generated(&mut self, out: &JwkGenOutput, requested_alg: &str) -> Option<KeyRec> {
    let id = out.key_id.as_str().to_string();
    let jv = match catch(|| serde_json::to_value(&out.jwk)) {
      Ok(Ok(v)) => v,
      Ok(Err(e)) => {
        self.viol("generate-jwk-malformed", &format!("generated JWK does not serialise: {}", e));
        return None;
      }
      Err(p) => {
        self.panic("jwk-serialize", &p);
        return None;
      }
    };
    self.rep.inc("sh_oracle_checks");
    if self.issued.contains(&id) {
      self.viol("generate-key-id-not-fresh", &format!("generate returned key id {:?} which was issued before", id));
    }
    let obj = jv.as_object().cloned().unwrap_or_default();
    for private_member in ["d", "p", "q", "dp", "dq", "qi", "oth", "k"] {
      if obj.contains_key(private_member) {
        self.viol(
          "generate-leaks-private-member",
          &format!("generated JWK carries private member {:?}: {}", private_member, jv),
        );
      }
    }
    match catch(|| (out.jwk.is_public(), out.jwk.is_private())) {
      Ok((true, false)) => {}
      Ok((pu, pr)) => self.viol(
        "generate-leaks-private-member",
        &format!("generated JWK is_public()={} is_private()={}: {}", pu, pr, jv),
      ),
      Err(p) => self.panic("jwk-is_public", &p),
    }
    match obj.get("alg").and_then(|a| a.as_str()) {
      Some(a) if a == requested_alg => {}
      other => self.viol(
        "generate-alg-mismatch",
        &format!("generate(.., {}) returned a JWK with alg {:?}", requested_alg, other),
      ),
    }
    let kty = obj.get("kty").and_then(|a| a.as_str()).unwrap_or("");
    let crv = obj.get("crv").and_then(|a| a.as_str()).unwrap_or("");
    let x = obj.get("x").and_then(|a| a.as_str()).unwrap_or("");
    let pk: Option<[u8; 32]> = url_decode(x).and_then(|b| b.try_into().ok());
    if kty != "OKP" || crv != "Ed25519" || pk.is_none() {
      self.viol("generate-jwk-malformed", &format!("Ed25519 generate returned {}", jv));
      return None;
    }
    let want_kid = ed_thumbprint(x);
    match obj.get("kid").and_then(|a| a.as_str()) {
      Some(k) if k == want_kid => {}
      other => self.viol(
        "generate-kid-not-thumbprint",
        &format!("generated JWK kid = {:?}, own RFC 7638 thumbprint = {:?} ({})", other, want_kid, jv),
      ),
    }
    Some(KeyRec { id, pk: pk.unwrap(), pub_jwk: out.jwk.clone(), alive: true, signable: true, origin: "generated" })
  }

  fn op_generate(&mut self) {
    let r = call(self.store.generate(ED25519_KEY_TYPE, JwsAlgorithm::EdDSA));
    match r {
      Err(p) => self.panic("generate", &p),
      Ok(Err(e)) => {
        self.log.push(format!("generate(Ed25519,EdDSA) -> Err({})", e));
        self.viol("generate-fails", &format!("generate(Ed25519, EdDSA) failed: {}", e));
      }
      Ok(Ok(out)) => {
        self.log.push(format!("generate(Ed25519,EdDSA) -> key#{} id={}", self.keys.len(), out.key_id));
        self.rep.inc("sh_generate_ok");
        self.class("generate", "ok", "-");
        if let Some(rec) = self.judge_generated(&out, "EdDSA") {
          if self.rep.want_sample() && self.rep.get("sh_generate_ok") <= 2 {
            self.rep.sample(json!({"op":"generate","key_id":rec.id,"jwk":serde_json::to_value(&out.jwk).unwrap_or(Value::Null)}));
          }
          self.issued.insert(rec.id.clone());
          self.keys.push(rec);
          let i = self.keys.len() - 1;
          self.expect_exists(i, "after generate");
        } else {
          // keep the model's count right even for a malformed output
          self.issued.insert(out.key_id.as_str().to_string());
          self.keys.push(KeyRec {
            id: out.key_id.as_str().to_string(),
            pk: [0; 32],
            pub_jwk: out.jwk.clone(),
            alive: true,
            signable: false,
            origin: "generated-malformed",
          });
        }
      }
    }
  }

  fn op_generate_invalid(&mut self) {
    // (key type, alg, must_reject)
    let (kt, alg, must): (String, JwsAlgorithm, bool) = match self.rng.below(8) {
      0 | 1 | 2 => ("Ed25519".into(), *self.rng.pick(&OTHER_ALGS), true),
      3 => ("BLS12381G2".into(), if self.rng.bool() { JwsAlgorithm::EdDSA } else { *self.rng.pick(&OTHER_ALGS) }, true),
      4 => (self.rng.pick(&["", "no-such-key-type", "\u{0}", "Ed25519\n"]).to_string(), JwsAlgorithm::EdDSA, true),
      // spellings / key types the shipped store does not know: rejection expected, acceptance is latitude
      5 => (self.rng.pick(&["ed25519", "ED25519", " Ed25519", "Ed25519 "]).to_string(), JwsAlgorithm::EdDSA, false),
      6 => (self.rng.pick(&["X25519", "Ed448", "P-256", "secp256k1"]).to_string(), JwsAlgorithm::EdDSA, false),
      _ => (self.rng.pick(&["P-256", "secp256k1", "RSA", "oct"]).to_string(), *self.rng.pick(&OTHER_ALGS), false),
    };
    let r = call(self.store.generate(KeyType::new(kt.clone()), alg));
    match r {
      Err(p) => self.panic("generate", &p),
      Ok(Err(e)) => {
        self.log.push(format!("generate({:?},{}) -> Err({})", kt, alg, e));
        self.rep.inc("sh_generate_rejected");
        self.class("generate-invalid", "err", if must { "must" } else { "lat" });
        self.check_count("rejected");
      }
      Ok(Ok(out)) => {
        self.log.push(format!("generate({:?},{}) -> Ok id={}", kt, alg, out.key_id));
        if must {
          self.viol(
            "generate-accepts-incompatible",
            &format!("generate(key type {:?}, alg {}) succeeded: {}", kt, alg, serde_json::to_value(&out.jwk).unwrap_or(Value::Null)),
          );
        } else {
          self.rep.inc("sh_generate_latitude_accepted");
        }
        self.issued.insert(out.key_id.as_str().to_string());
        self.keys.push(KeyRec {
          id: out.key_id.as_str().to_string(),
          pk: [0; 32],
          pub_jwk: out.jwk.clone(),
          alive: true,
          signable: false,
          origin: "generated-unexpected",
        });
      }
    }
  }

  // ------------------------------------------------------------------ insert
  fn op_insert(&mut self) {
    // which key: a new one, or the re-import of a harness key whose earlier key id has been deleted since
    let dead_imports: Vec<usize> = (0..self.imported.len()).filter(|&i| !self.keys[self.imported[i].0].alive).collect();
    let reimport: Option<usize> = if !dead_imports.is_empty() && self.rng.chance(1, 4) { Some(*self.rng.pick(&dead_imports)) } else { None };
    let (x, d, pk, what): (String, String, [u8; 32], String) = match reimport {
      Some(i) => {
        let (k, x, d, _) = self.imported[i].clone();
        (x, d, self.keys[k].pk, format!("private Ed25519 of deleted key#{} again", k))
      }
      None => {
        let label = self.label_base + self.next();
        let (x, d, pk) = ed_parts(label);
        (x, d, pk, format!("private Ed25519 label {}", label))
      }
    };
    // the `kid` member is the caller's business: absent, the thumbprint, a value other inserted JWKs carry
    // as well, a key id the store handed out earlier (live or deleted), or some fixed text
    let (kid, kid_kind): (Option<String>, &'static str) = match (self.rng.below(12), reimport) {
      (0..=3, Some(i)) if self.imported[i].3.is_some() => (self.imported[i].3.clone(), "same-as-before"),
      (0 | 1, _) => (None, "none"),
      (2 | 3, _) => (Some(ed_thumbprint(&x)), "thumbprint"),
      (4 | 5, _) if !self.kid_pool.is_empty() => (Some(self.rng.pick(&self.kid_pool).clone()), "shared"),
      (6 | 7 | 8, _) if !self.keys.is_empty() => {
        let k = self.rng.usize(self.keys.len());
        (Some(self.keys[k].id.clone()), if self.keys[k].alive { "live-key-id" } else { "deleted-key-id" })
      }
      (9, _) => (Some(self.rng.pick(&["shared-kid", "", "non-existent-id", "key-1"]).to_string()), "fixed"),
      (10, _) => (None, "none"),
      _ => (Some(ed_thumbprint(&x)), "thumbprint"),
    };
    let mut jwk = okp("Ed25519", &x, Some(&d), Some("EdDSA"));
    if let Some(k) = &kid {
      jwk.set_kid(k.clone());
    }
    let kid_seen_before = match &kid {
      Some(k) => self.kid_pool.contains(k) || self.issued.contains(k),
      None => false,
    };
    let r = call(self.store.insert(jwk));
    match r {
      Err(p) => self.panic("insert", &p),
      Ok(Err(e)) => {
        self.log.push(format!("insert({}, alg EdDSA, kid {:?}) -> Err({})", what, kid, e));
        self.viol("insert-rejects-valid", &format!("insert of a fully private Ed25519 JWK with alg EdDSA (kid: {}) failed: {}", kid_kind, e));
      }
      Ok(Ok(id)) => {
        let id = id.as_str().to_string();
        self.log.push(format!("insert({}, alg EdDSA, kid {:?}) -> key#{} id={}", what, kid, self.keys.len(), id));
        self.rep.inc("sh_insert_ok");
        self.rep.inc("sh_oracle_checks");
        if kid_seen_before {
          self.rep.inc("sh_insert_ok_kid_seen_before");
        }
        if reimport.is_some() {
          self.rep.inc("sh_insert_ok_reimport_after_delete");
        }
        self.class("insert", "ok", kid_kind);
        let used: Vec<usize> = (0..self.keys.len()).filter(|&j| self.keys[j].id == id).collect();
        let used_before = self.issued.contains(&id);
        self.issued.insert(id.clone());
        if let Some(k) = &kid {
          if !self.kid_pool.contains(k) {
            self.kid_pool.push(k.clone());
          }
        }
        self.keys.push(KeyRec { id: id.clone(), pk, pub_jwk: okp("Ed25519", &x, None, Some("EdDSA")), alive: true, signable: true, origin: "inserted" });
        let i = self.keys.len() - 1;
        self.imported.push((i, x.clone(), d.clone(), kid.clone()));
        if used_before {
          // Two keys behind one key id: the id cannot keep signing for the first key and for the new one, and if the
          // first one was deleted, a deleted key id is back. Observe what the statement says about the OLDER holder.
          self.viol(
            "insert-returns-used-key-id",
            &format!("insert (kid: {}) returned key id {:?} which this store had already issued for another stored/deleted key", kid_kind, id),
          );
          for j in used {
            if !self.keys[j].alive {
              self.expect_exists(j, "after a later insert returned the same key id");
            } else if self.keys[j].signable && self.keys[j].pk != pk {
              let msg = self.message();
              let pkj = self.keys[j].pub_jwk.clone();
              match call(self.store.sign(&KeyId::new(id.clone()), &msg, &pkj)) {
                Err(p) => self.panic("sign", &p),
                Ok(Err(e)) => self.viol("sign-fails-on-stored-key", &format!("sign with stored key#{} failed after a later insert returned its key id: {}", j, e)),
                Ok(Ok(sig)) => self.judge_signature(j, &msg, &sig, "after a later insert returned the same key id"),
              }
            }
          }
          self.broken = true;
          return;
        }
        self.expect_exists(i, "after insert");
      }
    }
  }

  fn op_insert_invalid(&mut self) {
    let label = self.label_base + self.next();
    let (x, d, _) = ed_parts(label);
    // (jwk, description, signature-if-accepted or "" for latitude)
    let (jwk, what, sig): (Jwk, String, &'static str) = match self.rng.below(17) {
      0 | 1 => (okp("Ed25519", &x, None, Some("EdDSA")), "public-only Ed25519 JWK, alg EdDSA".into(), "insert-accepts-public-only"),
      2 => (okp("Ed25519", &x, Some(&d), None), "private Ed25519 JWK without alg".into(), "insert-accepts-missing-alg"),
      3 | 4 => {
        let a = *self.rng.pick(&OTHER_ALGS);
        (okp("Ed25519", &x, Some(&d), Some(a.name())), format!("private Ed25519 JWK with alg {}", a), "insert-accepts-incompatible-alg")
      }
      5 => {
        let a = *self.rng.pick(&["eddsa", "EdDsa", "", "EdDSA ", "Ed25519", "BBS-BLS12381-SHA256"]);
        (okp("Ed25519", &x, Some(&d), Some(a)), format!("private Ed25519 JWK with alg {:?}", a), "insert-accepts-incompatible-alg")
      }
      6 => {
        let (alg, crv, name) = if self.rng.bool() { (Alg::ES256, "P-256", "ES256") } else { (Alg::ES256K, "secp256k1", "ES256K") };
        let (ex, ey, ed_) = ec_parts(alg, label);
        let a = if self.rng.chance(1, 3) { "EdDSA" } else { name };
        (ec(crv, &ex, &ey, Some(&ed_), Some(a)), format!("private EC {} JWK with alg {}", crv, a), "insert-accepts-wrong-key-type")
      }
      7 => {
        let crv = *self.rng.pick(&["X25519", "Ed448", "X448", "ed25519", ""]);
        (okp(crv, &x, Some(&d), Some("EdDSA")), format!("private OKP JWK with crv {:?}, alg EdDSA", crv), "insert-accepts-wrong-key-type")
      }
      8 => {
        let mut j = Jwk::from_params(JwkParamsOct { k: d.clone() });
        j.set_alg(*self.rng.pick(&["EdDSA", "HS256"]));
        (j, "oct JWK".into(), "insert-accepts-wrong-key-type")
      }
      9 => {
        let mut p = JwkParamsRsa::new();
        p.n = x.clone();
        p.e = "AQAB".into();
        p.d = Some(d.clone());
        let mut j = Jwk::from_params(p);
        j.set_alg(*self.rng.pick(&["EdDSA", "RS256"]));
        (j, "RSA JWK (only d set)".into(), "insert-accepts-wrong-key-type")
      }
      10 | 14 | 15 | 16 => {
        // declared `kty` disagreeing with the family of the parameters the JWK carries. Every JWS algorithm belongs to
        // one key type, so whatever `alg` says it is incompatible with the declared type or with the key material.
        let via_mut = self.rng.bool();
        let (j, what): (Jwk, String) = match self.rng.below(6) {
          0 | 1 | 2 => {
            // a complete private Ed25519 parameter set under another declared type
            let k = *self.rng.pick(&[JwkType::Ec, JwkType::Rsa, JwkType::Oct]);
            let a = match (self.rng.below(4), k) {
              (0, JwkType::Ec) => "ES256",
              (0, JwkType::Rsa) => "RS256",
              (0, _) => "HS256",
              _ => "EdDSA",
            };
            (declared(k, okp_params("Ed25519", &x, Some(&d)), Some(a), via_mut), format!("private Ed25519 OKP params under declared kty {}, alg {}", family(k), a))
          }
          3 => {
            // declared OKP, EC key material
            let (alg, crv, name) = if self.rng.bool() { (Alg::ES256, "P-256", "ES256") } else { (Alg::ES256K, "secp256k1", "ES256K") };
            let (ex, ey, ed_) = ec_parts(alg, label);
            let mut p = JwkParamsEc::new();
            p.crv = if self.rng.chance(1, 3) { "BLS12381G2".to_string() } else { crv.to_string() };
            p.x = ex;
            p.y = ey;
            p.d = Some(ed_);
            let a = *self.rng.pick(&["EdDSA", name]);
            let what = format!("private EC {} params under declared kty OKP, alg {}", p.crv, a);
            (declared(JwkType::Okp, p, Some(a), via_mut), what)
          }
          4 => {
            let a = *self.rng.pick(&["EdDSA", "HS256"]);
            let k = *self.rng.pick(&[JwkType::Okp, JwkType::Ec]);
            (declared(k, JwkParamsOct { k: d.clone() }, Some(a), via_mut), format!("oct params under declared kty {}, alg {}", family(k), a))
          }
          _ => {
            let mut p = JwkParamsRsa::new();
            p.n = x.clone();
            p.e = "AQAB".into();
            p.d = Some(d.clone());
            let a = *self.rng.pick(&["EdDSA", "RS256"]);
            let k = *self.rng.pick(&[JwkType::Okp, JwkType::Ec]);
            (declared(k, p, Some(a), via_mut), format!("RSA params under declared kty {}, alg {}", family(k), a))
          }
        };
        self.rep.inc("sh_insert_kty_mismatch_cases");
        (j, what, "insert-accepts-kty-params-mismatch")
      }
      11 => {
        // BLS curve on an EC JWK: no JWS algorithm is compatible with it
        let a = *self.rng.pick(&["EdDSA", "ES256", "BBS-BLS12381-SHA256"]);
        (ec("BLS12381G2", &x, &x, Some(&d), Some(a)), format!("private EC BLS12381G2 JWK with alg {:?}", a), "insert-accepts-incompatible-alg")
      }
      12 => {
        // latitude: private member present but not a 32 byte base64url string
        let bad = self.rng.pick(&["", "AA", "!!!!", "AAAAAAAAAAAAAAAAAAAAAAAAAAAAAAAAAAAAAAAAAAAAAAAAAAAAAAAAAAAAAA"]).to_string();
        (okp("Ed25519", &x, Some(&bad), Some("EdDSA")), format!("Ed25519 JWK with malformed d {:?}", bad), "")
      }
      _ => {
        // latitude: x belongs to another key than d
        let (x2, _, _) = ed_parts(label + 500_000_000);
        (okp("Ed25519", &x2, Some(&d), Some("EdDSA")), "Ed25519 JWK whose x does not belong to d".into(), "")
      }
    };
    let r = call(self.store.insert(jwk.clone()));
    match r {
      Err(p) => self.panic("insert", &p),
      Ok(Err(e)) => {
        self.log.push(format!("insert({}) -> Err({})", what, e));
        self.rep.inc("sh_insert_rejected");
        if sig == "insert-accepts-kty-params-mismatch" {
          self.rep.inc("sh_insert_kty_mismatch_rejected");
        }
        self.class("insert-invalid", "err", if sig.is_empty() { "lat" } else { &sig[15..] });
        self.check_count("rejected");
      }
      Ok(Ok(id)) => {
        let id = id.as_str().to_string();
        self.log.push(format!("insert({}) -> Ok key#{} id={}", what, self.keys.len(), id));
        if sig.is_empty() {
          self.rep.inc("sh_insert_latitude_accepted");
          self.class("insert-invalid", "ok", "lat");
        } else {
          self.viol(sig, &format!("insert accepted {}: {}", what, serde_json::to_value(&jwk).unwrap_or(Value::Null)));
        }
        self.issued.insert(id.clone());
        self.keys.push(KeyRec { id, pk: [0; 32], pub_jwk: okp("Ed25519", &x, None, Some("EdDSA")), alive: true, signable: false, origin: "inserted-latitude" });
        let i = self.keys.len() - 1;
        self.expect_exists(i, "after insert");
      }
    }
  }

  // ------------------------------------------------------------------ sign
  fn message(&mut self) -> Vec<u8> {
    let n = self.next();
    let len = *self.rng.pick(&[0usize, 1, 7, 32, 64, 200, 1000]);
    if len == 0 && self.rng.chance(1, 4) {
      return Vec::new();
    }
    let mut m = format!("c15-msg-{}-{}-", self.label_base, n).into_bytes();
    let extra = self.rng.bytes(len);
    m.extend_from_slice(&extra);
    m
  }

  /// `sig` was returned by `sign` for key `k` over `msg`: must verify under k and under no other key.
  fn judge_signature(&mut self, k: usize, msg: &[u8], sig: &[u8], how: &str) {
    self.rep.inc("sh_oracle_checks");
    let own_direct = direct_verify(&self.keys[k].pk, msg, sig);
    let own_lib = if self.tiny && self.max_keys == 0 {
      own_direct // Miri racing round: one verification per signature is enough
    } else {
      match lib_verify(&self.keys[k].pub_jwk, msg, sig) {
        Ok(b) => b,
        Err(p) => {
          self.panic("eddsa-verify", &p);
          return;
        }
      }
    };
    self.rep.inc("sh_own_key_verifications");
    if !own_direct {
      self.viol(
        "sign-not-verifying-under-own-key",
        &format!("signature for key#{} ({}, {}) fails direct ed25519 verification under that key; sig len {}", k, self.keys[k].origin, how, sig.len()),
      );
    }
    if own_lib != own_direct {
      self.viol(
        "eddsa-verifier-disagrees-with-direct-ed25519",
        &format!("EdDSAJwsVerifier says {} but direct ed25519 says {} for key#{} ({})", own_lib, own_direct, k, how),
      );
    }
    // under no other key issued so far (live or deleted)
    let mut others: Vec<usize> = (0..self.keys.len()).filter(|&j| j != k && self.keys[j].signable && self.keys[j].pk != self.keys[k].pk).collect();
    if others.len() > self.max_cross {
      self.rng.shuffle(&mut others);
      others.truncate(self.max_cross);
    }
    for j in others {
      self.rep.inc("sh_cross_key_verifications");
      let d = direct_verify(&self.keys[j].pk, msg, sig);
      let l = if self.tiny {
        false
      } else {
        match lib_verify(&self.keys[j].pub_jwk, msg, sig) {
          Ok(b) => b,
          Err(p) => {
            self.panic("eddsa-verify", &p);
            false
          }
        }
      };
      if d || l {
        self.viol(
          "sign-verifies-under-other-key",
          &format!("signature made for key#{} verifies under key#{} (direct={}, EdDSAJwsVerifier={}; {})", k, j, d, l, how),
        );
      }
    }
  }

  fn op_sign_own(&mut self) {
    let Some(k) = self.pick_alive(true) else { return self.op_generate() };
    let msg = self.message();
    // the key's own public JWK, or a minimal harness-made one carrying kty/crv/x/alg only
    let minimal = self.rng.chance(1, 4);
    let pk_jwk = if minimal { okp("Ed25519", &url_encode(&self.keys[k].pk), None, Some("EdDSA")) } else { self.keys[k].pub_jwk.clone() };
    let kid = KeyId::new(self.keys[k].id.clone());
    let r = call(self.store.sign(&kid, &msg, &pk_jwk));
    let how = if minimal { "minimal own public JWK" } else { "own public JWK" };
    match r {
      Err(p) => self.panic("sign", &p),
      Ok(Err(e)) => {
        self.log.push(format!("sign(key#{}, {} bytes, {}) -> Err({})", k, msg.len(), how, e));
        self.viol("sign-fails-on-stored-key", &format!("sign with stored key#{} ({}) and {} failed: {}", k, self.keys[k].origin, how, e));
      }
      Ok(Ok(sig)) => {
        self.log.push(format!("sign(key#{}, {} bytes, {}) -> {} byte signature", k, msg.len(), how, sig.len()));
        self.rep.inc("sh_sign_ok");
        let origin = self.keys[k].origin;
        self.class("sign", "ok", origin);
        self.judge_signature(k, &msg, &sig, how);
      }
    }
  }

  /// sign on a stored key with a `public_key` argument that does not correspond to it, or that is
  /// unusable. Latitude: the store may refuse; if it signs, the signature belongs to the key id.
  fn op_sign_foreign_pk(&mut self) {
    let Some(k) = self.pick_alive(true) else { return self.op_generate() };
    let msg = self.message();
    let own_x = url_encode(&self.keys[k].pk);
    let others: Vec<usize> = (0..self.keys.len()).filter(|&j| j != k && self.keys[j].signable).collect();
    let (pk_jwk, how): (Jwk, String) = match self.rng.below(9) {
      0 | 1 | 2 if !others.is_empty() => {
        let j = *self.rng.pick(&others);
        (self.keys[j].pub_jwk.clone(), format!("public JWK of key#{} ({})", j, if self.keys[j].alive { "live" } else { "deleted" }))
      }
      3 => (okp("Ed25519", &own_x, None, None), "own public JWK without alg".into()),
      4 => {
        let a = *self.rng.pick(&OTHER_ALGS);
        (okp("Ed25519", &own_x, None, Some(a.name())), format!("own public JWK with alg {}", a))
      }
      5 => {
        let (ex, ey, _) = ec_parts(Alg::ES256, 77);
        (ec("P-256", &ex, &ey, None, Some(*self.rng.pick(&["EdDSA", "ES256"]))), "an EC P-256 public JWK".into())
      }
      6 => {
        let crv = *self.rng.pick(&["Ed448", "X25519", ""]);
        (okp(crv, &own_x, None, Some("EdDSA")), format!("own x under crv {:?}", crv))
      }
      7 => {
        let k = *self.rng.pick(&[JwkType::Ec, JwkType::Rsa, JwkType::Oct]);
        (declared(k, okp_params("Ed25519", &own_x, None), Some("EdDSA"), self.rng.bool()), format!("own-OKP-params-under-declared-kty-{}", family(k)))
      }
      _ => {
        let (x2, _, _) = ed_parts(self.label_base + 900_000_000 + self.ctr);
        (okp("Ed25519", &x2, None, Some("EdDSA")), "public JWK of a key that was never stored".into())
      }
    };
    let kid = KeyId::new(self.keys[k].id.clone());
    let r = call(self.store.sign(&kid, &msg, &pk_jwk));
    match r {
      Err(p) => self.panic("sign", &p),
      Ok(Err(e)) => {
        self.log.push(format!("sign(key#{}, {} bytes, {}) -> Err({})", k, msg.len(), how, e));
        self.rep.inc("sh_sign_foreign_pk_rejected");
        self.class("sign-foreign-pk", "err", how.split(' ').next().unwrap_or(""));
      }
      Ok(Ok(sig)) => {
        self.log.push(format!("sign(key#{}, {} bytes, {}) -> {} byte signature", k, msg.len(), how, sig.len()));
        self.rep.inc("sh_sign_foreign_pk_ok");
        self.class("sign-foreign-pk", "ok", how.split(' ').next().unwrap_or(""));
        self.judge_signature(k, &msg, &sig, &how);
      }
    }
  }

  fn op_sign_absent(&mut self) {
    let (id, kind) = self.absent_id();
    let msg = self.message();
    // any public key: a plausible one most of the time
    let pk_jwk = match self.keys.iter().find(|r| r.id == id) {
      Some(r) if self.rng.chance(3, 4) => r.pub_jwk.clone(),
      _ => {
        let (x2, _, _) = ed_parts(self.label_base + 800_000_000 + self.ctr);
        okp("Ed25519", &x2, None, if self.rng.chance(1, 8) { None } else { Some("EdDSA") })
      }
    };
    let r = call(self.store.sign(&KeyId::new(id.clone()), &msg, &pk_jwk));
    match r {
      Err(p) => self.panic("sign", &p),
      Ok(Err(e)) => {
        self.log.push(format!("sign({} id {:?}) -> Err({})", kind, id, e));
        self.rep.inc("sh_sign_absent_rejected");
        self.rep.inc("sh_oracle_checks");
        self.class("sign-absent", "err", kind);
      }
      Ok(Ok(sig)) => {
        self.log.push(format!("sign({} id {:?}) -> {} byte signature", kind, id, sig.len()));
        self.viol(
          if kind == "deleted" { "sign-on-deleted-key" } else { "sign-on-never-issued-key" },
          &format!("sign succeeded for {} key id {:?}", kind, id),
        );
      }
    }
  }

  // ------------------------------------------------------------------ exists / delete
  fn expect_exists(&mut self, k: usize, ctx: &str) {
    let want = self.keys[k].alive;
    let r = call(self.store.exists(&KeyId::new(self.keys[k].id.clone())));
    self.rep.inc("sh_exists_checks");
    self.rep.inc("sh_oracle_checks");
    match r {
      Err(p) => self.panic("exists", &p),
      Ok(Ok(b)) if b == want => {}
      Ok(Ok(b)) => {
        self.log.push(format!("exists(key#{}) -> {}", k, b));
        self.viol(
          if want { "exists-false-for-stored-key" } else { "exists-true-for-deleted-key" },
          &format!("exists(key#{} {}) = {} {}, model says {}", k, self.keys[k].origin, b, ctx, want),
        );
      }
      Ok(Err(e)) => {
        self.log.push(format!("exists(key#{}) -> Err({})", k, e));
        if want {
          self.viol("exists-error-for-stored-key", &format!("exists(key#{}) failed {}: {}", k, ctx, e));
        } else {
          self.rep.inc("sh_exists_err_on_absent");
        }
      }
    }
  }

  fn op_exists(&mut self) {
    if !self.keys.is_empty() && self.rng.chance(3, 5) {
      let k = self.rng.usize(self.keys.len());
      let alive = self.keys[k].alive;
      self.log.push(format!("exists(key#{}) expecting {}", k, alive));
      self.class("exists", if alive { "true" } else { "false" }, "issued");
      self.expect_exists(k, "");
    } else {
      let (id, kind) = self.absent_id();
      let r = call(self.store.exists(&KeyId::new(id.clone())));
      self.rep.inc("sh_exists_checks");
      self.rep.inc("sh_oracle_checks");
      match r {
        Err(p) => self.panic("exists", &p),
        Ok(Ok(false)) => {
          self.log.push(format!("exists({} id {:?}) -> false", kind, id));
          self.class("exists", "false", kind);
        }
        Ok(Ok(true)) => {
          self.log.push(format!("exists({} id {:?}) -> true", kind, id));
          self.viol(
            if kind == "deleted" { "exists-true-for-deleted-key" } else { "exists-true-for-never-issued-key" },
            &format!("exists({} key id {:?}) = true", kind, id),
          );
        }
        Ok(Err(_)) => self.rep.inc("sh_exists_err_on_absent"),
      }
    }
  }

  fn op_delete_alive(&mut self) {
    let Some(k) = self.pick_alive(false) else { return self.op_delete_absent() };
    let kid = KeyId::new(self.keys[k].id.clone());
    let r = call(self.store.delete(&kid));
    match r {
      Err(p) => self.panic("delete", &p),
      Ok(Err(e)) => {
        self.log.push(format!("delete(key#{}) -> Err({})", k, e));
        self.viol("delete-fails-on-stored-key", &format!("delete(key#{} {}) failed: {}", k, self.keys[k].origin, e));
      }
      Ok(Ok(())) => {
        self.log.push(format!("delete(key#{}) -> Ok", k));
        self.rep.inc("sh_delete_ok");
        let origin = self.keys[k].origin;
        self.class("delete", "ok", origin);
        self.keys[k].alive = false;
        // deleted: neither exists, signs nor deletes
        self.expect_exists(k, "after delete");
        if self.keys[k].signable {
          let msg = self.message();
          let pkj = self.keys[k].pub_jwk.clone();
          match call(self.store.sign(&kid, &msg, &pkj)) {
            Err(p) => self.panic("sign", &p),
            Ok(Err(_)) => {
              self.rep.inc("sh_sign_absent_rejected");
              self.rep.inc("sh_oracle_checks");
            }
            Ok(Ok(sig)) => {
              self.log.push(format!("sign(key#{} just deleted) -> {} byte signature", k, sig.len()));
              self.viol("sign-on-deleted-key", &format!("sign succeeded right after delete(key#{})", k));
            }
          }
        }
        if self.rng.chance(1, 3) {
          match call(self.store.delete(&kid)) {
            Err(p) => self.panic("delete", &p),
            Ok(Err(_)) => {
              self.rep.inc("sh_delete_absent_rejected");
              self.rep.inc("sh_oracle_checks");
            }
            Ok(Ok(())) => {
              self.log.push(format!("delete(key#{}) again -> Ok", k));
              self.viol("delete-on-absent-key", &format!("second delete(key#{}) succeeded", k));
            }
          }
        }
        self.check_count("after delete");
      }
    }
  }

  fn op_delete_absent(&mut self) {
    let (id, kind) = self.absent_id();
    let r = call(self.store.delete(&KeyId::new(id.clone())));
    match r {
      Err(p) => self.panic("delete", &p),
      Ok(Err(e)) => {
        self.log.push(format!("delete({} id {:?}) -> Err({})", kind, id, e));
        self.rep.inc("sh_delete_absent_rejected");
        self.rep.inc("sh_oracle_checks");
        self.class("delete-absent", "err", kind);
        self.check_count("rejected");
      }
      Ok(Ok(())) => {
        self.log.push(format!("delete({} id {:?}) -> Ok", kind, id));
        self.viol(
          "delete-on-absent-key",
          &format!("delete succeeded for {} key id {:?}", kind, id),
        );
      }
    }
  }

  // ------------------------------------------------------------------ key-id store
  fn pick_digest(&mut self) -> usize {
    // occasionally derive a digest from a real verification method over a generated key
    if self.digests.len() < 9 && self.rng.chance(1, 6) {
      if let Some(k) = self.pick_alive(true) {
        let jwk = self.keys[k].pub_jwk.clone();
        let frag = format!("frag-{}", self.rng.below(3));
        let did = CoreDID::parse("did:example:c15").expect("constant DID parses");
        let made = catch(|| VerificationMethod::new_from_jwk(did, jwk, Some(&frag)).map(|vm| (MethodDigest::new(&vm), MethodDigest::new(&vm))));
        match made {
          Err(p) => self.panic("method-digest", &p),
          Ok(Err(e)) => panic!("harness: cannot build verification method: {e}"),
          Ok(Ok((Ok(a), Ok(b)))) => {
            self.rep.inc("sh_method_digests_from_vm");
            self.rep.inc("sh_oracle_checks");
            if a != b {
              self.viol("method-digest-not-deterministic", "MethodDigest::new gave two different digests for one verification method");
            }
            match catch(|| MethodDigest::unpack(a.pack())) {
              Ok(Ok(back)) if back == a => {}
              Ok(_) => self.viol("method-digest-pack-roundtrip", &format!("unpack(pack(d)) != d for packed {:?}", a.pack())),
              Err(p) => self.panic("method-digest", &p),
            }
            if let Some(i) = self.digests.iter().position(|d| *d == a) {
              return i;
            }
            self.digests.push(a);
            return self.digests.len() - 1;
          }
          Ok(Ok((a, _))) => {
            self.viol("method-digest-fails", &format!("MethodDigest::new failed on a JWK method: {:?}", a.err().map(|e| e.to_string())));
          }
        }
      }
    }
    self.rng.usize(self.digests.len().min(6))
  }

  fn kid_value(&mut self) -> String {
    match self.rng.below(5) {
      0 | 1 if !self.keys.is_empty() => self.keys[self.rng.usize(self.keys.len())].id.clone(),
      2 => String::new(),
      _ => format!("value-{}", self.next()),
    }
  }

  fn expect_kid_get(&mut self, di: usize, ctx: &str, sig_lost: &str) {
    let key = self.digests[di].pack();
    let want = self.kid_model.get(&key).cloned();
    let r = call(self.store.get_key_id(&self.digests[di]));
    self.rep.inc("sh_oracle_checks");
    match (r, want) {
      (Err(p), _) => self.panic("get_key_id", &p),
      (Ok(Ok(v)), Some(w)) => {
        self.rep.inc("sh_kid_get_ok");
        if v.as_str() != w {
          self.log.push(format!("get_key_id(digest{}) -> {:?}", di, v.as_str()));
          self.viol(sig_lost, &format!("get_key_id(digest{}) = {:?} {}, the mapping in force is {:?}", di, v.as_str(), ctx, w));
        }
      }
      (Ok(Ok(v)), None) => {
        self.log.push(format!("get_key_id(digest{}) -> {:?}", di, v.as_str()));
        self.viol("keyid-get-on-absent-digest", &format!("get_key_id(digest{}) = {:?} {} but nothing is mapped", di, v.as_str(), ctx));
      }
      (Ok(Err(e)), Some(w)) => {
        self.log.push(format!("get_key_id(digest{}) -> Err({})", di, e));
        self.viol(sig_lost, &format!("get_key_id(digest{}) failed {} ({}), the mapping in force is {:?}", di, ctx, e, w));
      }
      (Ok(Err(_)), None) => self.rep.inc("sh_kid_get_absent_rejected"),
    }
  }

  fn op_kid_insert(&mut self) {
    let di = self.pick_digest();
    let key = self.digests[di].pack();
    let present = self.kid_model.get(&key).cloned();
    let value = match &present {
      Some(v) if self.rng.chance(1, 4) => v.clone(), // re-insert of the very same pair must fail too
      _ => self.kid_value(),
    };
    let r = call(self.store.insert_key_id(self.digests[di].clone(), KeyId::new(value.clone())));
    self.rep.inc("sh_oracle_checks");
    match (r, present) {
      (Err(p), _) => self.panic("insert_key_id", &p),
      (Ok(Ok(())), None) => {
        self.log.push(format!("insert_key_id(digest{}, {:?}) -> Ok", di, value));
        self.rep.inc("sh_kid_insert_ok");
        self.class("kid-insert", "ok", "free");
        self.kid_model.insert(key, value);
        self.expect_kid_get(di, "after insert", "keyid-get-wrong-value");
      }
      (Ok(Ok(())), Some(old)) => {
        self.log.push(format!("insert_key_id(digest{}, {:?}) -> Ok (already mapped to {:?})", di, value, old));
        self.viol("keyid-second-insert-accepted", &format!("second insert_key_id for digest{} succeeded (old {:?}, new {:?})", di, old, value));
        self.kid_model.insert(key, value);
      }
      (Ok(Err(e)), None) => {
        self.log.push(format!("insert_key_id(digest{}, {:?}) -> Err({})", di, value, e));
        self.viol("keyid-insert-fails-on-free-digest", &format!("insert_key_id on unmapped digest{} failed: {}", di, e));
      }
      (Ok(Err(e)), Some(_)) => {
        self.log.push(format!("insert_key_id(digest{}, {:?}) -> Err({})", di, value, e));
        self.rep.inc("sh_kid_insert_dup_rejected");
        self.class("kid-insert", "err", "taken");
        self.expect_kid_get(di, "after a rejected second insert", "keyid-first-mapping-lost");
      }
    }
  }

  fn op_kid_get(&mut self) {
    let di = self.pick_digest();
    let present = self.kid_model.contains_key(&self.digests[di].pack());
    self.log.push(format!("get_key_id(digest{}) expecting {}", di, if present { "a value" } else { "an error" }));
    self.class("kid-get", if present { "ok" } else { "err" }, "-");
    self.expect_kid_get(di, "", "keyid-get-wrong-value");
  }

  fn op_kid_delete(&mut self) {
    let di = self.pick_digest();
    let key = self.digests[di].pack();
    let present = self.kid_model.contains_key(&key);
    let r = call(self.store.delete_key_id(&self.digests[di]));
    self.rep.inc("sh_oracle_checks");
    match (r, present) {
      (Err(p), _) => self.panic("delete_key_id", &p),
      (Ok(Ok(())), true) => {
        self.log.push(format!("delete_key_id(digest{}) -> Ok", di));
        self.rep.inc("sh_kid_delete_ok");
        self.class("kid-delete", "ok", "-");
        self.kid_model.remove(&key);
        self.expect_kid_get(di, "after delete", "keyid-delete-not-removing");
      }
      (Ok(Ok(())), false) => {
        self.log.push(format!("delete_key_id(digest{}) -> Ok", di));
        self.viol("keyid-delete-on-absent-digest", &format!("delete_key_id(digest{}) succeeded but nothing was mapped", di));
      }
      (Ok(Err(e)), true) => {
        self.log.push(format!("delete_key_id(digest{}) -> Err({})", di, e));
        self.viol("keyid-delete-fails", &format!("delete_key_id(digest{}) failed on a mapped digest: {}", di, e));
      }
      (Ok(Err(_)), false) => {
        self.log.push(format!("delete_key_id(digest{}) -> Err", di));
        self.rep.inc("sh_kid_delete_absent_rejected");
        self.class("kid-delete", "err", "-");
      }
    }
  }

  // ------------------------------------------------------------------ driver
  fn step(&mut self) {
    self.rep.eval();
    self.rep.inc("sh_seq_ops");
    let full = self.keys.len() >= self.max_keys;
    let w = self.rng.below(100);
    match w {
      0..=9 if !full => self.op_generate(),
      10..=13 => self.op_generate_invalid(),
      14..=19 if !full => self.op_insert(),
      20..=27 => self.op_insert_invalid(),
      28..=43 => self.op_sign_own(),
      44..=51 => self.op_sign_foreign_pk(),
      52..=57 => self.op_sign_absent(),
      58..=64 => self.op_delete_alive(),
      65..=68 => self.op_delete_absent(),
      69..=76 => self.op_exists(),
      77..=86 => self.op_kid_insert(),
      87..=93 => self.op_kid_get(),
      94..=99 => self.op_kid_delete(),
      _ => self.op_sign_own(),
    }
  }

  /// End of history: the whole model is compared with the stores.
  fn sweep(&mut self) {
    self.log.push("final sweep".into());
    for k in 0..self.keys.len() {
      self.expect_exists(k, "in the final sweep");
      if !self.keys[k].signable || (self.tiny && self.keys[k].alive) {
        continue;
      }
      let msg = self.message();
      let kid = KeyId::new(self.keys[k].id.clone());
      let pkj = self.keys[k].pub_jwk.clone();
      match (call(self.store.sign(&kid, &msg, &pkj)), self.keys[k].alive) {
        (Err(p), _) => self.panic("sign", &p),
        (Ok(Ok(sig)), true) => {
          self.rep.inc("sh_sign_ok");
          self.judge_signature(k, &msg, &sig, "final sweep");
        }
        (Ok(Err(e)), true) => self.viol("sign-fails-on-stored-key", &format!("final sweep: sign with stored key#{} failed: {}", k, e)),
        (Ok(Ok(_)), false) => self.viol("sign-on-deleted-key", &format!("final sweep: sign succeeded for deleted key#{}", k)),
        (Ok(Err(_)), false) => {
          self.rep.inc("sh_sign_absent_rejected");
          self.rep.inc("sh_oracle_checks");
        }
      }
    }
    self.check_count("final sweep");
    for di in 0..self.digests.len() {
      self.expect_kid_get(di, "in the final sweep", "keyid-get-wrong-value");
    }
  }
}

fn run_history(rep: &mut Report, rng: Rng, hist_no: u64, ops: usize, light: bool, tiny: bool, args: &Args, dir: &PathBuf) {
  let (store, file) = new_store(dir);
  let mut digests: Vec<MethodDigest> = vec![0u64, 1, u64::MAX, 0x0100_0000_0000_0000, 0xDEAD_BEEF, 42].into_iter().map(digest_from_u64).collect();
  // pack/unpack agree with the harness's own byte layout
  for (d, v) in digests.iter().zip([0u64, 1, u64::MAX, 0x0100_0000_0000_0000, 0xDEAD_BEEF, 42]) {
    let mut want = vec![0u8];
    want.extend_from_slice(&v.to_le_bytes());
    if hist_no == 0 {
      match catch(|| d.pack()) {
        Ok(p) if p == want => {}
        Ok(p) => rep.sh_violation("method-digest-pack-roundtrip", &format!("pack(unpack({:?})) = {:?}", want, p), json!({"bytes":want})),
        Err(p) => rep.sh_violation(&format!("method-digest-panic@{}", p.file_only()), &p.msg, json!({"bytes":want})),
      }
    }
  }
  digests.truncate(6);
  let mut h = Hist {
    rep,
    rng,
    store,
    keys: Vec::new(),
    issued: BTreeSet::new(),
    kid_model: BTreeMap::new(),
    digests,
    log: Vec::new(),
    kinds: String::new(),
    ctr: 0,
    label_base: (args.shard + 1) * 1_000_000_000_000 + hist_no * 10_000_000_000,
    max_keys: if tiny { 3 } else if light { 4 } else { 12 },
    max_cross: if tiny { 0 } else if light { 2 } else { 64 },
    tiny,
    seed_info: json!({"seed":args.seed,"shard":args.shard,"nshards":args.nshards,"thorough":args.thorough,"history":hist_no}),
    kid_pool: Vec::new(),
    imported: Vec::new(),
    broken: false,
  };
  // every history starts with one key so that sign/delete have a target early on
  h.rep.eval();
  h.op_generate();
  for _ in 0..ops {
    if h.broken {
      break;
    }
    h.step();
  }
  if h.broken {
    h.rep.inc("sh_seq_histories_cut_short");
  } else {
    h.sweep();
  }
  let kinds = std::mem::take(&mut h.kinds);
  h.rep.distinct("sh_histories", &kinds);
  h.rep.inc("sh_seq_histories");
  drop(h);
  let _ = std::fs::remove_file(&file);
}

// ---------------------------------------------------------------------------------------------
// racing rounds
// ---------------------------------------------------------------------------------------------

/// All threads spin here until the last one has arrived (tighter release than a mutex barrier).
struct Gate {
  arrived: AtomicUsize,
  n: usize,
}
impl Gate {
  fn wait(&self) {
    self.arrived.fetch_add(1, Ordering::SeqCst);
    while self.arrived.load(Ordering::SeqCst) < self.n {
      std::hint::spin_loop();
      std::thread::yield_now();
    }
  }
}

#[derive(Clone, Copy, Debug, PartialEq, Eq)]
enum K {
  Insert,
  Get,
  Delete,
}

#[derive(Clone, Debug)]
struct Ev {
  thread: usize,
  kind: K,
  digest: usize,
  /// inserted value (Insert) — values are unique per round
  val: String,
  call: u64,
  ret: u64,
  ok: bool,
  /// value returned by a successful get
  got: Option<String>,
  panic: Option<PanicRec>,
}

fn ev_json(e: &Ev) -> Value {
  json!({"thread":e.thread,"op":format!("{:?}", e.kind),"digest":e.digest,"value":e.val,"call":e.call,"ret":e.ret,
         "ok":e.ok,"got":e.got})
}

fn do_op(store: &StrongholdStorage, digests: &[MethodDigest], clock: &AtomicU64, thread: usize, kind: K, digest: usize, val: String) -> Ev {
  let call_stamp = clock.fetch_add(1, Ordering::SeqCst);
  let (ok, got, panic) = match kind {
    K::Insert => match call(store.insert_key_id(digests[digest].clone(), KeyId::new(val.clone()))) {
      Ok(r) => (r.is_ok(), None, None),
      Err(p) => (false, None, Some(p)),
    },
    K::Get => match call(store.get_key_id(&digests[digest])) {
      Ok(Ok(v)) => (true, Some(v.as_str().to_string()), None),
      Ok(Err(_)) => (false, None, None),
      Err(p) => (false, None, Some(p)),
    },
    K::Delete => match call(store.delete_key_id(&digests[digest])) {
      Ok(r) => (r.is_ok(), None, None),
      Err(p) => (false, None, Some(p)),
    },
  };
  let ret = clock.fetch_add(1, Ordering::SeqCst);
  Ev { thread, kind, digest, val, call: call_stamp, ret, ok, got, panic }
}

/// Wing–Gong search for one digest: is there a total order consistent with real time in which
/// every result is what the sequential map gives? `None` = step budget exhausted.
fn linearizable(evs: &[&Ev], init: Option<String>, budget: &mut u64) -> Option<bool> {
  assert!(evs.len() <= 32);
  // values -> small ints; 0 = empty
  let mut names: Vec<&str> = Vec::new();
  let idx = |s: &str, names: &mut Vec<&str>| -> u32 { names.iter().position(|n| *n == s).map(|p| p as u32 + 1).unwrap_or(u32::MAX) };
  for e in evs {
    if e.kind == K::Insert {
      names.push(e.val.as_str());
    }
  }
  let init_s: String = init.clone().unwrap_or_default();
  if init.is_some() {
    names.push(init_s.as_str());
  }
  let start: u32 = if init.is_some() { idx(&init_s, &mut names) } else { 0 };
  let vals: Vec<u32> = evs.iter().map(|e| if e.kind == K::Insert { idx(&e.val, &mut names) } else { 0 }).collect();
  let gots: Vec<u32> = evs.iter().map(|e| e.got.as_deref().map(|g| idx(g, &mut names)).unwrap_or(0)).collect();
  let full: u32 = if evs.len() == 32 { u32::MAX } else { (1u32 << evs.len()) - 1 };
  let mut seen: BTreeSet<(u32, u32)> = BTreeSet::new();
  let mut stack: Vec<(u32, u32)> = vec![(0, start)];
  while let Some((mask, state)) = stack.pop() {
    if mask == full {
      return Some(true);
    }
    if !seen.insert((mask, state)) {
      continue;
    }
    if *budget == 0 {
      return None;
    }
    *budget -= 1;
    // an op may go next iff no other pending op returned before it was called
    let min_ret = (0..evs.len()).filter(|i| mask & (1 << i) == 0).map(|i| evs[i].ret).min().unwrap();
    for i in 0..evs.len() {
      if mask & (1 << i) != 0 || evs[i].call > min_ret {
        continue;
      }
      let e = evs[i];
      let next: Option<u32> = match e.kind {
        K::Insert => match (state == 0, e.ok) {
          (true, true) => Some(vals[i]),
          (false, false) => Some(state),
          _ => None,
        },
        K::Get => match (state != 0, e.ok) {
          (true, true) if gots[i] == state => Some(state),
          (false, false) => Some(state),
          _ => None,
        },
        K::Delete => match (state != 0, e.ok) {
          (true, true) => Some(0),
          (false, false) => Some(state),
          _ => None,
        },
      };
      if let Some(s) = next {
        stack.push((mask | (1 << i), s));
      }
    }
  }
  Some(false)
}

struct Races<'a> {
  rep: &'a mut Report,
  rng: Rng,
  args: &'a Args,
  tiny: bool,
  dir: PathBuf,
}

impl<'a> Races<'a> {
  fn report_panics(&mut self, evs: &[Ev], round: u64) -> bool {
    let mut any = false;
    for e in evs {
      if let Some(p) = &e.panic {
        any = true;
        if p.in_harness() {
          panic!("harness bug in racing round: {} at {}", p.msg, p.loc());
        }
        self.rep.sh_violation(
          &format!("keyid-race-panic@{}", p.file_only()),
          &format!("{:?} panicked in a racing round: {} at {}", e.kind, p.msg, p.loc()),
          json!({"round":round,"event":ev_json(e)}),
        );
      }
    }
    any
  }

  /// n threads insert distinct key ids under one digest, then read it back.
  fn round_single(&mut self, round: u64, n: usize, preset: bool) {
    self.rep.eval();
    let (store, file) = new_store(&self.dir);
    let store = Arc::new(store);
    let digests = Arc::new(vec![digest_from_u64(0xC15_0000 + round)]);
    if preset {
      block_on(store.insert_key_id(digests[0].clone(), KeyId::new("pre"))).expect("harness: preset insert on an empty store");
    }
    let clock = Arc::new(AtomicU64::new(0));
    let gate = Arc::new(Gate { arrived: AtomicUsize::new(0), n });
    let mut evs: Vec<Ev> = Vec::new();
    std::thread::scope(|s| {
      let hs: Vec<_> = (0..n)
        .map(|t| {
          let (store, digests, clock, gate) = (store.clone(), digests.clone(), clock.clone(), gate.clone());
          s.spawn(move || {
            gate.wait();
            let a = do_op(&store, &digests, &clock, t, K::Insert, 0, format!("r{}t{}", round, t));
            let b = do_op(&store, &digests, &clock, t, K::Get, 0, String::new());
            vec![a, b]
          })
        })
        .collect();
      for h in hs {
        evs.extend(h.join().expect("harness: racing thread died"));
      }
    });
    evs.push(do_op(&store, &digests, &clock, n, K::Get, 0, String::new()));
    let _ = std::fs::remove_file(&file);
    self.rep.inc("sh_race_rounds_single");
    self.rep.count("sh_race_ops", evs.len() as u64);
    if self.report_panics(&evs, round) {
      return;
    }
    let case = |evs: &[Ev]| json!({"round":round,"threads":n,"preset":preset,"events":evs.iter().map(ev_json).collect::<Vec<_>>()});
    let winners: Vec<&Ev> = evs.iter().filter(|e| e.kind == K::Insert && e.ok).collect();
    self.rep.inc("sh_oracle_checks");
    let expected: Option<String> = if preset {
      if !winners.is_empty() {
        self.rep.sh_violation(
          "race-first-mapping-lost",
          &format!("{} of {} racing insert_key_id calls succeeded on a digest that was already mapped", winners.len(), n),
          case(&evs),
        );
      }
      Some("pre".to_string())
    } else {
      match winners.len() {
        1 => Some(winners[0].val.clone()),
        0 => {
          self.rep.sh_violation("race-no-insert-winner", &format!("none of {} racing insert_key_id calls on a free digest succeeded", n), case(&evs));
          None
        }
        k => {
          self.rep.sh_violation(
            "race-multiple-insert-winners",
            &format!("{} of {} racing insert_key_id calls for ONE digest succeeded: {:?}", k, n, winners.iter().map(|w| w.val.as_str()).collect::<Vec<_>>()),
            case(&evs),
          );
          None
        }
      }
    };
    if let Some(w) = expected {
      self.rep.inc("sh_race_single_winner");
      let mut bad = 0;
      for e in evs.iter().filter(|e| e.kind == K::Get) {
        self.rep.inc("sh_race_gets_checked");
        if e.got.as_deref() != Some(w.as_str()) {
          bad += 1;
        }
      }
      if bad > 0 {
        self.rep.sh_violation(
          if preset { "race-first-mapping-lost" } else { "race-get-not-winner" },
          &format!("{} get_key_id calls made after an insert returned did not return the mapping in force {:?}", bad, w),
          case(&evs),
        );
      }
      if !preset {
        let wt = winners[0].thread;
        if wt != 0 {
          self.rep.inc("sh_race_winner_not_thread0");
        }
        // how many inserts overlapped the winner's in real time (evidence of real concurrency)
        let overl = evs.iter().filter(|e| e.kind == K::Insert && e.thread != wt && e.call < winners[0].ret && e.ret > winners[0].call).count();
        if overl > 0 {
          self.rep.inc("sh_race_overlapping_rounds");
        }
        self.rep.distinct("sh_schedules", &format!("single|n{}|w{}|o{}", n, wt, overl));
        self.rep.distinct("nontrivial", &format!("sh-race-single|n{}|w{}|ov{}", n, wt.min(4), overl.min(3)));
      } else {
        self.rep.distinct("nontrivial", &format!("sh-race-preset|n{}", n));
      }
    }
  }

  /// Random insert/get/delete scripts on two digests; checked for linearizability per digest.
  fn round_mixed(&mut self, round: u64, n: usize, ops_per_thread: usize) {
    self.rep.eval();
    let (store, file) = new_store(&self.dir);
    let store = Arc::new(store);
    let digests = Arc::new(vec![digest_from_u64(0xABC_0000 + round), digest_from_u64(0xDEF_0000 + round)]);
    let mut init: [Option<String>; 2] = [None, None];
    for (d, slot) in init.iter_mut().enumerate() {
      if self.rng.chance(1, 3) {
        block_on(store.insert_key_id(digests[d].clone(), KeyId::new(format!("init{}", d)))).expect("harness: preset insert");
        *slot = Some(format!("init{}", d));
      }
    }
    let scripts: Vec<Vec<(K, usize, String)>> = (0..n)
      .map(|t| {
        (0..ops_per_thread)
          .map(|o| {
            let kind = match self.rng.below(100) {
              0..=44 => K::Insert,
              45..=72 => K::Get,
              _ => K::Delete,
            };
            let digest = if self.rng.chance(3, 4) { 0 } else { 1 };
            (kind, digest, if kind == K::Insert { format!("r{}t{}o{}", round, t, o) } else { String::new() })
          })
          .collect()
      })
      .collect();
    let clock = Arc::new(AtomicU64::new(0));
    let gate = Arc::new(Gate { arrived: AtomicUsize::new(0), n });
    let mut evs: Vec<Ev> = Vec::new();
    std::thread::scope(|s| {
      let hs: Vec<_> = scripts
        .iter()
        .enumerate()
        .map(|(t, script)| {
          let (store, digests, clock, gate) = (store.clone(), digests.clone(), clock.clone(), gate.clone());
          s.spawn(move || {
            gate.wait();
            script.iter().map(|(k, d, v)| do_op(&store, &digests, &clock, t, *k, *d, v.clone())).collect::<Vec<Ev>>()
          })
        })
        .collect();
      for h in hs {
        evs.extend(h.join().expect("harness: racing thread died"));
      }
    });
    for d in 0..2 {
      evs.push(do_op(&store, &digests, &clock, n, K::Get, d, String::new()));
    }
    let _ = std::fs::remove_file(&file);
    self.rep.inc("sh_race_rounds_mixed");
    self.rep.count("sh_race_ops", evs.len() as u64);
    if self.report_panics(&evs, round) {
      return;
    }
    let mut pattern = format!("mixed|n{}|", n);
    for e in &evs {
      pattern.push(match (e.kind, e.ok) {
        (K::Insert, true) => 'I',
        (K::Insert, false) => 'i',
        (K::Get, true) => 'G',
        (K::Get, false) => 'g',
        (K::Delete, true) => 'D',
        (K::Delete, false) => 'd',
      });
    }
    self.rep.distinct("sh_schedules", &pattern);
    for d in 0..2 {
      let sub: Vec<&Ev> = evs.iter().filter(|e| e.digest == d).collect();
      let mut budget: u64 = 400_000;
      self.rep.inc("sh_oracle_checks");
      match linearizable(&sub, init[d].clone(), &mut budget) {
        Some(true) => {
          self.rep.inc("sh_lin_checked");
          let overlapping = sub.iter().any(|a| sub.iter().any(|b| a.thread != b.thread && a.call < b.ret && b.call < a.ret));
          if overlapping {
            self.rep.inc("sh_lin_checked_with_overlap");
          }
          let wins = sub.iter().filter(|e| e.kind == K::Insert && e.ok).count();
          let dels = sub.iter().filter(|e| e.kind == K::Delete && e.ok).count();
          self.rep.distinct("nontrivial", &format!("sh-race-mixed|n{}|len{}|wins{}|dels{}|ov{}", n, sub.len().min(12), wins.min(4), dels.min(3), overlapping));
        }
        Some(false) => {
          self.rep.sh_violation(
            "keyid-history-not-linearizable",
            &format!("concurrent history on one digest ({} ops, {} threads) has no sequential explanation by the map model", sub.len(), n),
            json!({"round":round,"digest":d,"initial":init[d],"events":sub.iter().map(|e| ev_json(e)).collect::<Vec<_>>(),
                   "run":{"seed":self.args.seed,"shard":self.args.shard,"nshards":self.args.nshards}}),
          );
        }
        None => self.rep.inc("sh_lin_timeout"),
      }
    }
  }

  /// n threads work on one StrongholdStorage (JwkStorage side): own key generate/sign/exists/delete, plus a shared key
  /// everybody signs with and thread 0 finally deletes.
  fn round_jwk(&mut self, round: u64, n: usize) {
    self.rep.eval();
    let (store, file) = new_store(&self.dir);
    let store = Arc::new(store);
    let shared = block_on(store.generate(ED25519_KEY_TYPE, JwsAlgorithm::EdDSA));
    let Ok(shared) = shared else {
      self.rep.sh_violation("generate-fails", "generate(Ed25519, EdDSA) failed on an empty store", json!({"round":round}));
      return;
    };
    let shared = Arc::new(shared);
    let gate = Arc::new(Gate { arrived: AtomicUsize::new(0), n });
    let tiny = self.tiny;
    struct Out {
      gen: Option<JwkGenOutput>,
      own_msg: Vec<u8>,
      own_sig: Option<Vec<u8>>,
      shared_msg: Vec<u8>,
      shared_sig: Option<Vec<u8>>,
      exists_before: Option<bool>,
      deleted: bool,
      exists_after: Option<bool>,
      shared_deleted: Option<bool>,
      panics: Vec<PanicRec>,
      errors: Vec<String>,
    }
    let mut outs: Vec<Out> = Vec::new();
    std::thread::scope(|s| {
      let hs: Vec<_> = (0..n)
        .map(|t| {
          let (store, shared, gate) = (store.clone(), shared.clone(), gate.clone());
          s.spawn(move || {
            let mut o = Out {
              gen: None,
              own_msg: format!("own-r{}t{}", round, t).into_bytes(),
              own_sig: None,
              shared_msg: format!("shared-r{}t{}", round, t).into_bytes(),
              shared_sig: None,
              exists_before: None,
              deleted: false,
              exists_after: None,
              shared_deleted: None,
              panics: Vec::new(),
              errors: Vec::new(),
            };
            gate.wait();
            match call(store.generate(ED25519_KEY_TYPE, JwsAlgorithm::EdDSA)) {
              Ok(Ok(g)) => o.gen = Some(g),
              Ok(Err(e)) => o.errors.push(format!("generate: {}", e)),
              Err(p) => o.panics.push(p),
            }
            match call(store.sign(&shared.key_id, &o.shared_msg, &shared.jwk)) {
              Ok(Ok(sig)) => o.shared_sig = Some(sig),
              Ok(Err(_)) => {} // allowed once thread 0 has deleted the shared key
              Err(p) => o.panics.push(p),
            }
            if let Some(g) = o.gen.clone() {
              if !tiny {
                match call(store.sign(&g.key_id, &o.own_msg, &g.jwk)) {
                  Ok(Ok(sig)) => o.own_sig = Some(sig),
                  Ok(Err(e)) => o.errors.push(format!("sign own: {}", e)),
                  Err(p) => o.panics.push(p),
                }
              }
              match call(store.exists(&g.key_id)) {
                Ok(Ok(b)) => o.exists_before = Some(b),
                Ok(Err(e)) => o.errors.push(format!("exists: {}", e)),
                Err(p) => o.panics.push(p),
              }
              match call(store.delete(&g.key_id)) {
                Ok(Ok(())) => o.deleted = true,
                Ok(Err(e)) => o.errors.push(format!("delete own: {}", e)),
                Err(p) => o.panics.push(p),
              }
              match call(store.exists(&g.key_id)) {
                Ok(Ok(b)) => o.exists_after = Some(b),
                Ok(Err(_)) => {}
                Err(p) => o.panics.push(p),
              }
            }
            if t == 0 {
              match call(store.delete(&shared.key_id)) {
                Ok(r) => o.shared_deleted = Some(r.is_ok()),
                Err(p) => o.panics.push(p),
              }
            }
            o
          })
        })
        .collect();
      for h in hs {
        outs.push(h.join().expect("harness: racing thread died"));
      }
    });
    self.rep.inc("sh_race_rounds_jwk");
    let case = json!({"round":round,"threads":n,"run":{"seed":self.args.seed,"shard":self.args.shard}});
    // judge on the main thread
    let mut h = Hist {
      rep: &mut *self.rep,
      rng: self.rng.fork(),
      store: (*store).clone(),
      keys: Vec::new(),
      issued: BTreeSet::new(),
      kid_model: BTreeMap::new(),
      digests: Vec::new(),
      log: vec![format!("concurrent StrongholdStorage JWK round {} with {} threads", round, n)],
      kinds: String::new(),
      ctr: 0,
      label_base: 0,
      max_keys: 0,
      max_cross: if self.tiny { 0 } else { 64 },
      tiny: self.tiny,
      seed_info: case.clone(),
      kid_pool: Vec::new(),
      imported: Vec::new(),
      broken: false,
    };
    let Some(shared_rec) = h.judge_generated(&shared, "EdDSA") else { return };
    h.issued.insert(shared_rec.id.clone());
    h.keys.push(shared_rec);
    for (t, o) in outs.iter().enumerate() {
      for p in &o.panics {
        h.panic("jwk-race", p);
      }
      for e in &o.errors {
        h.viol("jwk-race-call-fails", &format!("thread {}: a call on its own freshly generated key failed: {}", t, e));
      }
      if let Some(g) = &o.gen {
        if let Some(rec) = h.judge_generated(g, "EdDSA") {
          h.issued.insert(rec.id.clone());
          h.keys.push(rec);
        }
      }
    }
    // keys: [shared, thread keys...]; judge signatures against all of them
    for (t, o) in outs.iter().enumerate() {
      if let Some(sig) = &o.shared_sig {
        h.rep.inc("sh_race_shared_sign_ok");
        if !tiny || t == 0 {
          h.judge_signature(0, &o.shared_msg, sig, "shared key in a racing round");
        }
      }
      if let (Some(sig), Some(g)) = (&o.own_sig, &o.gen) {
        if let Some(k) = h.keys.iter().position(|r| r.id == g.key_id.as_str()) {
          h.rep.inc("sh_race_own_sign_ok");
          h.judge_signature(k, &o.own_msg, sig, "own key in a racing round");
        }
      }
      if o.gen.is_some() {
        h.rep.inc("sh_oracle_checks");
        if o.exists_before == Some(false) {
          h.viol("exists-false-for-stored-key", &format!("thread {}: exists(own key) = false before deleting it, other threads were active", t));
        }
        if o.deleted && o.exists_after == Some(true) {
          h.viol("exists-true-for-deleted-key", &format!("thread {}: exists(own key) = true after its delete returned Ok", t));
        }
      }
    }
    if outs[0].shared_deleted == Some(false) {
      h.viol("delete-fails-on-stored-key", "the only delete of the shared key failed");
    }
    match call(store.exists(&shared.key_id)) {
      Ok(Ok(true)) if outs[0].shared_deleted == Some(true) => h.viol("exists-true-for-deleted-key", "shared key still exists after its delete returned Ok"),
      Err(p) => h.panic("exists", &p),
      _ => {}
    }
    let _ = std::fs::remove_file(&file);
    let signed_shared = outs.iter().filter(|o| o.shared_sig.is_some()).count();
    self.rep.distinct("nontrivial", &format!("sh-race-jwk|n{}|shared{}", n, signed_shared));
    self.rep.distinct("sh_schedules", &format!("jwk|n{}|shared{}", n, signed_shared));
  }
}

// ---------------------------------------------------------------------------------------------

fn main() {
  let args = Args::parse();
  let scale = args.extra_u64("scale", 1000);
  let light = scale < 100;
  let tiny = false;
  // --parts bitmask: 1 sequential histories, 2 single-digest races, 4 mixed races, 8 JWK-store races
  let parts = args.extra_u64("parts", 15);
  let mut rep = Report::new("C15");
  rep.rule(
    "Stronghold stage: cases = operations of seeded random sequential histories on one StrongholdStorage (JwkStorage + \
     KeyIdStorage, valid and invalid arguments) judged by the harness's map model, own RFC 7638 thumbprint and ed25519 \
     verification under own and every other key; racing rounds: n threads insert under one digest / random scripts on two \
     digests (linearizability per digest) / shared JWK store. non-trivial classes are prefixed sh-",
  );
  iota_stronghold::engine::snapshot::try_set_encrypt_work_factor(0).expect("harness: work factor");
  let dir = snap_dir(&args);
  std::fs::create_dir_all(&dir).expect("harness: snapshot directory");

  // sizes are PER SHARD (Stronghold persists the snapshot on every mutating call)
  let per = |quick: u64, thorough: u64, floor: u64| -> u64 { ((if args.thorough { thorough } else { quick }) * scale / 1000).max(floor) };
  let n_hist = if parts & 1 == 0 { 0 } else { per(3, 16, 1) };
  let ops = if light { 14 } else { 40 };
  let mut rng = args.rng(1515);
  for hno in 0..n_hist {
    let r = rng.fork();
    run_history(&mut rep, r, hno, ops, light, tiny, &args, &dir);
    rep.progress(hno);
  }

  let mut races = Races { rep: &mut rep, rng: args.rng(151500), args: &args, tiny, dir: dir.clone() };
  let thread_counts: &[usize] = if light { &[2, 4] } else { &[2, 4, 8, 16] };
  let n_single = if parts & 2 == 0 { 0 } else { per(8, 48, 2) };
  for r in 0..n_single {
    let n = thread_counts[(r % thread_counts.len() as u64) as usize];
    let preset = r % 5 == 4;
    races.round_single(args.shard * 1_000_000 + r, n, preset);
  }
  let n_mixed = if parts & 4 == 0 { 0 } else { per(4, 16, 1) };
  for r in 0..n_mixed {
    let n = if light { 2 + (r % 2) as usize } else { 2 + (r % 3) as usize };
    let per_thread = if light { 2 + (r % 2) as usize } else { 3 + (r % 2) as usize };
    races.round_mixed(args.shard * 1_000_000 + r, n, per_thread);
  }
  let n_jwk = if parts & 8 == 0 { 0 } else { per(1, 6, 1) };
  for r in 0..n_jwk {
    let n = if light { 2 } else { [2usize, 4, 8][(r % 3) as usize] };
    races.round_jwk(args.shard * 1_000_000 + r, n);
  }
  rep.note("sh_workload", json!({"histories_per_shard":n_hist,"ops_per_history":ops,"single_rounds":n_single,"mixed_rounds":n_mixed,"jwk_rounds":n_jwk,"scale":scale,"parts":parts}));
  let _ = std::fs::remove_dir_all(&dir);
  rep.finish();
}
