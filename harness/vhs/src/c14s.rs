//! C14 (alias-output stage) — the pack/unpack round trip of C14 driven through the ledger-facing entry
//! point `IotaDocument::unpack_from_output` (needs the `client` feature of identity_iota_core and so
//! iota-sdk; kept out of `vh`, which stays Miri-able).
//!
//! case = one generated IOTA document packed with `IotaDocument::pack`, wrapped by the harness into an
//! `AliasOutput` whose state controller / governor are Ed25519 or alias addresses, and unpacked for
//! the same DID or for another DID. Oracle (from the statement): the document that comes back equals
//! the packed one, ledger address fields excepted; when the state controller is an alias address the
//! library documents that it adds that alias' DID to the controllers, so there the controller set
//! must be the original set plus at most that DID (nothing dropped, foreign DIDs untouched) and
//! everything else equal. The expected JSON is rendered by the harness from its own model, never
//! taken from the library.
use identity_core::convert::{FromJson, ToJson};
use identity_iota_core::block::address::{Address, AliasAddress, Ed25519Address};
use identity_iota_core::block::output::unlock_condition::{GovernorAddressUnlockCondition, StateControllerAddressUnlockCondition};
use identity_iota_core::block::output::{AliasId, AliasOutput, AliasOutputBuilder, UnlockCondition};
use identity_iota_core::{IotaDID, IotaDocument};
use serde_json::{json, Map, Value};
use vh::panicmon::catch;
use vh::{Args, Report, Rng};

fn hex(b: &[u8]) -> String {
  b.iter().map(|x| format!("{:02x}", x)).collect()
}

fn did_str(net: &str, tag: &[u8]) -> String {
  if net == "iota" {
    format!("did:iota:0x{}", hex(tag))
  } else {
    format!("did:iota:{}:0x{}", net, hex(tag))
  }
}

const NETS: [&str; 5] = ["iota", "smr", "rms", "atoi", "tst"];

struct Model {
  me: String,
  net: String,
  tag: Vec<u8>,
  controllers: Vec<String>,
  doc: Value,  // {"doc": …, "meta": …} as written by the harness, ids spelled with `me`
}

fn jwk(rng: &mut Rng) -> Value {
  json!({"kty":"OKP","crv":"Ed25519","x": vh::b64::url_encode(&rng.bytes(32))})
}

fn gen_model(rng: &mut Rng) -> Model {
  let net = rng.pick(&NETS).to_string();
  let tag = rng.bytes(32);
  let me = did_str(&net, &tag);
  let foreign_iota: Vec<String> = (0..3).map(|_| { let n = *rng.pick(&NETS); let t = rng.bytes(32); did_str(n, &t) }).collect();
  let foreign_other = ["did:example:abc", "did:web:example.com", "did:key:z6MkpTHR8VNsBxYAAWHut2Geadd9jSwuBV8xRoAnwWsdvktH"];
  let mut doc = Map::new();
  doc.insert("id".into(), json!(me));
  let mut controllers: Vec<String> = Vec::new();
  for _ in 0..rng.usize(4) {
    let c = if rng.chance(1, 3) { me.clone() } else { rng.pick(&foreign_iota).clone() };
    if !controllers.contains(&c) {
      controllers.push(c);
    }
  }
  match controllers.len() {
    0 => {}
    1 => {
      doc.insert("controller".into(), json!(controllers[0]));
    }
    _ => {
      doc.insert("controller".into(), json!(controllers));
    }
  }
  if rng.chance(1, 3) {
    doc.insert("alsoKnownAs".into(), json!(["https://example.com/me"]));
  }
  let mut vms = Vec::new();
  for i in 0..rng.usize(4) {
    let owner = if rng.chance(1, 4) { rng.pick(&foreign_iota).clone() } else { me.clone() };
    let ctrl = if rng.chance(1, 4) { rng.pick(&foreign_other).to_string() } else { owner.clone() };
    vms.push(json!({"id": format!("{}#key-{}", owner, i), "controller": ctrl, "type": "JsonWebKey", "publicKeyJwk": jwk(rng)}));
  }
  if !vms.is_empty() {
    doc.insert("verificationMethod".into(), json!(vms));
  }
  for rel in ["authentication", "assertionMethod", "keyAgreement", "capabilityDelegation", "capabilityInvocation"] {
    let mut v = Vec::new();
    if rng.chance(1, 3) {
      v.push(json!({"id": format!("{}#{}-emb", me, rel), "controller": me, "type": "JsonWebKey", "publicKeyJwk": jwk(rng)}));
    }
    if !vms.is_empty() && rng.chance(1, 3) {
      v.push(vms[rng.usize(vms.len())]["id"].clone());
    }
    if rng.chance(1, 6) {
      v.push(json!(format!("{}#elsewhere", rng.pick(&foreign_other))));
    }
    if !v.is_empty() {
      doc.insert(rel.into(), json!(v));
    }
  }
  if rng.chance(1, 2) {
    let owner = if rng.chance(1, 4) { foreign_iota[0].clone() } else { me.clone() };
    doc.insert("service".into(), json!([{"id": format!("{}#svc", owner), "type": "LinkedDomains", "serviceEndpoint": "https://example.com/"}]));
  }
  if rng.chance(1, 3) {
    doc.insert("customProperty".into(), json!({"n": rng.below(100), "s": "text"}));
  }
  let mut meta = Map::new();
  if rng.chance(3, 4) {
    meta.insert("created".into(), json!("2022-01-02T03:04:05Z"));
  }
  if rng.chance(3, 4) {
    meta.insert("updated".into(), json!("2023-05-06T07:08:09Z"));
  }
  if rng.chance(1, 6) {
    meta.insert("deactivated".into(), json!(rng.bool()));
  }
  if rng.chance(1, 4) {
    meta.insert("customMeta".into(), json!([1, 2, 3]));
  }
  Model { me, net, tag, controllers, doc: json!({"doc": Value::Object(doc), "meta": Value::Object(meta)}) }
}

/// The model document with every occurrence of the self DID replaced by `target` (ids are plain strings here).
fn retarget(v: &Value, me: &str, target: &str) -> Value {
  match v {
    Value::String(s) => {
      if s == me {
        json!(target)
      } else if let Some(rest) = s.strip_prefix(me) {
        if rest.starts_with('#') || rest.starts_with('/') || rest.starts_with('?') {
          json!(format!("{}{}", target, rest))
        } else {
          v.clone()
        }
      } else {
        v.clone()
      }
    }
    Value::Array(a) => Value::Array(a.iter().map(|x| retarget(x, me, target)).collect()),
    Value::Object(o) => Value::Object(o.iter().map(|(k, x)| (k.clone(), retarget(x, me, target))).collect()),
    _ => v.clone(),
  }
}

fn controllers_of(v: &Value) -> Vec<String> {
  match v["doc"].get("controller") {
    None => vec![],
    Some(Value::String(s)) => vec![s.clone()],
    Some(Value::Array(a)) => a.iter().filter_map(|x| x.as_str().map(String::from)).collect(),
    _ => vec!["<non-string controller>".into()],
  }
}

fn without_ledger_fields(v: &Value) -> Value {
  let mut v = v.clone();
  if let Some(m) = v.get_mut("meta").and_then(|m| m.as_object_mut()) {
    m.remove("governorAddress");
    m.remove("stateControllerAddress");
  }
  if let Some(d) = v.get_mut("doc").and_then(|m| m.as_object_mut()) {
    d.remove("controller");
  }
  v
}

fn main() {
  let args = Args::parse();
  let scale = args.extra_u64("scale", 1000);
  let mut rep = Report::new("C14");
  rep.rule(
    "alias-output stage: case = generated IOTA document (self/foreign methods in every scope, references, services, 0-3 \
     controllers, alsoKnownAs, custom properties, metadata) packed with IotaDocument::pack, wrapped into an AliasOutput with \
     Ed25519 or alias state-controller/governor addresses and read back with IotaDocument::unpack_from_output for the same or \
     another DID; expected document rendered by the harness model. distinct = (state controller kind, governor kind, #controllers, \
     same/other DID, alias controller already listed)",
  );
  let n = ((if args.thorough { 400_000u64 } else { 1_600 }) * scale / 1000 / args.nshards.max(1)).max(8);
  let mut rng = args.rng(1414);
  for i in 0..n {
    rep.eval();
    let m = gen_model(&mut rng);
    let text = m.doc.to_string();
    let case0 = json!({"document": m.doc, "self": m.me});
    let doc = match catch(|| IotaDocument::from_json(&text)) {
      Ok(Ok(d)) => d,
      Ok(Err(e)) => {
        rep.inc("model_document_rejected");
        let _ = e;
        continue;
      }
      Err(p) => {
        rep.violation(&format!("alias-output:from_json-panic@{}", p.file_only()), &p.msg, case0);
        continue;
      }
    };
    let packed = match catch(|| doc.clone().pack()) {
      Ok(Ok(b)) => b,
      Ok(Err(_)) => {
        rep.inc("pack_refused");
        continue;
      }
      Err(p) => {
        rep.violation(&format!("alias-output:pack-panic@{}", p.file_only()), &p.msg, case0);
        continue;
      }
    };
    // target DID first (the alias DID the library derives lives on the target's network)
    let same = rng.chance(2, 3);
    let (target_net, target_tag) = if same { (m.net.clone(), m.tag.clone()) } else { (rng.pick(&NETS).to_string(), rng.bytes(32)) };
    let target = did_str(&target_net, &target_tag);
    let target_did = IotaDID::parse(&target).expect("harness DID");
    // addresses: 0 ed25519, 1 alias (new DID), 2 alias of a controller the document already lists (when there is one on that network)
    let sc_kind = rng.below(3);
    let mut listed = false;
    let fresh_alias = Address::Alias(AliasAddress::new(AliasId::new(rng.bytes(32).try_into().unwrap())));
    let sc_addr: Address = match sc_kind {
      0 => Address::Ed25519(Ed25519Address::new(rng.bytes(32).try_into().unwrap())),
      1 => fresh_alias,
      _ => {
        let cand = m.controllers.iter().filter(|c| **c != m.me).find_map(|c| {
          let hexpart = &c[c.len() - 64..];
          let t: Vec<u8> = (0..32).map(|k| u8::from_str_radix(&hexpart[2 * k..2 * k + 2], 16).unwrap()).collect();
          if did_str(&target_net, &t) == *c { Some(t) } else { None }
        });
        match cand {
          Some(t) => {
            listed = true;
            Address::Alias(AliasAddress::new(AliasId::new(t.try_into().unwrap())))
          }
          None => fresh_alias,
        }
      }
    };
    let gov_addr: Address = if rng.bool() { Address::Ed25519(Ed25519Address::new(rng.bytes(32).try_into().unwrap())) } else { sc_addr };
    let out: AliasOutput = AliasOutputBuilder::new_with_amount(1, AliasId::new(target_tag.clone().try_into().unwrap()))
      .with_state_metadata(packed)
      .add_unlock_condition(UnlockCondition::StateControllerAddress(StateControllerAddressUnlockCondition::new(sc_addr)))
      .add_unlock_condition(UnlockCondition::GovernorAddress(GovernorAddressUnlockCondition::new(gov_addr)))
      .finish()
      .expect("harness alias output");
    let sc_is_alias = matches!(sc_addr, Address::Alias(_));
    let case = json!({"document": m.doc, "self": m.me, "unpacked_for": target, "state_controller": if sc_is_alias { "alias address" } else { "ed25519 address" },
      "alias_already_a_controller": listed, "governor": if matches!(gov_addr, Address::Alias(_)) { "alias address" } else { "ed25519 address" }});
    rep.distinct("nontrivial", &format!("alias-output|sc{}|gov{}|c{}|same{}|listed{}", sc_is_alias, matches!(gov_addr, Address::Alias(_)), m.controllers.len(), same, listed));
    let got = match catch(|| IotaDocument::unpack_from_output(&target_did, &out, rng_free_bool(i))) {
      Err(p) => {
        rep.violation(&format!("alias-output:unpack-panic@{}", p.file_only()), &format!("{} at {}", p.msg, p.loc()), case);
        continue;
      }
      Ok(Err(e)) => {
        rep.violation("alias-output:own-pack-rejected", &format!("unpack_from_output refused what pack produced: {}", e), case);
        continue;
      }
      Ok(Ok(d)) => d,
    };
    rep.inc("alias_output_unpacked");
    rep.inc(if same { "alias_output_same_did" } else { "alias_output_other_did" });
    let got_json: Value = serde_json::from_str(&got.to_json().expect("document serialises")).expect("json");
    let want = retarget(&m.doc, &m.me, &target);
    // normal form of the expectation through the library's own (de)serialiser is NOT used: compare as JSON trees with
    // the fields that legitimately differ removed
    let (g, w) = (without_ledger_fields(&got_json), without_ledger_fields(&want));
    if g != w {
      rep.violation("alias-output:document-differs", "document unpacked from the alias output differs from the packed one beyond ledger fields and controller", json!({"case": case, "got": got_json, "want": want}));
      continue;
    }
    // controllers
    let want_c: Vec<String> = controllers_of(&want);
    let got_c: Vec<String> = controllers_of(&got_json);
    let alias_did = match sc_addr {
      Address::Alias(a) => Some(did_str(&target_net, &a.alias_id()[..])),
      _ => None,
    };
    let missing: Vec<&String> = want_c.iter().filter(|c| !got_c.contains(c)).collect();
    let extra: Vec<&String> = got_c.iter().filter(|c| !want_c.contains(c) && Some(*c) != alias_did.as_ref()).collect();
    if !missing.is_empty() {
      rep.violation("alias-output:controllers-dropped", &format!("controllers {:?} of the packed document are missing after unpack_from_output (got {:?})", missing, got_c), case.clone());
    }
    if !extra.is_empty() {
      rep.violation("alias-output:controllers-invented", &format!("controllers {:?} appeared that are neither in the packed document nor the state controller's alias", extra, ), case.clone());
    }
    if alias_did.is_none() && got_c != want_c {
      rep.violation("alias-output:controllers-differ", &format!("controllers {:?} != packed {:?} with an Ed25519 state controller", got_c, want_c), case.clone());
    }
    if !want_c.is_empty() {
      rep.inc("alias_output_with_controllers");
      if alias_did.is_none() {
        rep.inc("alias_output_with_controllers_ed25519_state_controller");
      }
    }
    // ledger fields are filled in
    let meta = &got_json["meta"];
    if !meta["governorAddress"].is_string() || !meta["stateControllerAddress"].is_string() {
      rep.violation("alias-output:ledger-fields-missing", "governorAddress/stateControllerAddress not set by unpack_from_output", case.clone());
    }
    if rep.want_sample() {
      rep.sample(json!({"unpacked_for": target, "controllers_packed": want_c, "controllers_unpacked": got_c, "state_controller_alias": alias_did}));
    }
  }
  rep.finish();
}

fn rng_free_bool(i: u64) -> bool {
  i % 2 == 0
}
