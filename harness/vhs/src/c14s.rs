//! C14 (alias-output stage) — the pack/unpack round trip of C14 driven through the ledger-facing entry
//! point `IotaDocument::unpack_from_output` (needs the `client` feature of identity_iota_core and so
//! iota-sdk; kept out of `vh`, which stays Miri-able).
//!
//! case = one generated IOTA document packed with `IotaDocument::pack`, wrapped by the harness into an
//! `AliasOutput` whose state controller / governor are Ed25519 or alias addresses, and unpacked for
//! the same DID or for another DID (other network and tag, same tag on another network, same network with another
//! tag). The alias id the output itself carries is varied independently of the DID passed in: that DID's tag, an
//! unrelated tag, the tag the document was packed with (or of one of its controllers), a tag one bit away from the
//! passed DID's, or the null alias id; the expectation is always the model rendered for the DID that was PASSED to
//! `unpack_from_output`. Oracle (from the statement): the document that comes back equals
//! the packed one, ledger address fields excepted; when the state controller is an alias address the
//! library documents that it adds that alias' DID to the controllers, so there the controller set
//! must be the original set plus at most that DID (nothing dropped, foreign DIDs untouched) and
//! everything else equal. The expected JSON is rendered by the harness from its own model, never
//! taken from the library.
//!
//! Block level (`IotaDocument::unpack_from_block`): case = one block with a transaction payload of 1-5 outputs built by
//! the harness (alias outputs with packed documents for the same or another DID / network, with a set or a null alias id,
//! with or without trailing bytes; alias outputs with empty state metadata; basic outputs) in which zero, one or two alias
//! outputs carry state metadata that the statement says is rejected (wrong marker / version / encoding byte, length
//! prefix exceeding the data, truncated frame, bytes of another application without the marker). Oracle (from the
//! statement): a block offering such a byte string is not unpacked successfully (skipping it is ignoring, not rejecting);
//! a block of well-formed outputs yields, for every packed document, a document for (network, alias id) equal to the
//! harness model (same judgement as above). Position of a document in the returned list, and what an empty state
//! metadata yields, are left to the library.
use identity_core::convert::{FromJson, ToJson};
use identity_iota_core::block::address::{Address, AliasAddress, Ed25519Address};
use identity_iota_core::block::input::{Input, UtxoInput};
use identity_iota_core::block::output::unlock_condition::{AddressUnlockCondition, GovernorAddressUnlockCondition, StateControllerAddressUnlockCondition};
use identity_iota_core::block::output::{AliasId, AliasOutput, AliasOutputBuilder, BasicOutputBuilder, InputsCommitment, Output, OutputId, UnlockCondition};
use identity_iota_core::block::parent::Parents;
use identity_iota_core::block::payload::transaction::{RegularTransactionEssence, TransactionEssence, TransactionId};
use identity_iota_core::block::payload::{Payload, TransactionPayload};
use identity_iota_core::block::signature::{Ed25519Signature, Signature};
use identity_iota_core::block::unlock::{SignatureUnlock, Unlock, Unlocks};
use identity_iota_core::block::{Block, BlockId};
use identity_iota_core::{IotaDID, IotaDocument, NetworkName};
use serde_json::{json, Map, Value};
use vh::panicmon::catch;
use vh::{Args, Report, Rng};

fn hex(b: &[u8]) -> String {
  b.iter().map(|x| format!("{:02x}", x)).collect()
}

fn did_str(net: &str, tag: &[u8]) -> String {
  if net == "iota" {
    format!("did:iota:0x{}", hex(tag))
  } else {
    format!("did:iota:{}:0x{}", net, hex(tag))
  }
}

const NETS: [&str; 5] = ["iota", "smr", "rms", "atoi", "tst"];

struct Model {
  me: String,
  net: String,
  tag: Vec<u8>,
  controllers: Vec<String>,
  doc: Value,  // {"doc": …, "meta": …} as written by the harness, ids spelled with `me`
}

fn jwk(rng: &mut Rng) -> Value {
  json!({"kty":"OKP","crv":"Ed25519","x": vh::b64::url_encode(&rng.bytes(32))})
}

fn gen_model(rng: &mut Rng) -> Model {
  gen_model_on(rng, None)
}

/// `force_net`: the network of the document's own DID (drawn when None; the draw is consumed either way).
fn gen_model_on(rng: &mut Rng, force_net: Option<&str>) -> Model {
  let drawn = rng.pick(&NETS).to_string();
  let net = force_net.map(String::from).unwrap_or(drawn);
  let tag = rng.bytes(32);
  let me = did_str(&net, &tag);
  let foreign_iota: Vec<String> = (0..3).map(|_| { let n = *rng.pick(&NETS); let t = rng.bytes(32); did_str(n, &t) }).collect();
  let foreign_other = ["did:example:abc", "did:web:example.com", "did:key:z6MkpTHR8VNsBxYAAWHut2Geadd9jSwuBV8xRoAnwWsdvktH"];
  let mut doc = Map::new();
  doc.insert("id".into(), json!(me));
  let mut controllers: Vec<String> = Vec::new();
  for _ in 0..rng.usize(4) {
    let c = if rng.chance(1, 3) { me.clone() } else { rng.pick(&foreign_iota).clone() };
    if !controllers.contains(&c) {
      controllers.push(c);
    }
  }
  match controllers.len() {
    0 => {}
    1 => {
      doc.insert("controller".into(), json!(controllers[0]));
    }
    _ => {
      doc.insert("controller".into(), json!(controllers));
    }
  }
  if rng.chance(1, 3) {
    doc.insert("alsoKnownAs".into(), json!(["https://example.com/me"]));
  }
  let mut vms = Vec::new();
  for i in 0..rng.usize(4) {
    let owner = if rng.chance(1, 4) { rng.pick(&foreign_iota).clone() } else { me.clone() };
    let ctrl = if rng.chance(1, 4) { rng.pick(&foreign_other).to_string() } else { owner.clone() };
    vms.push(json!({"id": format!("{}#key-{}", owner, i), "controller": ctrl, "type": "JsonWebKey", "publicKeyJwk": jwk(rng)}));
  }
  if !vms.is_empty() {
    doc.insert("verificationMethod".into(), json!(vms));
  }
  for rel in ["authentication", "assertionMethod", "keyAgreement", "capabilityDelegation", "capabilityInvocation"] {
    let mut v = Vec::new();
    if rng.chance(1, 3) {
      v.push(json!({"id": format!("{}#{}-emb", me, rel), "controller": me, "type": "JsonWebKey", "publicKeyJwk": jwk(rng)}));
    }
    if !vms.is_empty() && rng.chance(1, 3) {
      v.push(vms[rng.usize(vms.len())]["id"].clone());
    }
    if rng.chance(1, 6) {
      v.push(json!(format!("{}#elsewhere", rng.pick(&foreign_other))));
    }
    if !v.is_empty() {
      doc.insert(rel.into(), json!(v));
    }
  }
  if rng.chance(1, 2) {
    let owner = if rng.chance(1, 4) { foreign_iota[0].clone() } else { me.clone() };
    doc.insert("service".into(), json!([{"id": format!("{}#svc", owner), "type": "LinkedDomains", "serviceEndpoint": "https://example.com/"}]));
  }
  if rng.chance(1, 3) {
    doc.insert("customProperty".into(), json!({"n": rng.below(100), "s": "text"}));
  }
  let mut meta = Map::new();
  if rng.chance(3, 4) {
    meta.insert("created".into(), json!("2022-01-02T03:04:05Z"));
  }
  if rng.chance(3, 4) {
    meta.insert("updated".into(), json!("2023-05-06T07:08:09Z"));
  }
  if rng.chance(1, 6) {
    meta.insert("deactivated".into(), json!(rng.bool()));
  }
  if rng.chance(1, 4) {
    meta.insert("customMeta".into(), json!([1, 2, 3]));
  }
  Model { me, net, tag, controllers, doc: json!({"doc": Value::Object(doc), "meta": Value::Object(meta)}) }
}

/// The model document with every occurrence of the self DID replaced by `target` (ids are plain strings here).
fn retarget(v: &Value, me: &str, target: &str) -> Value {
  match v {
    Value::String(s) => {
      if s == me {
        json!(target)
      } else if let Some(rest) = s.strip_prefix(me) {
        if rest.starts_with('#') || rest.starts_with('/') || rest.starts_with('?') {
          json!(format!("{}{}", target, rest))
        } else {
          v.clone()
        }
      } else {
        v.clone()
      }
    }
    Value::Array(a) => Value::Array(a.iter().map(|x| retarget(x, me, target)).collect()),
    Value::Object(o) => Value::Object(o.iter().map(|(k, x)| (k.clone(), retarget(x, me, target))).collect()),
    _ => v.clone(),
  }
}

fn controllers_of(v: &Value) -> Vec<String> {
  match v["doc"].get("controller") {
    None => vec![],
    Some(Value::String(s)) => vec![s.clone()],
    Some(Value::Array(a)) => a.iter().filter_map(|x| x.as_str().map(String::from)).collect(),
    _ => vec!["<non-string controller>".into()],
  }
}

fn without_ledger_fields(v: &Value) -> Value {
  let mut v = v.clone();
  if let Some(m) = v.get_mut("meta").and_then(|m| m.as_object_mut()) {
    m.remove("governorAddress");
    m.remove("stateControllerAddress");
  }
  if let Some(d) = v.get_mut("doc").and_then(|m| m.as_object_mut()) {
    d.remove("controller");
  }
  v
}

/// What the judgement of one unpacked document saw (for counters and samples).
struct Judged {
  want_c: Vec<String>,
  got_c: Vec<String>,
  alias_did: Option<String>,
}

/// The statement's judgement of one document read back from an alias output: equal to the harness model rendered for
/// `target`, ledger address fields excepted; controllers = packed controllers (+ at most the DID of an alias state
/// controller). Violations are reported under `<prefix>:…`. None = the document itself differed.
fn judge(rep: &mut Report, prefix: &str, got: &IotaDocument, m: &Model, target: &str, target_net: &str, sc_addr: &Address, case: &Value) -> Option<Judged> {
  let got_json: Value = serde_json::from_str(&got.to_json().expect("document serialises")).expect("json");
  let want = retarget(&m.doc, &m.me, target);
  // normal form of the expectation through the library's own (de)serialiser is NOT used: compare as JSON trees with
  // the fields that legitimately differ removed
  let (g, w) = (without_ledger_fields(&got_json), without_ledger_fields(&want));
  if g != w {
    rep.violation(
      &format!("{}:document-differs", prefix),
      "document unpacked from the alias output differs from the packed one beyond ledger fields and controller",
      json!({"case": case, "got": got_json, "want": want}),
    );
    return None;
  }
  // controllers
  let want_c: Vec<String> = controllers_of(&want);
  let got_c: Vec<String> = controllers_of(&got_json);
  let alias_did = match sc_addr {
    Address::Alias(a) => Some(did_str(target_net, &a.alias_id()[..])),
    _ => None,
  };
  let missing: Vec<&String> = want_c.iter().filter(|c| !got_c.contains(c)).collect();
  let extra: Vec<&String> = got_c.iter().filter(|c| !want_c.contains(c) && Some(*c) != alias_did.as_ref()).collect();
  if !missing.is_empty() {
    rep.violation(&format!("{}:controllers-dropped", prefix), &format!("controllers {:?} of the packed document are missing after unpacking (got {:?})", missing, got_c), case.clone());
  }
  if !extra.is_empty() {
    rep.violation(&format!("{}:controllers-invented", prefix), &format!("controllers {:?} appeared that are neither in the packed document nor the state controller's alias", extra), case.clone());
  }
  if alias_did.is_none() && got_c != want_c {
    rep.violation(&format!("{}:controllers-differ", prefix), &format!("controllers {:?} != packed {:?} with an Ed25519 state controller", got_c, want_c), case.clone());
  }
  // ledger fields are filled in
  let meta = &got_json["meta"];
  if !meta["governorAddress"].is_string() || !meta["stateControllerAddress"].is_string() {
    rep.violation(&format!("{}:ledger-fields-missing", prefix), "governorAddress/stateControllerAddress not set when unpacking from the alias output", case.clone());
  }
  Some(Judged { want_c, got_c, alias_did })
}

/// State controller / governor addresses: 0 ed25519, 1 alias (new DID), 2 alias of a controller the document already
/// lists (when there is one on the target's network). Returns (state controller, governor, listed).
fn gen_addresses(rng: &mut Rng, m: &Model, target_net: &str) -> (Address, Address, bool) {
  let sc_kind = rng.below(3);
  let mut listed = false;
  let fresh_alias = Address::Alias(AliasAddress::new(AliasId::new(rng.bytes(32).try_into().unwrap())));
  let sc_addr: Address = match sc_kind {
    0 => Address::Ed25519(Ed25519Address::new(rng.bytes(32).try_into().unwrap())),
    1 => fresh_alias,
    _ => {
      let cand = m.controllers.iter().filter(|c| **c != m.me).find_map(|c| {
        let hexpart = &c[c.len() - 64..];
        let t: Vec<u8> = (0..32).map(|k| u8::from_str_radix(&hexpart[2 * k..2 * k + 2], 16).unwrap()).collect();
        if did_str(target_net, &t) == *c { Some(t) } else { None }
      });
      match cand {
        Some(t) => {
          listed = true;
          Address::Alias(AliasAddress::new(AliasId::new(t.try_into().unwrap())))
        }
        None => fresh_alias,
      }
    }
  };
  let gov_addr: Address = if rng.bool() { Address::Ed25519(Ed25519Address::new(rng.bytes(32).try_into().unwrap())) } else { sc_addr };
  (sc_addr, gov_addr, listed)
}

fn alias_output(alias_id: AliasId, state_metadata: Vec<u8>, sc_addr: Address, gov_addr: Address) -> Result<AliasOutput, String> {
  AliasOutputBuilder::new_with_amount(1, alias_id)
    .with_state_metadata(state_metadata)
    .add_unlock_condition(UnlockCondition::StateControllerAddress(StateControllerAddressUnlockCondition::new(sc_addr)))
    .add_unlock_condition(UnlockCondition::GovernorAddress(GovernorAddressUnlockCondition::new(gov_addr)))
    .finish()
    .map_err(|e| e.to_string())
}

fn addr_kind(a: &Address) -> &'static str {
  if matches!(a, Address::Alias(_)) { "alias address" } else { "ed25519 address" }
}

fn main() {
  let args = Args::parse();
  let scale = args.extra_u64("scale", 1000);
  let mut rep = Report::new("C14");
  rep.rule(
    "alias-output stage: case = generated IOTA document (self/foreign methods in every scope, references, services, 0-3 \
     controllers, alsoKnownAs, custom properties, metadata) packed with IotaDocument::pack, wrapped into an AliasOutput with \
     Ed25519 or alias state-controller/governor addresses and read back with IotaDocument::unpack_from_output for the same or \
     another DID (other net+tag / same tag other net / same net other tag), the output's own alias id being that DID's tag, an \
     unrelated tag, the packed document's (or a controller's) tag, a tag one bit off, or null; expected document = harness model \
     rendered for the DID passed in. distinct = (state controller kind, governor kind, #controllers, \
     target relation, alias id kind, alias controller already listed). Block level: case = block with a transaction payload of 1-5 outputs \
     (alias outputs with packed documents for the same/another DID, set or null alias id, optional trailing bytes; empty-metadata \
     alias outputs; basic outputs) of which 0-2 alias outputs carry state metadata the statement says is rejected (wrong \
     marker/version/encoding byte, length prefix beyond the data, truncated frame, foreign bytes without the marker), offered to \
     IotaDocument::unpack_from_block: such a block must not be unpacked successfully, a block of well-formed outputs must yield \
     every packed document equal to the model. distinct = (#outputs, malformed kind, its position, its alias id kind, bystander kinds)",
  );
  let n = ((if args.thorough { 400_000u64 } else { 1_600 }) * scale / 1000 / args.nshards.max(1)).max(8);
  let mut rng = args.rng(1414);
  for i in 0..n {
    rep.eval();
    let m = gen_model(&mut rng);
    let text = m.doc.to_string();
    let case0 = json!({"document": m.doc, "self": m.me});
    let doc = match catch(|| IotaDocument::from_json(&text)) {
      Ok(Ok(d)) => d,
      Ok(Err(e)) => {
        rep.inc("model_document_rejected");
        let _ = e;
        continue;
      }
      Err(p) => {
        rep.violation(&format!("alias-output:from_json-panic@{}", p.file_only()), &p.msg, case0);
        continue;
      }
    };
    let packed = match catch(|| doc.clone().pack()) {
      Ok(Ok(b)) => b,
      Ok(Err(_)) => {
        rep.inc("pack_refused");
        continue;
      }
      Err(p) => {
        rep.violation(&format!("alias-output:pack-panic@{}", p.file_only()), &p.msg, case0);
        continue;
      }
    };
    // target DID first (the alias DID the library derives lives on the target's network)
    let same = rng.chance(2, 3);
    let relation: &str = if same { "same" } else { *rng.pick(&["other-net-other-tag", "same-tag-other-net", "same-net-other-tag"]) };
    let (target_net, target_tag) = match relation {
      "same" => (m.net.clone(), m.tag.clone()),
      "same-tag-other-net" => {
        let others: Vec<&str> = NETS.iter().copied().filter(|x| *x != m.net).collect();
        (rng.pick(&others).to_string(), m.tag.clone())
      }
      "same-net-other-tag" => (m.net.clone(), rng.bytes(32)),
      _ => (rng.pick(&NETS).to_string(), rng.bytes(32)),
    };
    let target = did_str(&target_net, &target_tag);
    let target_did = IotaDID::parse(&target).expect("harness DID");
    let (sc_addr, gov_addr, listed) = gen_addresses(&mut rng, &m, &target_net);
    // The alias id the output itself carries is independent of the DID the caller unpacks for: the statement's
    // expectation is the model rendered for the DID that is PASSED IN, whatever the output says about itself.
    // cycled (not drawn) so that every scale sees every kind
    let aid_kind: &str = ALIAS_ID_KINDS[(i % ALIAS_ID_KINDS.len() as u64) as usize];
    let out_tag: Option<Vec<u8>> = match aid_kind {
      "target-tag" => Some(target_tag.clone()),
      "null" => None,
      "unrelated-tag" => Some(rng.bytes(32)),
      "near-target-tag" => {
        // differs from the target's tag in a single bit
        let mut t = target_tag.clone();
        let pos = rng.usize(32);
        t[pos] ^= 1u8 << rng.below(8);
        Some(t)
      }
      _ => {
        // "packed-tag": the tag of the DID the document was packed with; for the same DID that IS the target's tag, so
        // there the tag of one of the document's foreign controllers (or a fresh one) is used instead
        if !same && m.tag != target_tag {
          Some(m.tag.clone())
        } else {
          let foreign = m.controllers.iter().find(|c| **c != m.me).map(|c| {
            let hexpart = &c[c.len() - 64..];
            (0..32).map(|k| u8::from_str_radix(&hexpart[2 * k..2 * k + 2], 16).unwrap()).collect::<Vec<u8>>()
          });
          Some(foreign.unwrap_or_else(|| rng.bytes(32)))
        }
      }
    };
    let out_alias_id = match &out_tag {
      Some(t) => AliasId::new(t.clone().try_into().unwrap()),
      None => AliasId::null(),
    };
    let aid_differs = out_tag.as_ref() != Some(&target_tag);
    let out: AliasOutput = match alias_output(out_alias_id, packed, sc_addr, gov_addr) {
      Ok(o) => o,
      Err(_) => {
        // the SDK's own rules (an alias may not be its own state controller/governor): nothing to judge
        rep.inc("alias_output_unbuildable");
        continue;
      }
    };
    let sc_is_alias = matches!(sc_addr, Address::Alias(_));
    let case = json!({"document": m.doc, "self": m.me, "unpacked_for": target, "target_relation": relation,
      "output_alias_id": out_tag.as_ref().map(|t| format!("0x{}", hex(t))).unwrap_or_else(|| "null".into()), "output_alias_id_kind": aid_kind,
      "state_controller": addr_kind(&sc_addr), "alias_already_a_controller": listed, "governor": addr_kind(&gov_addr)});
    rep.distinct("nontrivial", &format!("alias-output|sc{}|gov{}|c{}|{}|aid-{}|listed{}", sc_is_alias, matches!(gov_addr, Address::Alias(_)), m.controllers.len(), relation, aid_kind, listed));
    let got = match catch(|| IotaDocument::unpack_from_output(&target_did, &out, rng_free_bool(i))) {
      Err(p) => {
        rep.violation(&format!("alias-output:unpack-panic@{}", p.file_only()), &format!("{} at {}", p.msg, p.loc()), case);
        continue;
      }
      Ok(Err(e)) => {
        rep.violation("alias-output:own-pack-rejected", &format!("unpack_from_output refused what pack produced: {}", e), case);
        continue;
      }
      Ok(Ok(d)) => d,
    };
    rep.inc("alias_output_unpacked");
    rep.inc(if same { "alias_output_same_did" } else { "alias_output_other_did" });
    rep.inc(&format!("alias_output_target_{}", relation.replace('-', "_")));
    // the document must be the one for the DID passed in; a document issued for the DID the OUTPUT names instead is one
    // root cause of its own (signature says where the id came from), everything else goes through the general judgement
    let got_id = got.id().to_string();
    if got_id != target {
      let from_output = out_tag.as_ref().map(|t| got_id == did_str(&target_net, t)).unwrap_or(false);
      rep.violation(
        if from_output { "alias-output:document-id-taken-from-output-alias-id-not-passed-did" } else { "alias-output:document-id-not-the-passed-did" },
        &format!("unpack_from_output for {} returned a document with id {} (alias id of the output: {}, document packed as {})", target, got_id, case["output_alias_id"], m.me),
        case,
      );
      continue;
    }
    let Some(j) = judge(&mut rep, "alias-output", &got, &m, &target, &target_net, &sc_addr, &case) else { continue };
    rep.inc(&format!("alias_output_alias_id_{}", aid_kind.replace('-', "_")));
    if aid_differs {
      rep.inc("alias_output_alias_id_differs_from_passed_did");
      if !same {
        rep.inc("alias_output_alias_id_differs_other_did");
      }
    }
    if !j.want_c.is_empty() {
      rep.inc("alias_output_with_controllers");
      if j.alias_did.is_none() {
        rep.inc("alias_output_with_controllers_ed25519_state_controller");
      }
    }
    if rep.want_sample() {
      rep.sample(json!({"unpacked_for": target, "controllers_packed": j.want_c, "controllers_unpacked": j.got_c, "state_controller_alias": j.alias_did}));
    }
  }
  block_stage(&args, scale, &mut rep);
  rep.finish();
}

/// What the alias id of the output is in relation to the DID passed to `unpack_from_output`.
const ALIAS_ID_KINDS: [&str; 5] = ["target-tag", "unrelated-tag", "packed-tag", "near-target-tag", "null"];

fn rng_free_bool(i: u64) -> bool {
  i % 2 == 0
}

// ------------------------------------------------------------------------------------------------------------------
// Block level: IotaDocument::unpack_from_block
// ------------------------------------------------------------------------------------------------------------------

/// The kinds of state metadata the statement says are rejected (names appear in signatures and counters).
const BAD_KINDS: [&str; 7] = ["marker", "version", "encoding", "length-prefix-beyond-data", "truncated-body", "truncated-header", "foreign-bytes-without-marker"];

/// Turns a frame produced by `pack` into one of BAD_KINDS. Built from the statement's frame layout:
/// 'D','I','D', version 1, encoding 0, u16 LE length, payload.
fn make_bad(rng: &mut Rng, kind: usize, packed: &[u8]) -> Vec<u8> {
  assert!(packed.len() > 9 && &packed[0..3] == b"DID" && packed[3] == 1 && packed[4] == 0, "harness: pack did not frame as expected");
  let mut b = packed.to_vec();
  let differing = |rng: &mut Rng, old: u8, favourites: &[u8]| -> u8 {
    loop {
      let v = if rng.chance(1, 2) { *rng.pick(favourites) } else { rng.below(256) as u8 };
      if v != old {
        return v;
      }
    }
  };
  match kind {
    0 => {
      let pos = rng.usize(3);
      b[pos] = differing(rng, b[pos], &[b'd', b'i', b'D', b'I', 0, b' ', b'{', 0xff]);
    }
    1 => b[3] = differing(rng, 1, &[0, 2, 3, b'1', 0x81, 0xff]),
    2 => b[4] = differing(rng, 0, &[1, 2, b'0', 0x80, 0xff]),
    3 => {
      let have = (b.len() - 7) as u64;
      let claimed = match rng.below(3) {
        0 => have + 1,
        1 => 0xffff,
        _ => have + 1 + rng.below(0xffff - have),
      };
      assert!(claimed > have && claimed <= 0xffff);
      b[5] = (claimed & 0xff) as u8;
      b[6] = (claimed >> 8) as u8;
    }
    4 => {
      let cut = match rng.below(3) {
        0 => 7,
        1 => b.len() - 1,
        _ => 7 + rng.usize(b.len() - 7),
      };
      b.truncate(cut);
    }
    5 => b.truncate(1 + rng.usize(6)),
    _ => {
      b = match rng.below(4) {
        0 => packed[7..].to_vec(), // the bare JSON payload of a DID document, no frame
        1 => b"{\"app\":\"not a DID document\",\"n\":1}".to_vec(),
        2 => {
          let mut x = packed.to_vec(); // marker moved behind another application's tag
          x.splice(0..0, *b"NFT");
          x
        }
        _ => {
          let n = 1 + rng.usize(64);
          rng.bytes(n)
        }
      };
      if b.starts_with(b"DID") {
        b[0] = b'X';
      }
    }
  }
  b
}

enum Slot {
  /// packed document (optionally followed by trailing bytes) for `target`
  Good { m: Model, target: String, same: bool, null_id: bool, trailing: bool, sc: Address, idx: usize },
  Bad { kind: usize, bytes: Vec<u8>, null_id: bool },
  Empty,
  Basic,
}

fn block_with(outputs: Vec<Output>, rng: &mut Rng) -> Result<(Block, TransactionId), String> {
  let essence = RegularTransactionEssence::builder(rng.next_u64(), InputsCommitment::from(<[u8; 32]>::try_from(rng.bytes(32)).unwrap()))
    .with_inputs(vec![Input::Utxo(UtxoInput::new(TransactionId::new(rng.bytes(32).try_into().unwrap()), 0).map_err(|e| e.to_string())?)])
    .with_outputs(outputs)
    .finish()
    .map_err(|e| e.to_string())?;
  // the signature is never checked when unpacking documents
  let signature = Ed25519Signature::from_bytes([0x77; 32], [0x55; 64]);
  let unlocks = Unlocks::new(vec![Unlock::Signature(SignatureUnlock::new(Signature::Ed25519(Box::new(signature))))]).map_err(|e| e.to_string())?;
  let payload = TransactionPayload::new(TransactionEssence::Regular(essence), unlocks).map_err(|e| e.to_string())?;
  let tx_id = payload.id();
  let block = Block::build(Parents::from_vec(vec![BlockId::new(rng.bytes(32).try_into().unwrap())]).map_err(|e| e.to_string())?)
    .with_payload(Payload::from(payload))
    .with_nonce(0u64)
    .finish()
    .map_err(|e| e.to_string())?;
  Ok((block, tx_id))
}

fn block_stage(args: &Args, scale: u64, rep: &mut Report) {
  let n = ((if args.thorough { 120_000u64 } else { 960 }) * scale / 1000 / args.nshards.max(1)).max(24);
  let mut rng = args.rng(1415);
  let mut bad_seq = 0usize;
  for i in 0..n {
    rep.eval();
    let net = rng.pick(&NETS).to_string();
    let network = NetworkName::try_from(net.clone()).expect("harness network name");
    // two blocks in three offer malformed state metadata; the kinds are cycled so that every scale sees all of them
    let n_bad = if i % 3 == 0 { 0 } else if rng.chance(1, 5) { 2 } else { 1 };
    let n_good = if n_bad == 0 { 1 + rng.usize(3) } else { rng.usize(3) };
    let n_empty = if rng.chance(1, 4) { 1 } else { 0 };
    let n_basic = if rng.chance(1, 3) { 1 } else { 0 };
    let mut plan: Vec<u8> = Vec::new(); // 0 good, 1 bad, 2 empty, 3 basic
    plan.extend(std::iter::repeat(0u8).take(n_good));
    plan.extend(std::iter::repeat(1u8).take(n_bad));
    plan.extend(std::iter::repeat(2u8).take(n_empty));
    plan.extend(std::iter::repeat(3u8).take(n_basic));
    rng.shuffle(&mut plan);

    let mut slots: Vec<Slot> = Vec::new();
    let mut outputs: Vec<Output> = Vec::new();
    let mut described: Vec<Value> = Vec::new();
    let mut unusable = false;
    for (idx, what) in plan.iter().enumerate() {
      let plain_addr = Address::Ed25519(Ed25519Address::new(rng.bytes(32).try_into().unwrap()));
      match what {
        0 | 1 => {
          // a document of its own for every alias output; same DID = (block network, alias id) is the document's DID
          let same = *what == 0 && rng.chance(1, 2);
          let null_id = !same && rng.chance(1, 4);
          let on_block_network = same || rng.chance(1, 2);
          let m = gen_model_on(&mut rng, if on_block_network { Some(&net) } else { None });
          let text = m.doc.to_string();
          let packed = match catch(|| IotaDocument::from_json(&text).ok().and_then(|d| d.pack().ok())) {
            Ok(Some(b)) => b,
            Ok(None) => {
              rep.inc("block_model_document_unusable");
              unusable = true;
              break;
            }
            Err(p) => {
              rep.violation(&format!("block:pack-panic@{}", p.file_only()), &p.msg, json!({"document": m.doc}));
              unusable = true;
              break;
            }
          };
          let tag: Vec<u8> = if same { m.tag.clone() } else { rng.bytes(32) };
          let alias_id = if null_id { AliasId::null() } else { AliasId::new(tag.clone().try_into().unwrap()) };
          let (sc, gov, _listed) = gen_addresses(&mut rng, &m, &net);
          if *what == 0 {
            let trailing = rng.chance(1, 4);
            let mut bytes = packed.clone();
            if trailing {
              let k = 1 + rng.usize(24);
              bytes.extend(rng.bytes(k));
            }
            outputs.push(Output::Alias(alias_output(alias_id, bytes, sc, gov).expect("harness alias output")));
            described.push(json!({"output": idx, "kind": "alias output with a packed document", "document": m.doc, "packed_for": m.me,
              "alias_id": if null_id { "null (derived from the output id)".to_string() } else { hex(&tag) }, "trailing_bytes": trailing, "state_controller": addr_kind(&sc)}));
            // target filled in below for null ids (needs the transaction id)
            let target = if null_id { String::new() } else { did_str(&net, &tag) };
            slots.push(Slot::Good { m, target, same, null_id, trailing, sc, idx });
          } else {
            let kind = bad_seq % BAD_KINDS.len();
            bad_seq += 1;
            let bytes = make_bad(&mut rng, kind, &packed);
            outputs.push(Output::Alias(alias_output(alias_id, bytes.clone(), sc, gov).expect("harness alias output")));
            described.push(json!({"output": idx, "kind": "alias output with malformed state metadata", "malformed": BAD_KINDS[kind], "state_metadata_hex": hex(&bytes),
              "derived_from_pack_of": m.doc, "alias_id": if null_id { "null (derived from the output id)".to_string() } else { hex(&tag) }}));
            slots.push(Slot::Bad { kind, bytes, null_id });
          }
        }
        2 => {
          let alias_id = AliasId::new(rng.bytes(32).try_into().unwrap());
          outputs.push(Output::Alias(alias_output(alias_id, Vec::new(), plain_addr, plain_addr).expect("harness alias output")));
          described.push(json!({"output": idx, "kind": "alias output with empty state metadata"}));
          slots.push(Slot::Empty);
        }
        _ => {
          let basic = BasicOutputBuilder::new_with_amount(1 + rng.below(1000))
            .add_unlock_condition(UnlockCondition::Address(AddressUnlockCondition::new(plain_addr)))
            .finish()
            .expect("harness basic output");
          outputs.push(Output::Basic(basic));
          described.push(json!({"output": idx, "kind": "basic output"}));
          slots.push(Slot::Basic);
        }
      }
    }
    if unusable {
      continue;
    }
    let (block, tx_id) = match block_with(outputs, &mut rng) {
      Ok(x) => x,
      Err(e) => {
        // the SDK's own limits (block size, duplicate chain ids): not a statement about the library under test
        rep.inc("block_unbuildable");
        let _ = e;
        continue;
      }
    };
    rep.inc("blocks_built");
    // null alias ids: the alias id is the hash of the output id (transaction id + output index), computed by the SDK
    for s in slots.iter_mut() {
      if let Slot::Good { target, null_id: true, idx, .. } = s {
        let oid = OutputId::new(tx_id, *idx as u16).expect("harness output id");
        *target = did_str(&net, &AliasId::from(&oid)[..]);
      }
    }
    let first_bad = slots.iter().position(|s| matches!(s, Slot::Bad { .. }));
    let has_empty = slots.iter().any(|s| matches!(s, Slot::Empty));
    let has_basic = slots.iter().any(|s| matches!(s, Slot::Basic));
    let case = json!({"network": net, "outputs": described});
    {
      let (bk, bpos, bnull) = match first_bad {
        Some(p) => {
          let Slot::Bad { kind, null_id, .. } = &slots[p] else { unreachable!() };
          (BAD_KINDS[*kind], if p == 0 { "first" } else if p + 1 == slots.len() { "last" } else { "middle" }, *null_id)
        }
        None => ("none", "-", false),
      };
      rep.distinct("nontrivial", &format!("block|n{}|bad{}|{}|pos-{}|nullid{}|empty{}|basic{}", slots.len(), n_bad, bk, bpos, bnull, has_empty, has_basic));
    }
    let res = match catch(|| IotaDocument::unpack_from_block(&network, &block)) {
      Err(p) => {
        rep.violation(&format!("block:unpack-panic@{}", p.file_only()), &format!("{} at {}", p.msg, p.loc()), case);
        continue;
      }
      Ok(r) => r,
    };
    rep.inc("oracle_checks_block");
    if let Some(p) = first_bad {
      let Slot::Bad { kind, bytes, .. } = &slots[p] else { unreachable!() };
      rep.inc(&format!("block_offered_{}", BAD_KINDS[*kind]));
      match res {
        Err(_) => rep.inc("block_malformed_rejected"),
        Ok(docs) => {
          let ids: Vec<String> = docs.iter().map(|d| d.id().to_string()).collect();
          rep.violation(
            &format!("block:malformed-state-metadata-not-rejected:{}", BAD_KINDS[*kind]),
            &format!(
              "unpack_from_block returned Ok({:?}) for a block whose output {} carries state metadata with a wrong/short frame ({}): {}",
              ids,
              p,
              BAD_KINDS[*kind],
              hex(&bytes[..bytes.len().min(16)])
            ),
            case,
          );
        }
      }
      continue;
    }
    let docs = match res {
      Ok(d) => d,
      Err(e) => {
        if has_empty {
          // the statement does not say what an empty byte string yields
          rep.inc("block_with_empty_metadata_refused_unjudged");
        } else {
          rep.violation("block:own-pack-rejected", &format!("unpack_from_block refused a block whose alias outputs all carry what pack produced: {}", e), case);
        }
        continue;
      }
    };
    rep.inc("block_wellformed_accepted");
    let ids: Vec<String> = docs.iter().map(|d| d.id().to_string()).collect();
    for s in &slots {
      let Slot::Good { m, target, same, null_id, trailing, sc, idx } = s else { continue };
      let found: Vec<&IotaDocument> = docs.iter().filter(|d| d.id().to_string() == *target).collect();
      let dcase = json!({"block": case, "output": idx, "expected_did": target, "returned_ids": ids});
      if found.is_empty() {
        rep.violation("block:document-missing", &format!("no document for {} (output {}) among the documents unpacked from the block: {:?}", target, idx, ids), dcase);
        continue;
      }
      for d in found {
        if judge(rep, "block", d, m, target, &net, sc, &dcase).is_some() {
          rep.inc("block_documents_equal_model");
          rep.inc(if *same { "block_documents_same_did" } else { "block_documents_other_did" });
          if *null_id {
            rep.inc("block_documents_null_alias_id");
          }
          if *trailing {
            rep.inc("block_documents_trailing_ignored");
          }
        }
      }
    }
  }
}
