//! C06 (JPT / RevocationTimeframe2024 stage) — the clause "a credential whose status entry points at that service is
//! reported revoked by validation exactly when its index is a member" for the status checks that live behind
//! identity_credential's non-default `jpt-bbs-plus` feature (kept out of `vh`: pulls zkryptium / bls12_381_plus):
//! `JptCredentialValidatorUtils::{check_revocation_with_validity_timeframe_2024,
//! check_timeframes_with_validity_timeframe_2024, check_timeframes_and_revocation_with_validity_timeframe_2024}`.
//!
//! case = one issuer CoreDocument carrying 1-4 `RevocationBitmap2022` services (each built from a BTreeSet<u32> model:
//! empty, boundary indices, dense, sparse, single), optionally a LinkedDomains service and a foreign-DID service with the
//! fragment of one of the issuer's services and another set, probed with credentials whose `credentialStatus` is a
//! `RevocationTimeframe2024` entry addressing one service by id with a member / non-member index and a validity window
//! [start, start+granularity]; every probe is validated in all three StatusCheck modes, at instants before / at start /
//! inside / at end / after the window and with `None` (= now).
//!
//! Oracle (from the statement and the doc comments, never from observed behaviour):
//!  * SkipAll => Ok; status absent => Ok.
//!  * check_revocation_*: Err(Revoked) exactly when the index is a member of the ADDRESSED service's model set, Ok otherwise.
//!  * check_timeframes_*: Err(OutsideTimeframe) when the instant is strictly outside [start, end], Ok when strictly inside;
//!    the documentation is silent about instants equal to start/end, so there Ok and OutsideTimeframe are both accepted.
//!  * combined: member => Err(Revoked) whatever the instant (a revoked credential must be *reported revoked*);
//!    non-member => the timeframe oracle.
//!  * `None` is judged only for windows that end before 2020, start after 2300, or span 2020..2300.
//!  * status of an unsupported type: Strict => some error, SkipUnsupported => Ok (StatusCheck docs).
//!  * status addressing no service / a non-bitmap service: anything but Revoked (and a panic) is accepted.
use identity_core::common::{Duration, Timestamp, Url};
use identity_core::convert::FromJson;
use identity_credential::credential::{Credential, CredentialBuilder, Status, Subject};
use identity_credential::revocation::{RevocationBitmap, RevocationTimeframeStatus};
use identity_credential::validator::{JptCredentialValidatorUtils, JwtValidationError, StatusCheck};
use identity_did::DIDUrl;
use identity_document::document::CoreDocument;
use identity_document::service::Service;
use serde_json::{json, Value};
use std::collections::BTreeSet;
use vh::panicmon::catch;
use vh::{Args, Report, Rng};

const BOUNDS: &[u32] = &[0, 1, 65_535, 65_536, 65_537, 131_071, 131_072, u32::MAX - 1, u32::MAX];
const FRAGS: &[&str] = &["rev", "rev-2", "revocation", "r", "status-list", "rev_2", "Rev"];
const MODES: [(StatusCheck, &str); 3] = [(StatusCheck::Strict, "Strict"), (StatusCheck::SkipUnsupported, "SkipUnsupported"), (StatusCheck::SkipAll, "SkipAll")];

// 2020-01-01T00:00:00Z and 2300-01-01T00:00:00Z: "now" is assumed to lie strictly between them.
const NOW_LO: i64 = 1_577_836_800;
const NOW_HI: i64 = 10_413_792_000;
const Y2000: i64 = 946_684_800;

fn rand_u32(rng: &mut Rng) -> u32 {
  rng.next_u64() as u32
}

fn gen_set(rng: &mut Rng, big: bool) -> (BTreeSet<u32>, &'static str) {
  let mut s = BTreeSet::new();
  let kind = match rng.below(8) {
    0 => "empty",
    1 => "bounds",
    2 => "single",
    3 | 4 => "dense",
    5 => "dense-high",
    _ => "sparse",
  };
  match kind {
    "empty" => {}
    "bounds" => {
      for &b in BOUNDS {
        if rng.chance(1, 2) {
          s.insert(b);
        }
      }
      for &b in &[0u32, 65_535, 65_536, u32::MAX] {
        if rng.chance(2, 3) {
          s.insert(b);
        }
      }
    }
    "single" => {
      s.insert(if rng.bool() { *rng.pick(BOUNDS) } else { rand_u32(rng) });
    }
    "dense" => {
      let n = if big && rng.chance(1, 10) { 60_000 + rng.below(12_000) as u32 } else { 1 + rng.below(600) as u32 };
      let lo = *rng.pick(&[0u32, 0, 1, 65_000, 65_536, 1_000_000]);
      for i in lo..lo + n {
        if !rng.chance(1, 16) {
          s.insert(i);
        }
      }
    }
    "dense-high" => {
      let n = 1 + rng.below(300) as u32;
      for i in 0..n {
        if !rng.chance(1, 8) {
          s.insert(u32::MAX - i);
        }
      }
    }
    _ => {
      for _ in 0..1 + rng.below(40) {
        s.insert(rand_u32(rng));
      }
      if rng.chance(1, 3) {
        s.insert(*rng.pick(BOUNDS));
      }
    }
  }
  (s, kind)
}

fn preview(set: &BTreeSet<u32>) -> Value {
  let v: Vec<u32> = set.iter().copied().take(16).collect();
  json!({"len": set.len(), "first": v, "truncated": set.len() > 16})
}

fn member_of(rng: &mut Rng, set: &BTreeSet<u32>) -> Option<u32> {
  if set.is_empty() {
    return None;
  }
  if rng.chance(1, 3) {
    for &b in &[0u32, 65_535, 65_536, u32::MAX] {
      if set.contains(&b) && rng.bool() {
        return Some(b);
      }
    }
  }
  match rng.below(4) {
    0 => set.iter().next().copied(),
    1 => set.iter().next_back().copied(),
    _ => {
      let k = rng.usize(set.len().min(4_000));
      set.iter().nth(k).copied()
    }
  }
}

fn non_member_of(rng: &mut Rng, set: &BTreeSet<u32>, others: &[&BTreeSet<u32>]) -> Option<u32> {
  for _ in 0..40 {
    let c = match rng.below(5) {
      0 => *rng.pick(BOUNDS),
      1 => match member_of(rng, set) {
        Some(m) => {
          if rng.bool() {
            m.wrapping_add(1)
          } else {
            m.wrapping_sub(1)
          }
        }
        None => rand_u32(rng),
      },
      // a member of ANOTHER service of the document (or of the foreign namesake): tells the services apart
      2 | 3 => {
        let pool: Vec<&&BTreeSet<u32>> = others.iter().filter(|o| !o.is_empty()).collect();
        if pool.is_empty() {
          rand_u32(rng)
        } else {
          let o = **rng.pick(&pool);
          member_of(rng, o).unwrap_or(0)
        }
      }
      _ => rand_u32(rng),
    };
    if !set.contains(&c) {
      return Some(c);
    }
  }
  None
}

fn base_credential(issuer: &str) -> Credential {
  CredentialBuilder::default()
    .id(Url::parse("https://example.edu/credentials/3732").expect("url"))
    .issuer(Url::parse(issuer).expect("issuer url"))
    .type_("UniversityDegreeCredential")
    .subject(Subject::from_json_value(json!({"id": "did:example:subject", "degree": "BSc"})).expect("subject"))
    .issuance_date(Timestamp::parse("2020-01-01T00:00:00Z").expect("ts"))
    .build()
    .expect("credential")
}

fn ts(unix: i64) -> Timestamp {
  Timestamp::from_unix(unix).expect("timestamp in range")
}

/// Validity window drawn by the harness: (start, granularity in seconds expressed through one Duration constructor).
struct Window {
  start: i64,
  secs: i64,
  dur: Duration,
  dur_text: String,
  kind: &'static str,
}

fn gen_window(rng: &mut Rng) -> Window {
  let kind = *rng.pick(&["past", "past", "future", "around-now", "recent"]);
  let (start, (dur, secs, text)) = match kind {
    // ends before 2020
    "past" => (Y2000 + rng.below(18 * 365 * 86_400) as i64, gen_duration(rng, 300 * 86_400)),
    // starts after 2300
    "future" => (NOW_HI + 86_400 + rng.below(100 * 365 * 86_400) as i64, gen_duration(rng, 3_000 * 86_400)),
    // starts before 2020, ends after 2300
    "around-now" => {
      let d = 125_000 + rng.below(20_000) as u32; // > 342 years
      (Y2000 + rng.below(18 * 365 * 86_400) as i64, (Duration::days(d), d as i64 * 86_400, format!("days({})", d)))
    }
    // anywhere in 2020..2100 (a `None` query is not judged there)
    _ => (NOW_LO + rng.below(80 * 365 * 86_400) as i64, gen_duration(rng, 3_000 * 86_400)),
  };
  Window { start, secs, dur, dur_text: text, kind }
}

fn gen_duration(rng: &mut Rng, max_secs: u64) -> (Duration, i64, String) {
  loop {
    let (d, s, t) = match rng.below(6) {
      0 => {
        let n = *rng.pick(&[0u32, 1, 2, 59, 60, 61]);
        (Duration::seconds(n), n as i64, format!("seconds({})", n))
      }
      1 => {
        let n = 1 + rng.below(100_000) as u32;
        (Duration::seconds(n), n as i64, format!("seconds({})", n))
      }
      2 => {
        let n = 1 + rng.below(3_000) as u32;
        (Duration::minutes(n), n as i64 * 60, format!("minutes({})", n))
      }
      3 => {
        let n = 1 + rng.below(2_000) as u32;
        (Duration::hours(n), n as i64 * 3_600, format!("hours({})", n))
      }
      4 => {
        let n = 1 + rng.below(3_000) as u32;
        (Duration::days(n), n as i64 * 86_400, format!("days({})", n))
      }
      _ => {
        let n = 1 + rng.below(400) as u32;
        (Duration::weeks(n), n as i64 * 604_800, format!("weeks({})", n))
      }
    };
    if (s as u64) <= max_secs {
      return (d, s, t);
    }
  }
}

/// Where the queried instant lies relative to the window, by construction.
#[derive(Clone, Copy, PartialEq, Debug)]
enum Pos {
  Before,
  AtStart,
  Inside,
  AtEnd,
  After,
  /// `None` was passed and the window does not tell where "now" falls
  Unknown,
}

impl Pos {
  fn name(self) -> &'static str {
    match self {
      Pos::Before => "before",
      Pos::AtStart => "at-start",
      Pos::Inside => "inside",
      Pos::AtEnd => "at-end",
      Pos::After => "after",
      Pos::Unknown => "unknown",
    }
  }
}

/// Expected timeframe verdict: Some(true) = must be Ok, Some(false) = must be OutsideTimeframe, None = not judged.
fn timeframe_expect(p: Pos) -> Option<bool> {
  match p {
    Pos::Inside => Some(true),
    Pos::Before | Pos::After => Some(false),
    Pos::AtStart | Pos::AtEnd | Pos::Unknown => None,
  }
}

fn err_name(e: &JwtValidationError) -> String {
  match e {
    JwtValidationError::Revoked => "Revoked".into(),
    JwtValidationError::OutsideTimeframe => "OutsideTimeframe".into(),
    JwtValidationError::ServiceLookupError { .. } => "ServiceLookupError".into(),
    JwtValidationError::InvalidStatus(x) => format!("InvalidStatus({})", x),
    other => format!("{:?}", other),
  }
}

fn res_text(r: &Result<(), JwtValidationError>) -> String {
  match r {
    Ok(()) => "Ok".into(),
    Err(e) => format!("Err({})", err_name(e)),
  }
}

struct Svc {
  id: String,
  set: BTreeSet<u32>,
  kind: &'static str,
}

struct Cx {
  rep: Report,
}

impl Cx {
  /// Judgement of one call of a function that consults the bitmap only (`check_revocation_*`).
  #[allow(clippy::too_many_arguments)]
  fn judge_revocation(&mut self, r: Result<(), JwtValidationError>, member: bool, mode: &str, case: &Value, index: u32, set: &BTreeSet<u32>) {
    let f = "check_revocation";
    match (&r, member) {
      (Err(JwtValidationError::Revoked), true) => self.rep.inc("jpt_revoked_reported"),
      (Ok(()), false) => self.rep.inc("jpt_not_revoked_ok"),
      (Ok(()), true) => self.rep.violation(
        &format!("jpt:{f}:member-not-revoked"),
        &format!("index {} is a member of {} but check_revocation_with_validity_timeframe_2024({}) = Ok", index, preview(set), mode),
        case.clone(),
      ),
      (Err(JwtValidationError::Revoked), false) => self.rep.violation(
        &format!("jpt:{f}:nonmember-revoked"),
        &format!("index {} is not a member of {} but check_revocation_with_validity_timeframe_2024({}) = Revoked", index, preview(set), mode),
        case.clone(),
      ),
      (Err(e), _) => self.rep.violation(
        &format!("jpt:{f}:unexpected-error"),
        &format!("check_revocation_with_validity_timeframe_2024({}) for index {} (member={}) of {} = {}", mode, index, member, preview(set), err_name(e)),
        case.clone(),
      ),
    }
  }

  fn judge_timeframe(&mut self, f: &str, r: &Result<(), JwtValidationError>, pos: Pos, mode: &str, case: &Value) {
    match (r, timeframe_expect(pos)) {
      (Ok(()), Some(true)) => self.rep.inc("jpt_timeframe_inside_ok"),
      (Err(JwtValidationError::OutsideTimeframe), Some(false)) => self.rep.inc("jpt_timeframe_outside"),
      (Ok(()), None) | (Err(JwtValidationError::OutsideTimeframe), None) => {
        self.rep.inc(if pos == Pos::Unknown { "jpt_timeframe_now_not_judged" } else { "jpt_timeframe_boundary_observed" });
        if pos != Pos::Unknown {
          self.rep.inc(if r.is_ok() { "jpt_timeframe_boundary_accepted" } else { "jpt_timeframe_boundary_rejected" });
        }
      }
      (Ok(()), Some(false)) => self.rep.violation(
        &format!("jpt:{f}:outside-window-accepted"),
        &format!("{f}({mode}): instant {} the validity window was accepted", pos.name()),
        case.clone(),
      ),
      (Err(JwtValidationError::OutsideTimeframe), Some(true)) => self.rep.violation(
        &format!("jpt:{f}:inside-window-rejected"),
        &format!("{f}({mode}): instant inside the validity window was reported OutsideTimeframe"),
        case.clone(),
      ),
      (Err(e), _) => self.rep.violation(
        &format!("jpt:{f}:unexpected-error"),
        &format!("{f}({mode}) with the instant {} the window = {}", pos.name(), err_name(e)),
        case.clone(),
      ),
    }
  }

  fn panic(&mut self, f: &str, p: &vh::panicmon::PanicRec, case: &Value) {
    self.rep.violation(&format!("jpt:{f}-panic@{}", p.file_only()), &format!("{f} panicked: {} at {}", p.msg, p.loc()), case.clone());
  }
}

fn main() {
  let args = Args::parse();
  let scale = args.extra_u64("scale", 1000);
  let mut cx = Cx { rep: Report::new("C06") };
  cx.rep.rule(
    "JPT / RevocationTimeframe2024 stage: case = issuer CoreDocument with 1-4 RevocationBitmap2022 services built from BTreeSet<u32> \
     models (empty, boundary indices 0/65535/65536/u32::MAX, dense, dense at the top of the range, sparse, single), optional \
     LinkedDomains service and foreign-DID namesake bitmap service, probed by credentials whose RevocationTimeframe2024 status \
     addresses one service by id with a member / non-member index (non-members preferably members of a sibling service) and a \
     validity window (ending before 2020 / starting after 2300 / spanning both / in 2020..2100; granularity 0 s .. centuries), \
     validated with check_revocation_*, check_timeframes_* and the combined function in the three StatusCheck modes at instants \
     before / at start / inside / at end / after the window and None; plus status absent, unsupported type, RevocationBitmap2022 \
     type, missing service, non-bitmap service. distinct = (set kind, #services, member, window kind, status form, target relation)",
  );
  let n = ((if args.thorough { 200_000u64 } else { 8_000 }) * scale / 1000 / args.nshards.max(1)).max(6);
  let mut rng = args.rng(606);
  for case_no in 0..n {
    cx.rep.eval();
    // ---- the issuer document
    let did = format!("did:example:c06j{}", rng.below(1_000_000));
    let foreign_did = format!("did:example:c06jforeign{}", rng.below(1_000));
    let k = 1 + rng.usize(4);
    let mut frags: Vec<&str> = FRAGS.to_vec();
    rng.shuffle(&mut frags);
    let mut svcs: Vec<Svc> = Vec::new();
    for f in frags.iter().take(k) {
      let (set, kind) = gen_set(&mut rng, args.thorough || case_no % 16 == 0);
      svcs.push(Svc { id: format!("{did}#{f}"), set, kind });
    }
    let namesake = rng.chance(1, 3);
    if namesake {
      let j = rng.usize(k);
      let frag = svcs[j].id.split('#').nth(1).expect("fragment").to_string();
      let (mut set, kind) = gen_set(&mut rng, false);
      // make the foreign namesake differ where it matters: it holds some non-members of the namesake and lacks a member
      if let Some(m) = member_of(&mut rng, &svcs[j].set) {
        set.remove(&m);
      }
      set.insert(non_member_of(&mut rng, &svcs[j].set, &[]).unwrap_or(7));
      svcs.push(Svc { id: format!("{foreign_did}#{frag}"), set, kind });
    }
    let linked = rng.chance(1, 2);
    let mut order: Vec<usize> = (0..svcs.len()).collect();
    rng.shuffle(&mut order);
    let mut doc = CoreDocument::from_json_value(json!({"id": did})).expect("core document");
    let mut usable = true;
    let linked_at = rng.usize(order.len() + 1);
    for (pos, &j) in order.iter().enumerate() {
      if linked && pos == linked_at {
        let s = Service::from_json_value(json!({"id": format!("{did}#linked"), "type": "LinkedDomains", "serviceEndpoint": "https://example.com/linked"})).expect("linked service");
        doc.insert_service(s).expect("insert linked");
      }
      let set = &svcs[j].set;
      let url = DIDUrl::parse(&svcs[j].id).expect("service id");
      let built = catch(|| {
        let mut b = RevocationBitmap::new();
        for &i in set {
          b.revoke(i);
        }
        b.to_service(url)
      });
      match built {
        Ok(Ok(s)) => {
          // the encode/decode round trip is the business of the main stage: a service the library cannot read back is not probed here
          match catch(|| RevocationBitmap::try_from(&s).map(|_| ())) {
            Ok(Ok(())) => {}
            _ => {
              usable = false;
              break;
            }
          }
          if catch(|| doc.insert_service(s)).map(|r| r.is_ok()).unwrap_or(false) {
            cx.rep.inc("jpt_services");
          } else {
            usable = false;
            break;
          }
        }
        _ => {
          usable = false;
          break;
        }
      }
    }
    if !usable {
      cx.rep.inc("jpt_document_setup_failed");
      continue;
    }
    if linked && linked_at >= order.len() {
      let s = Service::from_json_value(json!({"id": format!("{did}#linked"), "type": "LinkedDomains", "serviceEndpoint": "https://example.com/linked"})).expect("linked service");
      doc.insert_service(s).expect("insert linked");
    }
    cx.rep.inc("jpt_documents");
    let doc_desc = json!({
      "did": did,
      "services_in_order": order.iter().map(|&j| json!({"id": svcs[j].id, "set": preview(&svcs[j].set), "set_kind": svcs[j].kind})).collect::<Vec<_>>(),
      "linked_domains_service": linked,
    });
    let mut cred = base_credential(&did);

    // ---- probes
    let nprobe = 3 + rng.usize(4);
    for _ in 0..nprobe {
      let j = rng.usize(svcs.len());
      let want_member = rng.chance(1, 2);
      let others: Vec<&BTreeSet<u32>> = svcs.iter().enumerate().filter(|(x, _)| *x != j).map(|(_, s)| &s.set).collect();
      let index = if want_member { member_of(&mut rng, &svcs[j].set) } else { non_member_of(&mut rng, &svcs[j].set, &others) };
      let index = match index.or_else(|| non_member_of(&mut rng, &svcs[j].set, &others)) {
        Some(i) => i,
        None => continue,
      };
      let member = svcs[j].set.contains(&index);
      let w = gen_window(&mut rng);
      let end = w.start + w.secs;
      let target_rel = if j >= k { "foreign-namesake" } else if namesake { "has-namesake" } else { "plain" };

      // status forms: library constructor / harness JSON (index as string) / harness JSON (index as number)
      let form = *rng.pick(&["new", "new", "json-string", "json-number"]);
      let status: Status = match form {
        "new" => {
          let id = Url::parse(&svcs[j].id).expect("status id");
          let start = ts(w.start);
          let dur = w.dur;
          match catch(|| RevocationTimeframeStatus::new(Some(start), dur, id, index)) {
            Ok(Ok(s)) => {
              // what the constructor documents: end = start + granularity
              if s.start_validity_timeframe().to_unix() != w.start || s.end_validity_timeframe().to_unix() != end || s.index() != Some(index) {
                cx.rep.violation(
                  "jpt:status-new:fields-differ",
                  &format!("RevocationTimeframeStatus::new(start={}, {}, index={}) holds start={} end={} index={:?}", w.start, w.dur_text, index, s.start_validity_timeframe().to_unix(), s.end_validity_timeframe().to_unix(), s.index()),
                  json!({"start_unix": w.start, "duration": w.dur_text, "index": index}),
                );
                continue;
              }
              s.into()
            }
            Ok(Err(e)) => {
              cx.rep.violation("jpt:status-new:refused", &format!("RevocationTimeframeStatus::new(start={}, {}) refused: {}", w.start, w.dur_text, e), json!({"start_unix": w.start, "duration": w.dur_text}));
              continue;
            }
            Err(p) => {
              cx.panic("status-new", &p, &json!({"start_unix": w.start, "duration": w.dur_text}));
              continue;
            }
          }
        }
        _ => {
          let idx = if form == "json-string" { json!(index.to_string()) } else { json!(index) };
          Status::from_json_value(json!({
            "id": svcs[j].id,
            "type": "RevocationTimeframe2024",
            "startValidityTimeframe": ts(w.start).to_rfc3339(),
            "endValidityTimeframe": ts(end).to_rfc3339(),
            "revocationBitmapIndex": idx,
          }))
          .expect("status json")
        }
      };
      cred.credential_status = Some(status);
      cx.rep.inc("jpt_probes");
      cx.rep.inc(if member { "jpt_probes_member" } else { "jpt_probes_nonmember" });
      cx.rep.distinct("nontrivial", &format!("{}|{}|{}|{}|{}|{}", svcs[j].kind, svcs.len(), member, w.kind, form, target_rel));
      if BOUNDS.contains(&index) {
        cx.rep.inc(if member { "jpt_boundary_index_member" } else { "jpt_boundary_index_nonmember" });
      }
      if target_rel != "plain" {
        cx.rep.inc("jpt_probes_with_namesake");
      }
      let base_case = json!({
        "document": doc_desc,
        "status": {"id": svcs[j].id, "type": "RevocationTimeframe2024", "index": index, "form": form,
                   "start": ts(w.start).to_rfc3339(), "end": ts(end).to_rfc3339(), "granularity": w.dur_text, "window_kind": w.kind},
        "addressed_set": preview(&svcs[j].set), "member": member,
      });
      if cx.rep.want_sample() {
        cx.rep.sample(base_case.clone());
      }

      // instants
      let d1 = 1 + rng.below(3) as i64;
      let d2 = 1 + rng.below(400 * 86_400) as i64;
      let mut instants: Vec<(Option<i64>, Pos)> = vec![
        (Some(w.start - d1), Pos::Before),
        (Some(w.start - d2), Pos::Before),
        (Some(w.start), Pos::AtStart),
        (Some(end), Pos::AtEnd),
        (Some(end + d1), Pos::After),
        (Some(end + d2), Pos::After),
      ];
      if w.secs >= 2 {
        instants.push((Some(w.start + 1), Pos::Inside));
        instants.push((Some(end - 1), Pos::Inside));
        instants.push((Some(w.start + 1 + rng.below((w.secs - 1) as u64) as i64), Pos::Inside));
      }
      let now_pos = if end < NOW_LO {
        Pos::After
      } else if w.start > NOW_HI {
        Pos::Before
      } else if w.start < NOW_LO && end > NOW_HI {
        Pos::Inside
      } else {
        Pos::Unknown
      };
      instants.push((None, now_pos));

      for (mode, mname) in MODES {
        // -- revocation only
        let case = {
          let mut c = base_case.clone();
          c["mode"] = json!(mname);
          c
        };
        match catch(|| JptCredentialValidatorUtils::check_revocation_with_validity_timeframe_2024(&cred, &doc, mode)) {
          Err(p) => cx.panic("check_revocation", &p, &case),
          Ok(r) => {
            if form == "json-number" && matches!(r, Err(JwtValidationError::InvalidStatus(_))) {
              cx.rep.inc("jpt_number_index_refused");
            } else if mode == StatusCheck::SkipAll {
              match r {
                Ok(()) => cx.rep.inc("jpt_skipall"),
                Err(e) => cx.rep.violation("jpt:check_revocation:skipall-not-ok", &format!("check_revocation_with_validity_timeframe_2024(SkipAll) = {}", err_name(&e)), case.clone()),
              }
            } else {
              cx.judge_revocation(r, member, mname, &case, index, &svcs[j].set);
            }
          }
        }
        // -- timeframes only and combined
        for &(inst, pos) in &instants {
          let q = inst.map(ts);
          let mut case = case.clone();
          case["validity_timeframe"] = json!(q.map(|t| t.to_rfc3339()));
          case["instant_position"] = json!(pos.name());
          match catch(|| JptCredentialValidatorUtils::check_timeframes_with_validity_timeframe_2024(&cred, q, mode)) {
            Err(p) => cx.panic("check_timeframes", &p, &case),
            Ok(r) => {
              if form == "json-number" && matches!(r, Err(JwtValidationError::InvalidStatus(_))) {
                cx.rep.inc("jpt_number_index_refused");
              } else if mode == StatusCheck::SkipAll {
                match r {
                  Ok(()) => cx.rep.inc("jpt_skipall"),
                  Err(e) => cx.rep.violation("jpt:check_timeframes:skipall-not-ok", &format!("check_timeframes_with_validity_timeframe_2024(SkipAll) = {}", err_name(&e)), case.clone()),
                }
              } else {
                cx.judge_timeframe("check_timeframes", &r, pos, mname, &case);
              }
            }
          }
          match catch(|| JptCredentialValidatorUtils::check_timeframes_and_revocation_with_validity_timeframe_2024(&cred, &doc, q, mode)) {
            Err(p) => cx.panic("combined", &p, &case),
            Ok(r) => {
              if form == "json-number" && matches!(r, Err(JwtValidationError::InvalidStatus(_))) {
                cx.rep.inc("jpt_number_index_refused");
              } else if mode == StatusCheck::SkipAll {
                match r {
                  Ok(()) => cx.rep.inc("jpt_skipall"),
                  Err(e) => cx.rep.violation("jpt:combined:skipall-not-ok", &format!("check_timeframes_and_revocation_with_validity_timeframe_2024(SkipAll) = {}", err_name(&e)), case.clone()),
                }
              } else if member {
                match &r {
                  Err(JwtValidationError::Revoked) => {
                    cx.rep.inc("jpt_combined_revoked_reported");
                    match pos {
                      Pos::Before | Pos::After => cx.rep.inc("jpt_combined_revoked_outside_window"),
                      Pos::Inside => cx.rep.inc("jpt_combined_member_inside_window"),
                      _ => cx.rep.inc("jpt_combined_revoked_other_instant"),
                    }
                  }
                  Ok(()) => cx.rep.violation(
                    "jpt:combined:member-accepted",
                    &format!("index {} is a member of {} but check_timeframes_and_revocation_with_validity_timeframe_2024({}, instant {} the window) = Ok", index, preview(&svcs[j].set), mname, pos.name()),
                    case.clone(),
                  ),
                  Err(e) => cx.rep.violation(
                    "jpt:combined:member-not-reported-revoked",
                    &format!("index {} is a member of {} but check_timeframes_and_revocation_with_validity_timeframe_2024({}, instant {} the window) = {} instead of Revoked", index, preview(&svcs[j].set), mname, pos.name(), err_name(e)),
                    case.clone(),
                  ),
                }
              } else if matches!(r, Err(JwtValidationError::Revoked)) {
                cx.rep.violation(
                  "jpt:combined:nonmember-revoked",
                  &format!("index {} is not a member of {} but check_timeframes_and_revocation_with_validity_timeframe_2024({}) = Revoked", index, preview(&svcs[j].set), mname),
                  case.clone(),
                );
              } else {
                cx.rep.inc("jpt_combined_nonmember_checks");
                cx.judge_timeframe("combined", &r, pos, mname, &case);
              }
            }
          }
        }
      }
    }

    // ---- side scenarios on the same document (one of them per case)
    let j = rng.usize(k);
    let w = gen_window(&mut rng);
    let end = w.start + w.secs;
    let inside = if w.secs >= 2 { Some(ts(w.start + 1)) } else { None };
    let outside = Some(ts(end + 5));
    let member_idx = member_of(&mut rng, &svcs[j].set);
    let idx = if rng.bool() { member_idx } else { None }.or_else(|| non_member_of(&mut rng, &svcs[j].set, &[])).unwrap_or(3);
    let is_member = svcs[j].set.contains(&idx);
    let timeframe_json = |id: &str, ty: &str| {
      json!({"id": id, "type": ty, "startValidityTimeframe": ts(w.start).to_rfc3339(), "endValidityTimeframe": ts(end).to_rfc3339(), "revocationBitmapIndex": idx.to_string()})
    };
    let scenario = *rng.pick(&["absent", "other-type", "bitmap2022-type", "service-missing", "non-bitmap-service"]);
    let status_json: Option<Value> = match scenario {
      "absent" => None,
      "other-type" => Some(timeframe_json(&svcs[j].id, *rng.pick(&["StatusList2021Entry", "RevocationTimeframe2025", "revocationtimeframe2024", "RevocationTimeframe"]))),
      "bitmap2022-type" => Some(json!({"id": format!("{}?index={}", svcs[j].id, idx), "type": "RevocationBitmap2022", "revocationBitmapIndex": idx.to_string()})),
      "service-missing" => {
        let id = match rng.below(3) {
          0 => format!("{did}#absent"),
          // the fragment exists, but on another DID that has no service in this document
          1 => format!("did:example:c06jnobody#{}", svcs[j].id.split('#').nth(1).expect("fragment")),
          _ => format!("{}x", svcs[j].id),
        };
        Some(timeframe_json(&id, "RevocationTimeframe2024"))
      }
      _ => {
        if !linked {
          None
        } else {
          Some(timeframe_json(&format!("{did}#linked"), "RevocationTimeframe2024"))
        }
      }
    };
    let scenario = if status_json.is_none() { "absent" } else { scenario };
    cred.credential_status = status_json.as_ref().map(|v| Status::from_json_value(v.clone()).expect("status json"));
    let case0 = json!({"document": doc_desc, "scenario": scenario, "status": status_json, "index": idx, "member_of_named_service": is_member});
    for (mode, mname) in MODES {
      for q in [inside, outside, None] {
        let mut case = case0.clone();
        case["mode"] = json!(mname);
        case["validity_timeframe"] = json!(q.map(|t| t.to_rfc3339()));
        let results: Vec<(&str, Result<Result<(), JwtValidationError>, vh::panicmon::PanicRec>)> = vec![
          ("check_revocation", catch(|| JptCredentialValidatorUtils::check_revocation_with_validity_timeframe_2024(&cred, &doc, mode))),
          ("check_timeframes", catch(|| JptCredentialValidatorUtils::check_timeframes_with_validity_timeframe_2024(&cred, q, mode))),
          ("combined", catch(|| JptCredentialValidatorUtils::check_timeframes_and_revocation_with_validity_timeframe_2024(&cred, &doc, q, mode))),
        ];
        for (f, r) in results {
          let r = match r {
            Err(p) => {
              cx.panic(f, &p, &case);
              continue;
            }
            Ok(r) => r,
          };
          let consults_bitmap = f != "check_timeframes";
          match scenario {
            "absent" => match r {
              Ok(()) => cx.rep.inc("jpt_status_absent_ok"),
              Err(e) => cx.rep.violation(&format!("jpt:{f}:absent-status-not-ok"), &format!("{f}({mname}) on a credential without credentialStatus = {}", err_name(&e)), case.clone()),
            },
            _ if mode == StatusCheck::SkipAll => match r {
              Ok(()) => cx.rep.inc("jpt_skipall"),
              Err(e) => cx.rep.violation(&format!("jpt:{f}:skipall-not-ok"), &format!("{f}(SkipAll) = {} ({scenario})", err_name(&e)), case.clone()),
            },
            "other-type" => match (mode, &r) {
              (StatusCheck::SkipUnsupported, Ok(())) => cx.rep.inc("jpt_unsupported_skipped"),
              (StatusCheck::Strict, Err(JwtValidationError::Revoked)) | (StatusCheck::Strict, Err(JwtValidationError::OutsideTimeframe)) => cx.rep.violation(
                &format!("jpt:{f}:unsupported-type-evaluated"),
                &format!("{f}(Strict) evaluated a status of unsupported type {}: {}", status_json.as_ref().map(|v| v["type"].to_string()).unwrap_or_default(), res_text(&r)),
                case.clone(),
              ),
              (StatusCheck::Strict, Err(_)) => cx.rep.inc("jpt_unsupported_rejected_strict"),
              (StatusCheck::Strict, Ok(())) => cx.rep.violation(&format!("jpt:{f}:unsupported-type-accepted-strict"), &format!("{f}(Strict) accepted a status of unsupported type {}", status_json.as_ref().map(|v| v["type"].to_string()).unwrap_or_default()), case.clone()),
              (_, Err(e)) => cx.rep.violation(&format!("jpt:{f}:unsupported-type-not-skipped"), &format!("{f}(SkipUnsupported) on a status of unsupported type = {}", err_name(e)), case.clone()),
              _ => {}
            },
            "bitmap2022-type" => {
              // "Only supports RevocationTimeframe2024": how this type is treated is left to the library, but a non-member must not be reported revoked
              if matches!(r, Err(JwtValidationError::Revoked)) && !is_member {
                cx.rep.violation(&format!("jpt:{f}:nonmember-revoked"), &format!("{f}({mname}): RevocationBitmap2022-typed status with non-member index {} reported Revoked", idx), case.clone());
              } else {
                cx.rep.inc("jpt_bitmap2022_type_observed");
              }
            }
            _ => {
              // no bitmap service is addressed: the index is a member of nothing
              if consults_bitmap {
                if matches!(r, Err(JwtValidationError::Revoked)) {
                  cx.rep.violation(&format!("jpt:{f}:revoked-without-service"), &format!("{f}({mname}) reported Revoked although the status addresses no revocation service of the document ({scenario})"), case.clone());
                } else if r.is_err() {
                  cx.rep.inc("jpt_no_service_error");
                } else {
                  cx.rep.inc("jpt_no_service_ok");
                }
              } else {
                let pos = match q {
                  Some(t) if t.to_unix() == w.start + 1 => Pos::Inside,
                  Some(_) => Pos::After,
                  None => Pos::Unknown,
                };
                cx.judge_timeframe("check_timeframes", &r, pos, mname, &case);
              }
            }
          }
        }
      }
    }
    cx.rep.inc(&format!("jpt_scenario_{}", scenario.replace('-', "_")));
    if case_no % 64 == 63 {
      cx.rep.progress(case_no);
    }
  }
  cx.rep.finish();
}
