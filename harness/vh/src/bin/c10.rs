//! C10 — Accepted DIDs and DID URLs are canonical, decomposable, free of stray parts.
//! Oracle: the harness's own recogniser of the W3C DID / DID URL ABNF, string re-composition,
//! re-parse round trips after setters/join, and Eq/Ord/Hash coherence on pairs.
use identity_did::{BaseDIDUrl, CoreDID, DIDJwk, DIDUrl, RelativeDIDUrl, DID};
use serde_json::{json, Value};
use std::cmp::Ordering;
use std::collections::hash_map::DefaultHasher;
use std::collections::BTreeMap;
use std::hash::{Hash, Hasher};
use vh::panicmon::{catch, PanicRec};
use vh::{Args, Report, Rng};

// ------------------------------------------------------------------------------------------
// Reference recogniser (W3C DID Core §3.1 / §3.2, RFC 3986 for pchar)
// ------------------------------------------------------------------------------------------

fn is_unreserved(b: u8) -> bool {
  b.is_ascii_alphanumeric() || matches!(b, b'-' | b'.' | b'_' | b'~')
}
fn is_subdelim(b: u8) -> bool {
  matches!(b, b'!' | b'$' | b'&' | b'\'' | b'(' | b')' | b'*' | b'+' | b',' | b';' | b'=')
}
fn is_pchar_nopct(b: u8) -> bool {
  is_unreserved(b) || is_subdelim(b) || b == b':' || b == b'@'
}
fn is_idchar_nopct(b: u8) -> bool {
  b.is_ascii_alphanumeric() || matches!(b, b'.' | b'-' | b'_')
}

/// Scans `s` where every byte must satisfy `pred` or start a `"%" HEXDIG HEXDIG` triple.
/// Returns the class of the first offence.
fn scan(s: &str, pred: impl Fn(u8) -> bool) -> Option<&'static str> {
  let b = s.as_bytes();
  let mut i = 0;
  while i < b.len() {
    if b[i] == b'%' {
      if i + 2 < b.len() && b[i + 1].is_ascii_hexdigit() && b[i + 2].is_ascii_hexdigit() {
        i += 3;
        continue;
      }
      return Some("bad-pct");
    }
    if !pred(b[i]) {
      return Some("bad-char");
    }
    i += 1;
  }
  None
}

fn method_name_ok(s: &str) -> bool {
  !s.is_empty() && s.bytes().all(|b| b.is_ascii_lowercase() || b.is_ascii_digit())
}
/// `method-specific-id = *( *idchar ":" ) 1*idchar`; None = conforms, Some(class) otherwise.
fn method_id_class(s: &str) -> Option<&'static str> {
  if s.is_empty() {
    return Some("empty");
  }
  if let Some(c) = scan(s, |b| is_idchar_nopct(b) || b == b':') {
    return Some(c);
  }
  if s.ends_with(':') {
    return Some("trailing-colon");
  }
  None
}
/// `path-abempty = *( "/" segment )`
fn path_class(s: &str) -> Option<&'static str> {
  if s.is_empty() {
    return None;
  }
  if !s.starts_with('/') {
    return Some("no-leading-slash");
  }
  scan(s, |b| is_pchar_nopct(b) || b == b'/')
}
fn query_class(s: &str) -> Option<&'static str> {
  scan(s, |b| is_pchar_nopct(b) || b == b'/' || b == b'?')
}
fn ref_valid_did(s: &str) -> bool {
  let Some(rest) = s.strip_prefix("did:") else { return false };
  let Some(i) = rest.find(':') else { return false };
  method_name_ok(&rest[..i]) && method_id_class(&rest[i + 1..]).is_none()
}
/// Own split of a DID URL string: (did, path, query, fragment).
fn ref_split(s: &str) -> (&str, &str, Option<&str>, Option<&str>) {
  let (rest, frag) = match s.find('#') {
    Some(i) => (&s[..i], Some(&s[i + 1..])),
    None => (s, None),
  };
  let (rest, query) = match rest.find('?') {
    Some(i) => (&rest[..i], Some(&rest[i + 1..])),
    None => (rest, None),
  };
  let (did, path) = match rest.find('/') {
    Some(i) => (&rest[..i], &rest[i..]),
    None => (rest, ""),
  };
  (did, path, query, frag)
}
fn ref_valid_did_url(s: &str) -> bool {
  let (did, path, q, f) = ref_split(s);
  ref_valid_did(did) && path_class(path).is_none() && q.map_or(true, |q| query_class(q).is_none()) && f.map_or(true, |f| query_class(f).is_none())
}
fn edge_ws(s: &str) -> bool {
  let f = |c: char| c.is_whitespace() || c.is_control();
  s.chars().next().map_or(false, f) || s.chars().last().map_or(false, f)
}

fn hash_of<T: Hash>(t: &T) -> u64 {
  let mut h = DefaultHasher::new();
  t.hash(&mut h);
  h.finish()
}

// ------------------------------------------------------------------------------------------
// Context
// ------------------------------------------------------------------------------------------

struct Ctx {
  rep: Report,
  seen: BTreeMap<String, u64>,
}

/// Snapshot of everything observable on a DIDUrl.
#[derive(Clone, PartialEq, Eq, Debug)]
struct UrlSnap {
  s: String,
  did: String,
  method: String,
  method_id: String,
  authority: String,
  path: Option<String>,
  query: Option<String>,
  fragment: Option<String>,
}

fn snap_url(u: &DIDUrl) -> Result<UrlSnap, PanicRec> {
  catch(|| UrlSnap {
    s: u.to_string(),
    did: u.did().as_str().to_string(),
    method: u.did().method().to_string(),
    method_id: u.did().method_id().to_string(),
    authority: u.did().authority().to_string(),
    path: u.path().map(str::to_string),
    query: u.query().map(str::to_string),
    fragment: u.fragment().map(str::to_string),
  })
}

#[derive(Clone, PartialEq, Eq, Debug)]
struct DidSnap {
  s: String,
  display: String,
  into: String,
  method: String,
  method_id: String,
  authority: String,
  scheme: String,
}

fn snap_did(d: &CoreDID) -> Result<DidSnap, PanicRec> {
  catch(|| DidSnap {
    s: d.as_str().to_string(),
    display: d.to_string(),
    into: d.clone().into_string(),
    method: d.method().to_string(),
    method_id: d.method_id().to_string(),
    authority: d.authority().to_string(),
    scheme: d.scheme().to_string(),
  })
}

impl Ctx {
  /// Violation with a per-signature cap on the (expensive) description/case construction.
  fn viol(&mut self, sig: &str, mk: impl FnOnce() -> (String, Value)) {
    let n = self.seen.entry(sig.to_string()).or_insert(0);
    *n += 1;
    if *n <= 3 {
      let (d, c) = mk();
      self.rep.violation(sig, &d, c);
    } else {
      self.rep.violation(sig, "", Value::Null);
    }
  }
  fn panic(&mut self, op: &str, input: &str, p: &PanicRec) {
    let sig = format!("panic:{}@{}", op, p.file_only());
    let (m, l) = (p.msg.clone(), p.loc());
    self.viol(&sig, || (format!("{} panicked on {:?}: {} at {}", op, input, m, l), json!({"op":op,"input":input,"panic":m,"at":l})));
  }

  /// Oracle (a)-(d) for a value of a plain DID type. `ty` = CoreDID | DIDJwk | DIDUrl (its did part).
  /// `input` = the string that was accepted (None when the value comes from a setter),
  /// `origin` = "" for parse, "@set_method_id" … for values produced by an operation.
  /// Returns true when the value is clean.
  fn check_did(&mut self, ty: &str, origin: &str, input: Option<&str>, d: &CoreDID) -> bool {
    let sn = match snap_did(d) {
      Ok(s) => s,
      Err(p) => {
        self.panic(&format!("{}-accessors{}", ty, origin), input.unwrap_or("<derived>"), &p);
        return false;
      }
    };
    self.rep.inc("oracle_did_checks");
    let tag = format!("{}{}", ty, origin);
    let case = |sn: &DidSnap| json!({"type":ty,"origin":origin,"input":input,"as_str":sn.s,"method":sn.method,"method_id":sn.method_id,"authority":sn.authority});
    if let Some(inp) = input {
      if ty != "DIDUrl" && (sn.s != inp || sn.display != inp || sn.into != inp) {
        self.viol(&format!("string-form-differs:{}", tag), || (format!("{}::parse({:?}) has string form {:?}/{:?}/{:?}", ty, inp, sn.s, sn.display, sn.into), case(&sn)));
        return false;
      }
    }
    if sn.display != sn.s || sn.into != sn.s {
      self.viol(&format!("string-forms-disagree:{}", tag), || (format!("as_str {:?} / Display {:?} / Into<String> {:?} differ", sn.s, sn.display, sn.into), case(&sn)));
      return false;
    }
    if edge_ws(&sn.s) {
      self.viol(&format!("surrounding-whitespace-accepted:{}", tag), || {
        (format!("{} value {:?} carries leading/trailing whitespace or control characters; method()={:?} method_id()={:?}", ty, sn.s, sn.method, sn.method_id), case(&sn))
      });
      return false;
    }
    if sn.s.contains(['/', '?', '#']) {
      self.viol(&format!("url-part-in-plain-did:{}", tag), || {
        (format!("plain DID value {:?} of type {} carries a path, query or fragment (method_id()={:?})", sn.s, ty, sn.method_id), case(&sn))
      });
      return false;
    }
    let recomposed = format!("did:{}:{}", sn.method, sn.method_id);
    if recomposed != sn.s || sn.authority != format!("{}:{}", sn.method, sn.method_id) || sn.scheme != "did" {
      self.viol(&format!("recompose-mismatch:{}", tag), || {
        (format!("did:+method+:+method_id = {:?} (authority {:?}) but string form is {:?}", recomposed, sn.authority, sn.s), case(&sn))
      });
      return false;
    }
    let mut clean = true;
    if !method_name_ok(&sn.method) {
      clean = false;
      let cls = if sn.method.is_empty() { "empty" } else { "bad-char" };
      self.viol(&format!("method-name-not-abnf:{}:{}", cls, tag), || (format!("{:?}: method name {:?} is not 1*(%x61-7A / DIGIT)", sn.s, sn.method), case(&sn)));
    }
    if let Some(cls) = method_id_class(&sn.method_id) {
      clean = false;
      self.viol(&format!("method-id-not-abnf:{}:{}", cls, tag), || {
        (format!("{:?}: method-specific-id {:?} violates `*( *idchar \":\" ) 1*idchar` ({})", sn.s, sn.method_id, cls), case(&sn))
      });
    }
    clean
  }

  /// Oracle (a)-(d) for a DIDUrl. Returns true when clean.
  fn check_url(&mut self, origin: &str, input: Option<&str>, u: &DIDUrl) -> bool {
    let sn = match snap_url(u) {
      Ok(s) => s,
      Err(p) => {
        self.panic(&format!("DIDUrl-accessors{}", origin), input.unwrap_or("<derived>"), &p);
        return false;
      }
    };
    self.rep.inc("oracle_url_checks");
    let tag = format!("DIDUrl{}", origin);
    let case = |sn: &UrlSnap| json!({"type":"DIDUrl","origin":origin,"input":input,"to_string":sn.s,"did":sn.did,"method":sn.method,"method_id":sn.method_id,"path":sn.path,"query":sn.query,"fragment":sn.fragment});
    if edge_ws(&sn.s) || input.map_or(false, edge_ws) {
      self.viol(&format!("surrounding-whitespace-accepted:{}", tag), || {
        (format!("DIDUrl from {:?} has string form {:?} (did part {:?}) with leading/trailing whitespace or control characters", input, sn.s, sn.did), case(&sn))
      });
      return false;
    }
    if let Some(inp) = input {
      if sn.s != inp {
        let (_, _, q, f) = ref_split(inp);
        let cls = if q.map_or(false, |q| q.starts_with('?')) {
          "double-question-mark"
        } else if q == Some("") {
          "empty-query-dropped"
        } else if f == Some("") {
          "empty-fragment-dropped"
        } else {
          "other"
        };
        self.viol(&format!("string-form-differs:{}:{}", cls, tag), || (format!("DIDUrl::parse({:?}).to_string() == {:?}", inp, sn.s), case(&sn)));
        return false;
      }
    }
    let mut re = sn.did.clone();
    re.push_str(sn.path.as_deref().unwrap_or(""));
    if let Some(q) = &sn.query {
      re.push('?');
      re.push_str(q);
    }
    if let Some(f) = &sn.fragment {
      re.push('#');
      re.push_str(f);
    }
    if re != sn.s {
      self.viol(&format!("recompose-mismatch:{}", tag), || (format!("did+path+?query+#fragment = {:?} but string form is {:?}", re, sn.s), case(&sn)));
      return false;
    }
    let mut clean = self.check_did("DIDUrl", origin, None, u.did());
    if let Some(c) = sn.path.as_deref().and_then(path_class) {
      clean = false;
      self.viol(&format!("path-not-abnf:{}:{}", c, tag), || (format!("{:?}: path {:?} is not path-abempty", sn.s, sn.path), case(&sn)));
    }
    if let Some(c) = sn.query.as_deref().and_then(query_class) {
      clean = false;
      self.viol(&format!("query-not-abnf:{}:{}", c, tag), || (format!("{:?}: query {:?} is not *( pchar / \"/\" / \"?\" )", sn.s, sn.query), case(&sn)));
    }
    if let Some(c) = sn.fragment.as_deref().and_then(query_class) {
      clean = false;
      self.viol(&format!("fragment-not-abnf:{}:{}", c, tag), || (format!("{:?}: fragment {:?} is not *( pchar / \"/\" / \"?\" )", sn.s, sn.fragment), case(&sn)));
    }
    clean
  }
}
