//! C10 — Accepted DIDs and DID URLs are canonical, decomposable, free of stray parts.
//! Oracle: the harness's own recogniser of the W3C DID / DID URL ABNF, string re-composition,
//! re-parse round trips after setters/join, and Eq/Ord/Hash coherence on pairs.
use identity_did::{BaseDIDUrl, CoreDID, DIDJwk, DIDUrl, RelativeDIDUrl, DID};
use serde_json::{json, Value};
use std::cmp::Ordering;
use std::collections::hash_map::DefaultHasher;
use std::collections::BTreeMap;
use std::hash::{Hash, Hasher};
use vh::panicmon::{catch, PanicRec};
use vh::{Args, Report, Rng};

// ------------------------------------------------------------------------------------------
// Reference recogniser (W3C DID Core §3.1 / §3.2, RFC 3986 for pchar)
// ------------------------------------------------------------------------------------------

fn is_unreserved(b: u8) -> bool {
  b.is_ascii_alphanumeric() || matches!(b, b'-' | b'.' | b'_' | b'~')
}
fn is_subdelim(b: u8) -> bool {
  matches!(b, b'!' | b'$' | b'&' | b'\'' | b'(' | b')' | b'*' | b'+' | b',' | b';' | b'=')
}
fn is_pchar_nopct(b: u8) -> bool {
  is_unreserved(b) || is_subdelim(b) || b == b':' || b == b'@'
}
fn is_idchar_nopct(b: u8) -> bool {
  b.is_ascii_alphanumeric() || matches!(b, b'.' | b'-' | b'_')
}

/// Scans `s` where every byte must satisfy `pred` or start a `"%" HEXDIG HEXDIG` triple.
/// Returns the class of the first offence.
fn scan(s: &str, pred: impl Fn(u8) -> bool) -> Option<&'static str> {
  let b = s.as_bytes();
  let mut i = 0;
  let mut after_pct = false;
  while i < b.len() {
    if b[i] == b'%' {
      if i + 2 < b.len() && b[i + 1].is_ascii_hexdigit() && b[i + 2].is_ascii_hexdigit() {
        i += 3;
        after_pct = true;
        continue;
      }
      return Some(if after_pct { "after-pct" } else { "bad-pct" });
    }
    if !pred(b[i]) {
      return Some(if after_pct { "after-pct" } else { "bad-char" });
    }
    after_pct = false;
    i += 1;
  }
  None
}

/// true when the first '/', '?' or '#' of `s` directly follows a '%' + two characters group.
fn delim_after_pct(s: &str) -> bool {
  let b = s.as_bytes();
  match b.iter().position(|c| matches!(c, b'/' | b'?' | b'#')) {
    // the parser takes '%' plus any two bytes as an escape and then skips one more character
    Some(i) if i >= 3 => b[i - 3] == b'%',
    _ => false,
  }
}
/// Root-cause class of a printed DID URL that does not survive re-parsing.
fn reparse_class(s: &str) -> &'static str {
  let b = s.as_bytes();
  for i in 0..b.len() {
    if b[i] == b'%' && i + 2 < b.len() && b[i + 1].is_ascii_hexdigit() && b[i + 2].is_ascii_hexdigit() {
      if i + 3 < b.len() && matches!(b[i + 3], b'/' | b'?' | b'#') {
        return "pct-before-delimiter";
      }
    }
  }
  if s.contains("??") {
    return "double-question-mark";
  }
  "other"
}
/// How `out` was derived from `inp` when DIDUrl::parse(inp).to_string() == out != inp.
fn differs_class(inp: &str, out: &str) -> String {
  let t_dq = |x: &str| x.replacen("??", "?", 1);
  let t_eq = |x: &str| {
    if let Some(i) = x.find("?#") {
      format!("{}{}", &x[..i], &x[i + 1..])
    } else if let Some(y) = x.strip_suffix('?') {
      y.to_string()
    } else {
      x.to_string()
    }
  };
  let t_ef = |x: &str| x.strip_suffix('#').unwrap_or(x).to_string();
  for mask in 1u8..8 {
    let mut x = inp.to_string();
    let mut names = Vec::new();
    if mask & 1 != 0 {
      x = t_dq(&x);
      names.push("double-question-mark");
    }
    if mask & 4 != 0 {
      x = t_ef(&x);
      names.push("empty-fragment-dropped");
    }
    if mask & 2 != 0 {
      x = t_eq(&x);
      names.push("empty-query-dropped");
    }
    if x == out {
      return names.join("+");
    }
  }
  "other".to_string()
}

fn method_name_ok(s: &str) -> bool {
  !s.is_empty() && s.bytes().all(|b| b.is_ascii_lowercase() || b.is_ascii_digit())
}
/// `method-specific-id = *( *idchar ":" ) 1*idchar`; None = conforms, Some(class) otherwise.
fn method_id_class(s: &str) -> Option<&'static str> {
  if s.is_empty() {
    return Some("empty");
  }
  if let Some(c) = scan(s, |b| is_idchar_nopct(b) || b == b':') {
    return Some(c);
  }
  if s.ends_with(':') {
    return Some("trailing-colon");
  }
  None
}
/// `path-abempty = *( "/" segment )`
fn path_class(s: &str) -> Option<&'static str> {
  if s.is_empty() {
    return None;
  }
  if !s.starts_with('/') {
    return Some("no-leading-slash");
  }
  scan(s, |b| is_pchar_nopct(b) || b == b'/')
}
fn query_class(s: &str) -> Option<&'static str> {
  scan(s, |b| is_pchar_nopct(b) || b == b'/' || b == b'?')
}
fn ref_valid_did(s: &str) -> bool {
  let Some(rest) = s.strip_prefix("did:") else { return false };
  let Some(i) = rest.find(':') else { return false };
  method_name_ok(&rest[..i]) && method_id_class(&rest[i + 1..]).is_none()
}
/// Own split of a DID URL string: (did, path, query, fragment).
fn ref_split(s: &str) -> (&str, &str, Option<&str>, Option<&str>) {
  let (rest, frag) = match s.find('#') {
    Some(i) => (&s[..i], Some(&s[i + 1..])),
    None => (s, None),
  };
  let (rest, query) = match rest.find('?') {
    Some(i) => (&rest[..i], Some(&rest[i + 1..])),
    None => (rest, None),
  };
  let (did, path) = match rest.find('/') {
    Some(i) => (&rest[..i], &rest[i..]),
    None => (rest, ""),
  };
  (did, path, query, frag)
}
fn ref_valid_did_url(s: &str) -> bool {
  let (did, path, q, f) = ref_split(s);
  ref_valid_did(did) && path_class(path).is_none() && q.map_or(true, |q| query_class(q).is_none()) && f.map_or(true, |f| query_class(f).is_none())
}
fn edge_ws(s: &str) -> bool {
  let f = |c: char| c.is_whitespace() || c.is_control();
  s.chars().next().map_or(false, f) || s.chars().last().map_or(false, f)
}

fn hash_of<T: Hash>(t: &T) -> u64 {
  let mut h = DefaultHasher::new();
  t.hash(&mut h);
  h.finish()
}

// ------------------------------------------------------------------------------------------
// Context
// ------------------------------------------------------------------------------------------

struct Ctx {
  rep: Report,
  seen: BTreeMap<String, u64>,
}

/// Snapshot of everything observable on a DIDUrl.
#[derive(Clone, PartialEq, Eq, Debug)]
struct UrlSnap {
  s: String,
  did: String,
  method: String,
  method_id: String,
  authority: String,
  path: Option<String>,
  query: Option<String>,
  fragment: Option<String>,
}

fn snap_url(u: &DIDUrl) -> Result<UrlSnap, PanicRec> {
  catch(|| UrlSnap {
    s: u.to_string(),
    did: u.did().as_str().to_string(),
    method: u.did().method().to_string(),
    method_id: u.did().method_id().to_string(),
    authority: u.did().authority().to_string(),
    path: u.path().map(str::to_string),
    query: u.query().map(str::to_string),
    fragment: u.fragment().map(str::to_string),
  })
}

#[derive(Clone, PartialEq, Eq, Debug)]
struct DidSnap {
  s: String,
  display: String,
  into: String,
  method: String,
  method_id: String,
  authority: String,
  scheme: String,
}

fn snap_did(d: &CoreDID) -> Result<DidSnap, PanicRec> {
  catch(|| DidSnap {
    s: d.as_str().to_string(),
    display: d.to_string(),
    into: d.clone().into_string(),
    method: d.method().to_string(),
    method_id: d.method_id().to_string(),
    authority: d.authority().to_string(),
    scheme: d.scheme().to_string(),
  })
}

/// Library decomposition of `u` equals the harness's own split of the valid DID URL `s`.
fn url_matches_ref(u: &DIDUrl, s: &str) -> bool {
  let Ok(sn) = snap_url(u) else { return false };
  let (did, path, q, f) = ref_split(s);
  sn.s == s
    && sn.did == did
    && format!("did:{}:{}", sn.method, sn.method_id) == did
    && sn.path.as_deref().unwrap_or("") == path
    && sn.query.as_deref() == q
    && sn.fragment.as_deref() == f
}

impl Ctx {
  /// Violation with a per-signature cap on the (expensive) description/case construction.
  fn viol(&mut self, sig: &str, mk: impl FnOnce() -> (String, Value)) {
    let n = self.seen.entry(sig.to_string()).or_insert(0);
    *n += 1;
    if *n <= 3 {
      let (d, c) = mk();
      self.rep.violation(sig, &d, c);
    } else {
      self.rep.violation(sig, "", Value::Null);
    }
  }
  fn panic(&mut self, op: &str, input: &str, p: &PanicRec) {
    let class = if op.contains("::set_") {
      "set"
    } else if op.contains("join") {
      "join"
    } else if op.contains("accessors") || op.contains("serialize") || op.contains("hash") || op.contains("eq/cmp") || op.contains("->") {
      "access"
    } else if op.contains("::jwk") {
      "jwk"
    } else if op.starts_with("pool") {
      "pool"
    } else {
      "parse"
    };
    let sig = format!("panic:{}@{}", class, p.file_only());
    let (m, l) = (p.msg.clone(), p.loc());
    self.viol(&sig, || (format!("{} panicked on {:?}: {} at {}", op, input, m, l), json!({"op":op,"input":input,"panic":m,"at":l})));
  }

  /// Oracle (a)-(d) for a value of a plain DID type. `ty` = CoreDID | DIDJwk | DIDUrl (its did part).
  /// `input` = the string that was accepted (None when the value comes from a setter),
  /// `origin` = "" for parse, "@set_method_id" … for values produced by an operation.
  /// Returns true when the value is clean.
  fn check_did(&mut self, ty: &str, origin: &str, input: Option<&str>, d: &CoreDID) -> bool {
    let sn = match snap_did(d) {
      Ok(s) => s,
      Err(p) => {
        self.panic(&format!("{}-accessors{}", ty, origin), input.unwrap_or("<derived>"), &p);
        return false;
      }
    };
    self.rep.inc("oracle_did_checks");
    let tag = format!("{}{}", ty, origin);
    let case = |sn: &DidSnap| json!({"type":ty,"origin":origin,"input":input,"as_str":sn.s,"method":sn.method,"method_id":sn.method_id,"authority":sn.authority});
    if let Some(inp) = input {
      if ty != "DIDUrl" && (sn.s != inp || sn.display != inp || sn.into != inp) {
        self.viol(&format!("string-form-differs:{}", tag), || (format!("{}::parse({:?}) has string form {:?}/{:?}/{:?}", ty, inp, sn.s, sn.display, sn.into), case(&sn)));
        return false;
      }
    }
    if sn.display != sn.s || sn.into != sn.s {
      self.viol(&format!("string-forms-disagree:{}", tag), || (format!("as_str {:?} / Display {:?} / Into<String> {:?} differ", sn.s, sn.display, sn.into), case(&sn)));
      return false;
    }
    if edge_ws(&sn.s) {
      self.viol(&format!("surrounding-whitespace-accepted:{}", tag), || {
        (format!("{} value {:?} carries leading/trailing whitespace or control characters; method()={:?} method_id()={:?}", ty, sn.s, sn.method, sn.method_id), case(&sn))
      });
      return false;
    }
    if sn.s.contains(['/', '?', '#']) {
      let sub = if delim_after_pct(&sn.s) { "after-pct:" } else { "" };
      self.viol(&format!("url-part-in-plain-did:{}{}", sub, tag), || {
        (format!("plain DID value {:?} of type {} carries a path, query or fragment (method_id()={:?})", sn.s, ty, sn.method_id), case(&sn))
      });
      return false;
    }
    let recomposed = format!("did:{}:{}", sn.method, sn.method_id);
    if recomposed != sn.s || sn.authority != format!("{}:{}", sn.method, sn.method_id) || sn.scheme != "did" {
      self.viol(&format!("recompose-mismatch:{}", tag), || {
        (format!("did:+method+:+method_id = {:?} (authority {:?}) but string form is {:?}", recomposed, sn.authority, sn.s), case(&sn))
      });
      return false;
    }
    let mut clean = true;
    if !method_name_ok(&sn.method) {
      clean = false;
      let cls = if sn.method.is_empty() { "empty" } else { "bad-char" };
      self.viol(&format!("method-name-not-abnf:{}:{}", cls, tag), || (format!("{:?}: method name {:?} is not 1*(%x61-7A / DIGIT)", sn.s, sn.method), case(&sn)));
    }
    if let Some(mut cls) = method_id_class(&sn.method_id) {
      clean = false;
      if cls == "after-pct" && origin.starts_with("@set_") {
        // the setters validate with CoreDID::valid_method_id, not with the parser that skips a character after an escape
        cls = method_id_class(sn.method_id.rsplit_once('%').map(|(_, t)| t).map(|t| &sn.method_id[sn.method_id.len() - t.len() - 1..]).unwrap_or("")).filter(|c| *c != "after-pct").unwrap_or("bad-char");
      }
      self.viol(&format!("method-id-not-abnf:{}:{}", cls, tag), || {
        (format!("{:?}: method-specific-id {:?} violates `*( *idchar \":\" ) 1*idchar` ({})", sn.s, sn.method_id, cls), case(&sn))
      });
    }
    clean
  }

  /// Oracle (a)-(d) for a DIDUrl. Returns true when clean.
  fn check_url(&mut self, origin: &str, input: Option<&str>, u: &DIDUrl) -> bool {
    let sn = match snap_url(u) {
      Ok(s) => s,
      Err(p) => {
        self.panic(&format!("DIDUrl-accessors{}", origin), input.unwrap_or("<derived>"), &p);
        return false;
      }
    };
    self.rep.inc("oracle_url_checks");
    let tag = format!("DIDUrl{}", origin);
    let case = |sn: &UrlSnap| json!({"type":"DIDUrl","origin":origin,"input":input,"to_string":sn.s,"did":sn.did,"method":sn.method,"method_id":sn.method_id,"path":sn.path,"query":sn.query,"fragment":sn.fragment});
    if edge_ws(&sn.s) || input.map_or(false, edge_ws) {
      self.viol(&format!("surrounding-whitespace-accepted:{}", tag), || {
        (format!("DIDUrl from {:?} has string form {:?} (did part {:?}) with leading/trailing whitespace or control characters", input, sn.s, sn.did), case(&sn))
      });
      return false;
    }
    if let Some(inp) = input {
      if sn.s != inp {
        let cls = differs_class(inp, &sn.s);
        self.viol(&format!("string-form-differs:{}:{}", cls, tag), || (format!("DIDUrl::parse({:?}).to_string() == {:?}", inp, sn.s), case(&sn)));
        return false;
      }
    }
    let mut re = sn.did.clone();
    re.push_str(sn.path.as_deref().unwrap_or(""));
    if let Some(q) = &sn.query {
      re.push('?');
      re.push_str(q);
    }
    if let Some(f) = &sn.fragment {
      re.push('#');
      re.push_str(f);
    }
    if re != sn.s {
      self.viol(&format!("recompose-mismatch:{}", tag), || (format!("did+path+?query+#fragment = {:?} but string form is {:?}", re, sn.s), case(&sn)));
      return false;
    }
    let mut clean = self.check_did("DIDUrl", origin, None, u.did());
    if let Some(c) = sn.path.as_deref().and_then(path_class) {
      clean = false;
      self.viol(&format!("path-not-abnf:{}:{}", c, tag), || (format!("{:?}: path {:?} is not path-abempty", sn.s, sn.path), case(&sn)));
    }
    if let Some(c) = sn.query.as_deref().and_then(query_class) {
      clean = false;
      self.viol(&format!("query-not-abnf:{}:{}", c, tag), || (format!("{:?}: query {:?} is not *( pchar / \"/\" / \"?\" )", sn.s, sn.query), case(&sn)));
    }
    if let Some(c) = sn.fragment.as_deref().and_then(query_class) {
      clean = false;
      self.viol(&format!("fragment-not-abnf:{}:{}", c, tag), || (format!("{:?}: fragment {:?} is not *( pchar / \"/\" / \"?\" )", sn.s, sn.fragment), case(&sn)));
    }
    clean
  }
}

// ------------------------------------------------------------------------------------------
// Cases
// ------------------------------------------------------------------------------------------

fn shape(s: &str) -> String {
  let mut out = String::new();
  let mut last = '\0';
  for c in s.chars() {
    let k = match c {
      'a'..='z' | 'A'..='Z' | '0'..='9' => 'x',
      '.' | '-' | '_' | '~' => '.',
      ':' | '%' | '/' | '?' | '#' => c,
      c if c.is_whitespace() || c.is_control() => '_',
      c if c.is_ascii() => '!',
      _ => 'u',
    };
    if k == 'x' && last == 'x' {
      continue;
    }
    last = k;
    out.push(k);
    if out.len() >= 5 {
      break;
    }
  }
  out
}

impl Ctx {
  /// One input string through every construction path of CoreDID and DIDUrl.
  fn case_string(&mut self, fam: &str, s: &str) {
    self.rep.eval();
    let rv_did = ref_valid_did(s);
    let rv_url = ref_valid_did_url(s);
    if rv_did {
      self.rep.inc("ref_valid_did");
    }
    if rv_url {
      self.rep.inc("ref_valid_did_url");
    }

    // ---- CoreDID
    let mut core_ok = false;
    let mut core_clean: Option<CoreDID> = None;
    let main = match catch(|| CoreDID::parse(s)) {
      Err(p) => {
        self.panic("CoreDID::parse", s, &p);
        None
      }
      Ok(Err(_)) => {
        self.rep.inc("core_rejected");
        if rv_did {
          self.rep.inc("core_rejected_ref_valid");
        }
        None
      }
      Ok(Ok(d)) => {
        self.rep.inc("core_accepted");
        core_ok = true;
        if self.check_did("CoreDID", "", Some(s), &d) {
          self.rep.inc("core_accepted_clean");
          match catch(|| serde_json::to_value(&d)) {
            Ok(Ok(Value::String(j))) if j == s => {}
            Ok(other) => self.viol("serde-form-differs:CoreDID", || (format!("serialising CoreDID {:?} gives {:?}", s, other.map_err(|e| e.to_string())), json!({"input":s}))),
            Err(p) => self.panic("CoreDID-serialize", s, &p),
          }
          core_clean = Some(d.clone());
        }
        Some(d)
      }
    };
    type Alt<T> = (&'static str, fn(&str) -> Result<T, String>);
    let alts: [Alt<CoreDID>; 4] = [
      ("from_str", |s| s.parse::<CoreDID>().map_err(|e| e.to_string())),
      ("try_from_str", |s| CoreDID::try_from(s).map_err(|e| e.to_string())),
      ("try_from_string", |s| CoreDID::try_from(s.to_string()).map_err(|e| e.to_string())),
      ("serde", |s| serde_json::from_value::<CoreDID>(Value::String(s.to_string())).map_err(|e| e.to_string())),
    ];
    for (name, f) in &alts {
      match catch(|| f(s)) {
        Err(p) => self.panic(&format!("CoreDID::{}", name), s, &p),
        Ok(Err(_)) => {
          if main.is_some() {
            self.rep.inc("entry_points_disagree");
          }
        }
        Ok(Ok(v)) => {
          let same = main.as_ref().map_or(false, |m| catch(|| *m == v && m.as_str() == v.as_str()).unwrap_or(false));
          if !same {
            self.rep.inc("entry_points_disagree");
            self.check_did("CoreDID", &format!("@{}", name), Some(s), &v);
          }
        }
      }
    }

    // TryFrom<BaseDIDUrl>: building the BaseDIDUrl is the caller's own use of the third-party parser (re-exported
    // as identity_did::BaseDIDUrl); only the conversion is the library call under test.
    match catch(|| BaseDIDUrl::parse(s)) {
      Err(_) => self.rep.inc("base_parser_panicked"),
      Ok(Err(_)) => {}
      Ok(Ok(b)) => match catch(|| CoreDID::try_from(b)) {
        Err(p) => self.panic("CoreDID::try_from_base", s, &p),
        Ok(Err(_)) => {
          if main.is_some() {
            self.rep.inc("entry_points_disagree");
          }
        }
        Ok(Ok(v)) => {
          let same = main.as_ref().map_or(false, |m| catch(|| *m == v && m.as_str() == v.as_str()).unwrap_or(false));
          if !same {
            self.rep.inc("entry_points_disagree");
            self.check_did("CoreDID", "@try_from_base", Some(s), &v);
          }
        }
      },
    }

    // ---- DIDUrl
    let mut url_ok = false;
    let umain = match catch(|| DIDUrl::parse(s)) {
      Err(p) => {
        self.panic("DIDUrl::parse", s, &p);
        None
      }
      Ok(Err(_)) => {
        self.rep.inc("url_rejected");
        if rv_url {
          self.rep.inc("url_rejected_ref_valid");
        }
        None
      }
      Ok(Ok(u)) => {
        self.rep.inc("url_accepted");
        url_ok = true;
        if self.check_url("", Some(s), &u) {
          self.rep.inc("url_accepted_clean");
          match catch(|| serde_json::to_value(&u)) {
            Ok(Ok(Value::String(j))) if j == s => {}
            Ok(other) => self.viol("serde-form-differs:DIDUrl", || (format!("serialising DIDUrl {:?} gives {:?}", s, other.map_err(|e| e.to_string())), json!({"input":s}))),
            Err(p) => self.panic("DIDUrl-serialize", s, &p),
          }
          if self.rep.want_sample() && s.contains('?') && s.contains('/') {
            self.rep.sample(json!({"input":s,"accepted_as":"DIDUrl","path":u.path(),"query":u.query(),"fragment":u.fragment()}));
          }
        }
        Some(u)
      }
    };
    let ualts: [Alt<DIDUrl>; 3] = [
      ("from_str", |s| s.parse::<DIDUrl>().map_err(|e| e.to_string())),
      ("try_from_string", |s| DIDUrl::try_from(s.to_string()).map_err(|e| e.to_string())),
      ("serde", |s| serde_json::from_value::<DIDUrl>(Value::String(s.to_string())).map_err(|e| e.to_string())),
    ];
    for (name, f) in &ualts {
      match catch(|| f(s)) {
        Err(p) => self.panic(&format!("DIDUrl::{}", name), s, &p),
        Ok(Err(_)) => {
          if umain.is_some() {
            self.rep.inc("entry_points_disagree");
          }
        }
        Ok(Ok(v)) => {
          let same = umain.as_ref().map_or(false, |m| catch(|| *m == v && m.to_string() == v.to_string()).unwrap_or(false));
          if !same {
            self.rep.inc("entry_points_disagree");
            self.check_url(&format!("@{}", name), Some(s), &v);
          }
        }
      }
    }
    // ---- conversions CoreDID -> DIDUrl of a clean DID must give a clean DIDUrl with the same string
    if let Some(d) = core_clean {
      match catch(|| (DIDUrl::from(d.clone()), d.to_url(), d.clone().into_url(), DIDUrl::new(d.clone(), None))) {
        Err(p) => self.panic("CoreDID->DIDUrl", s, &p),
        Ok((a, b, c, e)) => {
          for (nm, u) in [("from", &a), ("to_url", &b), ("into_url", &c), ("new", &e)] {
            let ok = self.check_url("@from_core", None, u);
            let st = catch(|| u.to_string()).unwrap_or_default();
            if ok && st != s {
              self.viol("didurl-from-did-string-differs", || (format!("DIDUrl::{}({:?}).to_string() == {:?}", nm, s, st), json!({"input":s,"route":nm,"to_string":st})));
            }
          }
        }
      }
    }
    if core_ok || url_ok {
      self.rep.distinct("nontrivial", &format!("str|{}|{}|{}|{}|{}|{}", fam, core_ok as u8, url_ok as u8, rv_did as u8, rv_url as u8, shape(s)));
    }
  }

  /// A base value is usable only if the library decomposes it exactly like the reference split
  /// (anything else has already been reported by `case_string` on the same string).
  fn clean_url(&mut self, s: &str) -> Option<DIDUrl> {
    if ref_valid_did_url(s) {
      if let Ok(Ok(u)) = catch(|| DIDUrl::parse(s)) {
        if url_matches_ref(&u, s) {
          return Some(u);
        }
      }
    }
    self.rep.inc("base_unusable");
    None
  }
  fn clean_did(&mut self, s: &str) -> Option<CoreDID> {
    if ref_valid_did(s) {
      if let Ok(Ok(d)) = catch(|| CoreDID::parse(s)) {
        if snap_did(&d).map_or(false, |sn| sn.s == s && format!("did:{}:{}", sn.method, sn.method_id) == s) {
          return Some(d);
        }
      }
    }
    self.rep.inc("base_unusable");
    None
  }

  /// Re-parse law for a DIDUrl produced by an operation.
  fn reparse_url(&mut self, op: &str, u: &DIDUrl, after: &UrlSnap, ctx: Value) {
    self.rep.inc("reparse_checks");
    match catch(|| DIDUrl::parse(&after.s)) {
      Err(p) => self.panic("DIDUrl::parse", &after.s, &p),
      Ok(Err(e)) => self.viol(&format!("{}-ok-not-reparsable:{}", op, reparse_class(&after.s)), || (format!("{} succeeded, value prints as {:?} which DIDUrl::parse rejects ({})", op, after.s, e), ctx)),
      Ok(Ok(v)) => {
        let vs = snap_url(&v).ok();
        let eq = catch(|| v == *u).unwrap_or(false);
        if vs.as_ref() != Some(after) || !eq {
          let cls = vs.as_ref().map_or("other".to_string(), |x| differs_class(&after.s, &x.s));
          self.viol(&format!("{}-ok-reparses-different:{}", op, cls), || {
            (format!("{} succeeded, value prints as {:?} but re-parsing that gives {:?} (==: {})", op, after.s, vs.map(|x| x.s), eq), ctx)
          });
        }
      }
    }
  }

  /// which: 0 set_path, 1 set_query, 2 set_fragment
  fn url_setter_case(&mut self, base: &str, which: u8, seg: Option<&str>) {
    let Some(mut u) = self.clean_url(base) else { return };
    self.rep.eval();
    let op = ["set_path", "set_query", "set_fragment"][which as usize];
    let Ok(before) = snap_url(&u) else { return };
    let r = catch(|| match which {
      0 => u.set_path(seg),
      1 => u.set_query(seg),
      _ => u.set_fragment(seg),
    });
    let ctx = json!({"base":base,"op":op,"arg":seg});
    let r = match r {
      Ok(r) => r,
      Err(p) => {
        self.panic(&format!("DIDUrl::{}", op), &format!("{} <- {:?}", base, seg), &p);
        return;
      }
    };
    let after = match snap_url(&u) {
      Ok(a) => a,
      Err(p) => {
        self.panic(&format!("DIDUrl-accessors@{}", op), &format!("{} <- {:?}", base, seg), &p);
        return;
      }
    };
    let segcls = match seg {
      None => "none",
      Some("") => "empty",
      Some(x) if x.starts_with(['/', '?', '#']) => "delim",
      Some(_) => "plain",
    };
    self.rep.distinct("nontrivial", &format!("set|{}|{}|{}|{}", op, r.is_ok(), segcls, shape(seg.unwrap_or(""))));
    match r {
      Err(_) => {
        self.rep.inc("setter_refused");
        if after != before {
          self.viol(&format!("{}-refused-but-changed", op), || (format!("{}({:?}) on {:?} returned Err but the value is now {:?}", op, seg, base, after.s), ctx));
        }
      }
      Ok(()) => {
        self.rep.inc("setter_ok");
        if self.check_url(&format!("@{}", op), None, &u) {
          self.reparse_url(op, &u, &after, ctx);
        }
      }
    }
  }

  /// which: 0 set_method_name, 1 set_method_id
  fn did_setter_case(&mut self, base: &str, which: u8, seg: &str) {
    let Some(mut d) = self.clean_did(base) else { return };
    self.rep.eval();
    let op = ["set_method_name", "set_method_id"][which as usize];
    let Ok(before) = snap_did(&d) else { return };
    let r = catch(|| if which == 0 { d.set_method_name(seg) } else { d.set_method_id(seg) });
    let ctx = json!({"base":base,"op":op,"arg":seg});
    let r = match r {
      Ok(r) => r,
      Err(p) => {
        self.panic(&format!("CoreDID::{}", op), &format!("{} <- {:?}", base, seg), &p);
        return;
      }
    };
    let after = match snap_did(&d) {
      Ok(a) => a,
      Err(p) => {
        self.panic(&format!("CoreDID-accessors@{}", op), &format!("{} <- {:?}", base, seg), &p);
        return;
      }
    };
    self.rep.distinct("nontrivial", &format!("set|{}|{}|{}", op, r.is_ok(), shape(seg)));
    match r {
      Err(_) => {
        self.rep.inc("setter_refused");
        if after != before {
          self.viol(&format!("{}-refused-but-changed", op), || (format!("{}({:?}) on {:?} returned Err but the value is now {:?}", op, seg, base, after.s), ctx));
        }
      }
      Ok(()) => {
        self.rep.inc("setter_ok");
        if self.check_did("CoreDID", &format!("@{}", op), None, &d) {
          self.rep.inc("reparse_checks");
          match catch(|| CoreDID::parse(&after.s)) {
            Err(p) => self.panic("CoreDID::parse", &after.s, &p),
            Ok(Err(e)) => self.viol(&format!("{}-ok-not-reparsable", op), || (format!("{}({:?}) on {:?} succeeded, value {:?} is rejected by CoreDID::parse ({})", op, seg, base, after.s, e), ctx)),
            Ok(Ok(v)) => {
              let vs = snap_did(&v).ok();
              if vs.as_ref() != Some(&after) || v != d {
                self.viol(&format!("{}-ok-reparses-different", op), || (format!("{}({:?}) on {:?}: value {:?} re-parses to {:?}", op, seg, base, after.s, vs.map(|x| x.s)), ctx));
              }
            }
          }
        }
      }
    }
  }

  fn join_case(&mut self, base: &str, seg: &str) {
    let Some(u) = self.clean_url(base) else { return };
    self.rep.eval();
    let Ok(before) = snap_url(&u) else { return };
    let plain = before.path.is_none() && before.query.is_none() && before.fragment.is_none();
    let mut results: Vec<(&str, Result<Result<DIDUrl, identity_did::Error>, PanicRec>)> = vec![("join", catch(|| u.join(seg)))];
    if plain {
      results.push(("DID::join", catch(|| u.did().clone().join(seg))));
    }
    for (op, r) in results {
      let ctx = json!({"base":base,"op":op,"segment":seg});
      match r {
        Err(p) => self.panic(&format!("DIDUrl::{}", op), &format!("{} + {:?}", base, seg), &p),
        Ok(Err(_)) => self.rep.inc("join_refused"),
        Ok(Ok(v)) => {
          self.rep.inc("join_ok");
          self.rep.distinct("nontrivial", &format!("join|{}|{}", shape(&base[7.min(base.len())..]), shape(seg)));
          if !seg.starts_with(['/', '?', '#']) {
            self.viol("join-accepts-undelimited-segment", || (format!("{:?}.join({:?}) succeeded although the segment does not start with '/', '?' or '#'", base, seg), ctx.clone()));
          }
          let clean = self.check_url("@join", None, &v);
          let Ok(after) = snap_url(&v) else { continue };
          if after.did != before.did || catch(|| v.did() != u.did()).unwrap_or(true) {
            self.viol("join-altered-did", || (format!("{:?}.join({:?}) changed the DID part to {:?}", base, seg, after.did), ctx.clone()));
          }
          if clean {
            self.reparse_url("join", &v, &after, ctx);
          }
        }
      }
    }
    if snap_url(&u).ok().as_ref() != Some(&before) {
      self.viol("join-mutated-receiver", || (format!("{:?}.join({:?}) changed the receiver", base, seg), json!({"base":base,"segment":seg})));
    }
  }
}

// ------------------------------------------------------------------------------------------
// Eq / Ord / Hash coherence
// ------------------------------------------------------------------------------------------

struct PoolItem {
  u: DIDUrl,
  s: String,
  h: u64,
  hr: u64,
  hd: u64,
  route: &'static str,
}

impl Ctx {
  fn pool_add(&mut self, pool: &mut Vec<PoolItem>, route: &'static str, u: Result<Option<DIDUrl>, PanicRec>) {
    match u {
      Err(p) => self.panic(&format!("pool-{}", route), "", &p),
      Ok(None) => {
        self.rep.inc("pool_route_refused");
        self.rep.inc(&format!("pool_route_refused_{}", route));
      }
      Ok(Some(u)) if !catch(|| u.to_string()).map_or(false, |st| ref_valid_did_url(&st) && url_matches_ref(&u, &st)) => {
        self.rep.inc("pool_unclean_skipped");
        if self.rep.get("pool_unclean_skipped") <= 4 {
          let st = catch(|| u.to_string()).unwrap_or_default();
          self.rep.note(&format!("pool_unclean_{}", self.rep.get("pool_unclean_skipped")), json!({"route":route,"to_string":st}));
        }
      }
      Ok(Some(u)) => match catch(|| (u.to_string(), hash_of(&u), hash_of(u.url()), hash_of(u.did()))) {
        Ok((s, h, hr, hd)) => pool.push(PoolItem { u, s, h, hr, hd, route }),
        Err(p) => self.panic("DIDUrl-hash/to_string", route, &p),
      },
    }
  }

  /// Builds the value for (did, path, query, fragment) through five construction routes.
  fn pool_combo(&mut self, pool: &mut Vec<PoolItem>, did: &str, path: Option<&str>, q: Option<&str>, f: Option<&str>) {
    let mut rel = String::new();
    rel.push_str(path.unwrap_or(""));
    if let Some(q) = q {
      rel.push('?');
      rel.push_str(q);
    }
    if let Some(f) = f {
      rel.push('#');
      rel.push_str(f);
    }
    let full = format!("{}{}", did, rel);
    if catch(|| DIDUrl::parse(did).is_ok() && DIDUrl::parse(&full).is_ok()).is_err() {
      self.rep.inc("pool_skipped_parse_panic"); // reported by the string workload
      return;
    }
    self.pool_add(pool, "parse", catch(|| DIDUrl::parse(&full).ok()));
    self.pool_add(
      pool,
      "setters",
      catch(|| {
        let mut u = DIDUrl::parse(did).ok()?;
        u.set_fragment(f).ok()?;
        u.set_path(path).ok()?;
        u.set_query(q).ok()?;
        Some(u)
      }),
    );
    self.pool_add(
      pool,
      "new+relative",
      catch(|| {
        let mut r = RelativeDIDUrl::new();
        r.set_path(path).ok()?;
        let qq = q.map(|q| format!("?{}", q));
        r.set_query(qq.as_deref()).ok()?;
        let ff = f.map(|f| format!("#{}", f));
        r.set_fragment(ff.as_deref()).ok()?;
        Some(DIDUrl::new(CoreDID::parse(did).ok()?, Some(r)))
      }),
    );
    self.pool_add(
      pool,
      "overwrite",
      catch(|| {
        let mut u = DIDUrl::parse(format!("{}/zz/y?zz=1#zz", did)).ok()?;
        u.set_path(Some("")).ok()?;
        u.set_path(path).ok()?;
        u.set_query(None).ok()?;
        u.set_query(q).ok()?;
        u.set_fragment(Some("other")).ok()?;
        u.set_fragment(f).ok()?;
        Some(u)
      }),
    );
    if !rel.is_empty() {
      self.pool_add(pool, "join", catch(|| DIDUrl::parse(did).ok()?.join(&rel).ok()));
      self.pool_add(
        pool,
        "set_url",
        catch(|| {
          let src = DIDUrl::parse(format!("did:other:zz{}", rel)).ok()?;
          let mut u = DIDUrl::parse(did).ok()?;
          u.set_url(src.url().clone());
          Some(u)
        }),
      );
    } else {
      self.pool_add(pool, "from_core", catch(|| Some(DIDUrl::from(CoreDID::parse(did).ok()?))));
    }
  }

  fn pair_case(&mut self, a: &PoolItem, b: &PoolItem) {
    self.rep.eval();
    self.rep.inc("pairs_checked");
    let r = catch(|| {
      (
        a.u == b.u,
        a.u != b.u,
        a.u.cmp(&b.u),
        b.u.cmp(&a.u),
        a.u.partial_cmp(&b.u),
        a.u.url() == b.u.url(),
        a.u.url().cmp(b.u.url()),
        b.u.url().cmp(a.u.url()),
        a.u.did() == b.u.did(),
        a.u.did().cmp(b.u.did()),
      )
    });
    let (eq, ne, c, cr, pc, req, rc, rcr, deq, dc) = match r {
      Ok(x) => x,
      Err(p) => {
        self.panic("DIDUrl-eq/cmp", &format!("{} vs {}", a.s, b.s), &p);
        return;
      }
    };
    let seq = a.s == b.s;
    if eq {
      self.rep.inc("pairs_equal");
      if a.route != b.route {
        self.rep.inc("pairs_equal_across_routes");
      }
    }
    let ctx = || json!({"a":a.s,"a_route":a.route,"b":b.s,"b_route":b.route,"eq":eq,"cmp":format!("{:?}",c),"hash_a":a.h,"hash_b":b.h});
    if eq == ne {
      self.viol("eq-vs-ne", || (format!("== and != agree on {:?} / {:?}", a.s, b.s), ctx()));
    }
    if eq != (c == Ordering::Equal) {
      self.viol("eq-vs-ord-disagree:DIDUrl", || (format!("{:?} == {:?} is {} but cmp is {:?}", a.s, b.s, eq, c), ctx()));
    }
    if pc != Some(c) {
      self.viol("partial_cmp-vs-cmp:DIDUrl", || (format!("partial_cmp {:?} vs cmp {:?} on {:?} / {:?}", pc, c, a.s, b.s), ctx()));
    }
    if c != cr.reverse() {
      self.viol("ord-not-antisymmetric:DIDUrl", || (format!("cmp(a,b)={:?} cmp(b,a)={:?} on {:?} / {:?}", c, cr, a.s, b.s), ctx()));
    }
    if eq && a.h != b.h {
      self.viol("eq-but-hash-differs:DIDUrl", || (format!("{:?} == {:?} but their hashes differ", a.s, b.s), ctx()));
    }
    if eq != seq {
      self.viol("eq-vs-string-disagree:DIDUrl", || (format!("{:?} ({}) == {:?} ({}) is {} but string equality is {}", a.s, a.route, b.s, b.route, eq, seq), ctx()));
    }
    // RelativeDIDUrl
    if req != (rc == Ordering::Equal) || rc != rcr.reverse() {
      self.viol("eq-vs-ord-disagree:RelativeDIDUrl", || (format!("relative parts of {:?} / {:?}: == {} cmp {:?} rev {:?}", a.s, b.s, req, rc, rcr), ctx()));
    }
    if req && a.hr != b.hr {
      self.viol("eq-but-hash-differs:RelativeDIDUrl", || (format!("relative parts of {:?} / {:?} equal but hashes differ", a.s, b.s), ctx()));
    }
    // CoreDID
    if deq != (dc == Ordering::Equal) {
      self.viol("eq-vs-ord-disagree:CoreDID", || (format!("did parts of {:?} / {:?}: == {} cmp {:?}", a.s, b.s, deq, dc), ctx()));
    }
    if deq && a.hd != b.hd {
      self.viol("eq-but-hash-differs:CoreDID", || (format!("did parts of {:?} / {:?} equal but hashes differ", a.s, b.s), ctx()));
    }
    // whole value equal <=> both parts equal
    if eq != (deq && req) {
      self.viol("eq-vs-parts-disagree:DIDUrl", || (format!("{:?} / {:?}: == {} but did== {} and url== {}", a.s, b.s, eq, deq, req), ctx()));
    }
  }

  fn triple_case(&mut self, a: &PoolItem, b: &PoolItem, c: &PoolItem) {
    self.rep.eval();
    self.rep.inc("triples_checked");
    let r = catch(|| (a.u.cmp(&b.u), b.u.cmp(&c.u), a.u.cmp(&c.u)));
    if let Ok((ab, bc, ac)) = r {
      if ab != Ordering::Greater && bc != Ordering::Greater && ac == Ordering::Greater {
        self.viol("ord-not-transitive:DIDUrl", || (format!("{:?} <= {:?} <= {:?} but first > third", a.s, b.s, c.s), json!({"a":a.s,"b":b.s,"c":c.s})));
      }
    }
  }

  // ----------------------------------------------------------------------------------------
  // did:jwk
  // ----------------------------------------------------------------------------------------
  fn jwk_case(&mut self, s: &str, expect_json: Option<&Value>) {
    self.rep.eval();
    let main = match catch(|| DIDJwk::parse(s)) {
      Err(p) => {
        self.panic("DIDJwk::parse", s, &p);
        return;
      }
      Ok(r) => r.ok(),
    };
    let alts: [(&str, fn(&str) -> Option<DIDJwk>); 4] = [
      ("from_str", |s| s.parse::<DIDJwk>().ok()),
      ("try_from_str", |s| DIDJwk::try_from(s).ok()),
      ("try_from_core", |s| CoreDID::parse(s).ok().and_then(|c| DIDJwk::try_from(c).ok())),
      ("serde", |s| serde_json::from_value::<DIDJwk>(Value::String(s.to_string())).ok()),
    ];
    let mut vals: Vec<(String, DIDJwk)> = Vec::new();
    if let Some(m) = &main {
      vals.push((String::new(), m.clone()));
    }
    for (name, f) in alts {
      match catch(|| f(s)) {
        Err(p) => self.panic(&format!("DIDJwk::{}", name), s, &p),
        Ok(None) => {}
        Ok(Some(v)) => {
          if main.as_ref() != Some(&v) {
            self.rep.inc("entry_points_disagree");
            vals.push((format!("@{}", name), v));
          }
        }
      }
    }
    if vals.is_empty() {
      self.rep.inc("jwk_rejected");
      if expect_json.is_some() {
        self.rep.inc("jwk_rejected_ref_valid");
      }
      return;
    }
    self.rep.inc("jwk_accepted");
    self.rep.distinct("nontrivial", &format!("jwk|{}|{}", expect_json.is_some(), shape(s.rsplit(|c: char| c.is_ascii_alphanumeric()).next().unwrap_or(""))));
    for (origin, j) in vals {
      let core: &CoreDID = j.as_ref();
      let clean = self.check_did("DIDJwk", &origin, Some(s), core);
      match catch(|| (j.to_string(), String::from(j.clone()), j.method().to_string(), serde_json::to_value(&j).ok())) {
        Err(p) => self.panic("DIDJwk-accessors", s, &p),
        Ok((disp, into, method, ser)) => {
          if clean && (disp != s || into != s || ser != Some(Value::String(s.to_string()))) {
            self.viol("string-form-differs:DIDJwk", || (format!("DIDJwk::parse({:?}) prints {:?}/{:?}/{:?}", s, disp, into, ser), json!({"input":s})));
          }
          if clean && method != "jwk" {
            self.viol("didjwk-method-not-jwk", || (format!("DIDJwk {:?} has method {:?}", s, method), json!({"input":s})));
          }
        }
      }
      match catch(|| j.jwk()) {
        Err(p) => self.panic("DIDJwk::jwk", s, &p),
        Ok(k) => {
          self.rep.inc("jwk_decoded");
          if let (true, Some(want)) = (clean, expect_json) {
            let got = serde_json::to_value(&k).ok();
            if got.as_ref() != Some(want) {
              self.viol("didjwk-jwk-differs", || (format!("DIDJwk::parse({:?}).jwk() = {:?}, encoded JWK was {}", s, got, want), json!({"input":s})));
            }
          }
        }
      }
    }
  }
}

// ------------------------------------------------------------------------------------------
// Generators
// ------------------------------------------------------------------------------------------

const ALPHA: [&str; 14] = ["a", "A", "1", ":", "%", "/", "?", "#", ".", "-", " ", "\n", "é", "{"];
const ADV: [&str; 52] = [
  "a", "z", "A", "F", "G", "0", "9", ":", "%", "/", "?", "#", ".", "-", "_", "~", "!", "$", "&", "'", "(", ")", "*", "+", ",", ";", "=", "@", "[", "]", "{", "}", "|",
  "\\", "^", "`", "\"", "<", ">", " ", "\t", "\r", "\n", "\0", "\x7f", "é", "€", "𝄞", "\u{a0}", "%41", "%4", "%zz",
];

fn nth_string(alpha: &[&str], len: u32, mut idx: u64) -> String {
  let mut s = String::new();
  for _ in 0..len {
    s.push_str(alpha[(idx % alpha.len() as u64) as usize]);
    idx /= alpha.len() as u64;
  }
  s
}

fn gen_chars(rng: &mut Rng, n: usize, set: &[u8], pct: bool) -> String {
  let mut s = String::new();
  for _ in 0..n {
    if pct && rng.chance(1, 8) {
      s.push_str(&format!("%{:02X}", rng.below(256)));
    } else {
      s.push(*rng.pick(set) as char);
    }
  }
  s
}
const IDCH: &[u8] = b"abcdefghijklmnopqrstuvwxyzABCDEFGHIJKLMNOPQRSTUVWXYZ0123456789.-_";
const PCH: &[u8] = b"abcxyzABCXYZ0189-._~!$&'()*+,;=:@";
const QCH: &[u8] = b"abcxyzABCXYZ0189-._~!$&'()*+,;=:@/?";

fn gen_valid_did(rng: &mut Rng) -> String {
  let m = { let n__ = 1 + rng.usize(6); gen_chars(rng, n__, b"abcdefghijklmnopqrstuvwxyz0123456789", false) };
  let mut id = String::new();
  for _ in 0..rng.usize(3) {
    id.push_str(&{ let n__ = rng.usize(5); gen_chars(rng, n__, IDCH, true) });
    id.push(':');
  }
  id.push_str(&{ let big__ = rng.chance(1, 10); let n__ = 1 + rng.usize(if big__ { 60 } else { 12 }); gen_chars(rng, n__, IDCH, true) });
  format!("did:{}:{}", m, id)
}
fn gen_valid_rel(rng: &mut Rng) -> String {
  let mut s = String::new();
  if rng.bool() {
    for _ in 0..1 + rng.usize(3) {
      s.push('/');
      s.push_str(&{ let n__ = rng.usize(6); gen_chars(rng, n__, PCH, true) });
    }
  }
  if rng.chance(2, 5) {
    s.push('?');
    s.push_str(&{ let n__ = rng.usize(10); gen_chars(rng, n__, QCH, true) });
  }
  if rng.chance(2, 5) {
    s.push('#');
    s.push_str(&{ let n__ = rng.usize(10); gen_chars(rng, n__, QCH, true) });
  }
  s
}
fn mutate(rng: &mut Rng, s: &str) -> String {
  let mut v: Vec<char> = s.chars().collect();
  for _ in 0..1 + rng.usize(3) {
    let pos = rng.usize(v.len() + 1);
    match rng.below(6) {
      0 | 1 => {
        let ins: Vec<char> = rng.pick(&ADV).chars().collect();
        for (k, c) in ins.into_iter().enumerate() {
          v.insert((pos + k).min(v.len()), c);
        }
      }
      2 => {
        if pos < v.len() {
          v.remove(pos);
        }
      }
      3 => {
        if pos < v.len() {
          v[pos] = rng.pick(&ADV).chars().next().unwrap();
        }
      }
      4 => {
        // duplicate a delimiter
        if let Some(i) = v.iter().position(|c| matches!(c, '?' | '#' | '/' | ':' | '%')) {
          let j = v.iter().rposition(|c| matches!(c, '?' | '#' | '/' | ':' | '%')).unwrap();
          let k = if rng.bool() { i } else { j };
          let c = v[k];
          v.insert(k, c);
        }
      }
      _ => v.truncate(pos),
    }
  }
  v.into_iter().collect()
}

fn hand_segments() -> Vec<String> {
  let v = [
    "", "/", "?", "#", "/a", "a", "?a", "#a", "??a", "##a", "???", "???a", "/p???b", "??", "?a??b", "?#", "/?#", "/a?b#c", "//", "/a//b", "/.", "/..", "/../x", "/a/../b", "/./a", "..", ".", "a/b", "/a b", "/a\n", " /a", "/a ", "?a b",
    "#a b", "?a#b", "#a#b", "#a?b", "?a?b", "/a?b", "/a#b", "?a/b", "#a/b", "/%41", "/%4", "/%", "/%zz", "/%+1", "/%41{", "?%41", "?%4", "?%+1", "?%41{", "#%41", "#%4", "#%+1", "#%41{", "%41", "%4", "%",
    "%+f", "%-1", "% 1", "a%4", "a%41{b", "a%41/b", "a%41#b", "a%41?b", "a:", ":a", "a::b", ":", "::", "a.b-c_d", "A", "é", "/é", "?é", "#é", "{", "/{", "?{", "#{", "a{", "did:x:y", "/did:x:y", "did:m:a",
    "/a:b@c", "?a=1&b=2", "?a=1&b=2#k", "#key-1", "/p?", "/p#", "?q#", "?", "/~!$&'()*+,;=@", "?~!$&'()*+,;=@/?", "#~!$&'()*+,;=@/?", "/[", "/]", "/|", "/\\", "/^", "/`", "/\"", "/<", "/>", "?[", "#[",
    "\0", "/\0", "/a\0", "\t", "/\t", "\u{a0}", "/\u{a0}", "/€", "/𝄞", "?𝄞", "#𝄞", "𝄞", "/a%F0%9D%84%9E", "abc", "ABC", "123", "a_b", "a-b", "a.b", "a~b", "a+b", "a@b", "a b", "a\nb", "1%", "1%%", "%%41",
    "%4%41", "%41%4", "%g1", "%1g", "%é", "/%é", "?%é1", "#%1é",
  ];
  v.iter().map(|s| s.to_string()).collect()
}

fn main() {
  let args = Args::parse();
  let scale = args.extra_u64("scale", 1000).max(1);
  let sc = |n: u64| -> u64 { (n * scale / 1000).max(1) };
  let stride = ((1000 + scale - 1) / scale).max(1);
  let thorough = args.thorough;
  let mut cx = Ctx { rep: Report::new("C10"), seen: BTreeMap::new() };
  cx.rep.rule(
    "cases = (a) every string over the 14-symbol alphabet {a A 1 : % / ? # . - SP LF é {} after 'did:m:' and after 'did:' up to the tier's length bound, \
     a %XY grid over 98 characters in every component, whitespace/control characters around valid strings, seeded random valid DID URLs and mutations of them, \
     each pushed through every construction path of CoreDID and DIDUrl; (b) (clean value, segment) pairs for set_path/set_query/set_fragment/set_method_name/set_method_id/join; \
     (c) pairs/triples of DIDUrl values built through six routes for Eq/Ord/Hash; (d) did:jwk strings. \
     non-trivial = accepted by at least one type (classed by family, acceptance vector, reference validity and coarse shape), or an executed setter/join (classed by op, outcome, segment shape); \
     exhaustive enumerations are additionally counted exactly (distinct_exact = accepted strings distinct by construction)",
  );
  let mut rng = args.rng(10);
  let mut k: u64 = 0; // global enumeration index for sharding

  // ---- A. exhaustive strings
  let fams: [(&str, u32); 2] = [("did:m:", if thorough { 7 } else { 5 }), ("did:", if thorough { 6 } else { 4 })];
  for (prefix, maxlen) in fams {
    for len in 0..=maxlen {
      let total = 14u64.pow(len);
      let before = cx.rep.get("core_accepted") + cx.rep.get("url_accepted");
      let mut idx = 0u64;
      while idx < total {
        k += 1;
        if args.mine(k) {
          let s = format!("{}{}", prefix, nth_string(&ALPHA, len, idx));
          cx.case_string(prefix, &s);
          cx.rep.inc("exhaustive_strings");
        }
        idx += if len > 2 { stride } else { 1 };
      }
      let after = cx.rep.get("core_accepted") + cx.rep.get("url_accepted");
      cx.rep.count("distinct_exact", after - before);
    }
  }

  // ---- B. percent-escape grid
  let mut c1: Vec<String> = (0x20u8..0x7f).map(|b| (b as char).to_string()).collect();
  c1.extend(["\n".to_string(), "\0".to_string(), "é".to_string()]);
  let gstride = if scale >= 1000 { 1 } else { stride.min(97) };
  let mut gi = 0u64;
  for x in &c1 {
    for y in &c1 {
      gi += 1;
      k += 1;
      if gi % gstride != 0 || !args.mine(k) {
        continue;
      }
      for t in [
        format!("did:m:a%{}{}", x, y),
        format!("did:m:%{}{}b", x, y),
        format!("did:m:a/p%{}{}", x, y),
        format!("did:m:a?q%{}{}", x, y),
        format!("did:m:a#f%{}{}z", x, y),
      ] {
        cx.case_string("pct", &t);
        cx.rep.inc("pct_grid_strings");
      }
      if thorough || (x.len() == 1 && y.len() == 1 && b"0aAfFgG+- %:9".contains(&x.as_bytes()[0]) && b"0aAfFgG+- %:9".contains(&y.as_bytes()[0])) {
        let seg = format!("%{}{}", x, y);
        cx.did_setter_case("did:m:a", 1, &seg);
        cx.did_setter_case("did:m:a", 1, &format!("b{}c", seg));
        cx.url_setter_case("did:m:a", 0, Some(&format!("/{}", seg)));
        cx.url_setter_case("did:m:a", 1, Some(&seg));
        cx.url_setter_case("did:m:a", 2, Some(&seg));
      }
    }
    k += 1;
    if args.mine(k) {
      for t in [
        format!("did:m:a%41{}", x),
        format!("did:m:a%41{}b", x),
        format!("did:m:a%4{}", x),
        format!("did:m:a%{}", x),
        format!("did:m:a/%41{}", x),
        format!("did:m:a?%41{}", x),
        format!("did:m:a#%41{}", x),
        format!("did:m{}:a", x),
        format!("did:{}:a", x),
        format!("did:m:a{}", x),
        format!("did:m:{}", x),
        format!("did:m:a{}b", x),
        format!("did{}m:a", x),
        format!("{}did:m:a", x),
      ] {
        cx.case_string("single", &t);
      }
    }
  }

  // ---- C. whitespace / control characters around valid strings
  let ws = ["", " ", "\n", "\t", "\r", "\0", "\x7f", "\x0b", "\x0c", "\x1f", "\u{a0}", "\u{2003}", "\u{feff}", " \n", "\r\n", "  "];
  let cores = ["did:example:123", "did:m:a/p", "did:m:a?q", "did:m:a#f", "did:m:a/p?q#f", "did:m:a%41", "did:m:a:b", "did:m:a??q", "did:m:a?", "did:m:a#", "did:m:a/", "did:m:a?#", "did:m:a??q#", "did:m:a:", "did:m:a%41b/c", "did:m:a%+1b", "did:m:a%41{"];
  for core in cores {
    for pre in ws {
      for post in ws {
        k += 1;
        if args.mine(k) {
          cx.case_string("ws", &format!("{}{}{}", pre, core, post));
          cx.rep.inc("whitespace_strings");
        }
      }
    }
  }

  // ---- C2. multi-character control/whitespace prefixes and suffixes (the parser trims any number of them; the
  // guard must see exactly the same set of characters), around short cores where shifted offsets still parse
  let ctl = ['\u{1}', '\0', '\u{1b}', '\u{7f}', ' ', '\n', '\t', '\u{b}', '\u{1f}'];
  let short_cores = ["did:m:xyz?q", "did:m:xyz", "did:m:xy/p?q", "did:a:bcdef?g=h", "did:m:xyz#f", "did:ab:xyz?q"];
  for core in short_cores {
    for len in 1..=4usize {
      let mut idx = vec![0usize; len];
      loop {
        k += 1;
        if args.mine(k) {
          let junk: String = idx.iter().map(|i| ctl[*i]).collect();
          cx.case_string("ws", &format!("{}{}", junk, core));
          cx.case_string("ws", &format!("{}{}", core, junk));
          cx.rep.inc("whitespace_strings");
        }
        let mut pos = 0;
        while pos < len {
          idx[pos] += 1;
          if idx[pos] < ctl.len() {
            break;
          }
          idx[pos] = 0;
          pos += 1;
        }
        if pos == len {
          break;
        }
      }
    }
  }

  // ---- D. seeded random: valid DID URLs and mutations
  let n_random = sc(if thorough { 4_000_000 } else { 160_000 }) / args.nshards.max(1);
  let mut valid_pool: Vec<String> = Vec::new();
  for i in 0..n_random.max(20) {
    let did = gen_valid_did(&mut rng);
    let full = format!("{}{}", did, gen_valid_rel(&mut rng));
    let s = match rng.below(5) {
      0 => did.clone(),
      1 => full.clone(),
      2 => mutate(&mut rng, &did),
      _ => mutate(&mut rng, &full),
    };
    cx.case_string("rnd", &s);
    cx.rep.inc("random_strings");
    if i < 400 {
      valid_pool.push(full);
    }
  }

  // ---- E/F. setters and join over (clean value, segment)
  let mut segs = hand_segments();
  let mut alpha15: Vec<&str> = ALPHA.to_vec();
  alpha15.push("+");
  for len in 1..=(if thorough { 3 } else { 2 }) {
    for idx in 0..15u64.pow(len) {
      if len > 2 && idx % stride != 0 {
        continue;
      }
      segs.push(nth_string(&alpha15, len, idx));
    }
  }
  // random segments must be identical in every shard: use a shard-independent stream
  let mut srng = Rng::new(args.seed, 0xC10);
  for _ in 0..sc(if thorough { 3000 } else { 300 }) {
    let base = match srng.below(4) {
      0 => gen_valid_rel(&mut srng),
      1 => { let n__ = 1 + srng.usize(8); gen_chars(&mut srng, n__, IDCH, true) },
      2 => {
        let r = gen_valid_rel(&mut srng);
        mutate(&mut srng, &r)
      }
      _ => {
        let r = { let n__ = 1 + srng.usize(8); gen_chars(&mut srng, n__, IDCH, true) };
        mutate(&mut srng, &r)
      }
    };
    segs.push(base);
  }
  let url_bases = [
    "did:m:a",
    "did:m:a/p",
    "did:m:a?q",
    "did:m:a#f",
    "did:m:a/p?q#f",
    "did:example:123:x%41y/a/b?x=1&y=2#key-1",
    "did:m:a/p#f",
    "did:m:a?q#f",
    // bases whose last component ends in a percent-encoded character: appending another component must either be
    // refused or yield a value that still re-parses
    "did:m:a?q%41",
    "did:m:a/p%2F",
    "did:m:a#f%41",
  ];
  let did_bases = ["did:m:a", "did:example:123:x%41y", "did:m1:a.b-c_d"];
  for seg in &segs {
    for base in url_bases {
      k += 1;
      if !args.mine(k) {
        continue;
      }
      for which in 0..3u8 {
        cx.url_setter_case(base, which, Some(seg));
      }
      cx.join_case(base, seg);
    }
    for base in did_bases {
      k += 1;
      if !args.mine(k) {
        continue;
      }
      cx.did_setter_case(base, 0, seg);
      cx.did_setter_case(base, 1, seg);
    }
  }
  for base in url_bases {
    k += 1;
    if args.mine(k) {
      for which in 0..3u8 {
        cx.url_setter_case(base, which, None);
      }
    }
  }
  cx.rep.note("segments", json!(segs.len()));

  // ---- G. Eq / Ord / Hash
  let mut pool: Vec<PoolItem> = Vec::new();
  let dids: &[&str] = if thorough { &["did:m:a", "did:m:b", "did:n:a", "did:m:a:b", "did:m:a%41b", "did:example:123", "did:m:A"] } else { &["did:m:a", "did:m:b", "did:n:a%41b"] };
  // values that differ only in the case of percent-encoding hex digits are different strings: ==, cmp and hash must all say so
  let paths: &[Option<&str>] = if thorough { &[None, Some("/"), Some("/a"), Some("/a/b"), Some("/b"), Some("/a%2Fb"), Some("/a%2fb")] } else { &[None, Some("/"), Some("/a"), Some("/a%2Fb"), Some("/a%2fb")] };
  let qs: &[Option<&str>] = if thorough { &[None, Some("a"), Some("b"), Some("a=1&b=2"), Some("a=%e2x"), Some("a=%E2x")] } else { &[None, Some("a"), Some("a=%e2x"), Some("a=%E2x")] };
  let fs: &[Option<&str>] = if thorough { &[None, Some("a"), Some("b"), Some("a?b/c"), Some("k%aB"), Some("k%Ab")] } else { &[None, Some("a"), Some("k%aB"), Some("k%Ab")] };
  for d in dids {
    for p in paths {
      for q in qs {
        for f in fs {
          cx.pool_combo(&mut pool, d, *p, *q, *f);
        }
      }
    }
  }
  // random valid ones, same in every shard
  for _ in 0..(if thorough { 300 } else { 60 }) {
    let did = gen_valid_did(&mut srng);
    let full = format!("{}{}", did, gen_valid_rel(&mut srng));
    if catch(|| DIDUrl::parse(&full).is_ok()).is_err() {
      cx.rep.inc("pool_skipped_parse_panic");
      continue;
    }
    cx.pool_add(&mut pool, "parse", catch(|| DIDUrl::parse(&full).ok()));
    cx.pool_add(&mut pool, "parse2", catch(|| full.parse::<DIDUrl>().ok()));
  }
  let keep = (pool.len() as u64 * scale.min(1000) / 1000).max(60.min(pool.len() as u64)) as usize;
  if keep < pool.len() {
    // keep a deterministic spread (every route and equal groups stay adjacent)
    pool.truncate(keep);
  }
  cx.rep.note("eq_pool", json!(pool.len()));
  for i in 0..pool.len() {
    if !args.mine(i as u64) {
      continue;
    }
    for j in 0..pool.len() {
      cx.pair_case(&pool[i], &pool[j]);
    }
  }
  let n_tri = sc(if thorough { 2_000_000 } else { 100_000 }) / args.nshards.max(1);
  if pool.len() >= 3 {
    for _ in 0..n_tri {
      let (a, b, c) = (rng.usize(pool.len()), rng.usize(pool.len()), rng.usize(pool.len()));
      cx.triple_case(&pool[a], &pool[b], &pool[c]);
    }
  }

  // ---- H. did:jwk
  let mut jk = 0u64;
  for (label, alg) in [(1u64, vh::keys::Alg::EdDSA), (2, vh::keys::Alg::ES256), (3, vh::keys::Alg::ES256K)] {
    let key = vh::keys::Key::new(alg, label);
    let jj = key.public_jwk_json(None);
    let want: Value = serde_json::from_str(&jj).expect("own JWK JSON");
    let b64 = vh::b64::url_encode(jj.as_bytes());
    let good = format!("did:jwk:{}", b64);
    if args.shard == 0 {
      cx.jwk_case(&good, Some(&want));
      cx.case_string("jwk", &good);
    }
    let mut variants: Vec<String> = Vec::new();
    for len in 1..=2u32 {
      for idx in 0..14u64.pow(len) {
        variants.push(format!("{}{}", good, nth_string(&ALPHA, len, idx)));
      }
    }
    for w in ws {
      variants.push(format!("{}{}", w, good));
      variants.push(format!("{}{}", good, w));
    }
    variants.push(format!("did:jwK:{}", b64));
    variants.push(format!("did:jwk:{}", &b64[..b64.len() - 1]));
    variants.push(format!("did:jwk:{}", &b64[..b64.len() / 2]));
    variants.push(format!("did:jwk:{}=", b64));
    variants.push(format!("did:jwk:{}", vh::b64::url_encode(b"{\"a\":1}")));
    variants.push(format!("did:jwk:{}", vh::b64::url_encode(b"[]")));
    variants.push(format!("did:jwk:{}", vh::b64::url_encode(b"not json")));
    variants.push("did:jwk:".to_string());
    variants.push(format!("did:key:{}", b64));
    variants.push(format!("did:jwk:{}", vh::b64::url_encode(key.private_jwk_json(None).as_bytes())));
    for _ in 0..sc(if thorough { 2000 } else { 200 }) {
      variants.push(mutate(&mut srng, &good));
    }
    for v in variants {
      jk += 1;
      if args.mine(jk) {
        cx.jwk_case(&v, None);
      }
    }
  }

  cx.rep.note("valid_pool_sample", json!(valid_pool.iter().take(3).collect::<Vec<_>>()));
  cx.rep.finish();
}
