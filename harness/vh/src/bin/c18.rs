//! C18 — JWK public projection, thumbprint and key-type coherence never leak keys.
//!
//! Monitors (all model-free unless a harness-side `Spec` is available):
//!  * coherence: `kty()` names the same family as the variant of `params()` — for every JWK obtained
//!    through `new`, `from_params`, `set_kty`, `set_params`, serde (text / `Value` / re-serialised /
//!    did:jwk) and key generation;
//!  * `is_public()` <=> no private member present (read from the pub fields of the params);
//!  * `to_public()`: no private member (in memory and in its JSON), same kty, same public members,
//!    idempotent, same thumbprint as the original;
//!  * thumbprint == harness RFC 7638 reference over the required members only;
//!  * verification-method constructors refuse every JWK with a private member, and whatever they
//!    accept serialises without private members;
//!  * `JwkGenOutput` and documents after `generate_method` contain no private member (deep scan);
//!  * the same JSON read through the containers that embed a JWK (JwkSet, JWS header `jwk`, verification
//!    method / document `publicKeyJwk`, did:jwk, JwkGenOutput): whatever comes out is judged like any other JWK;
//!  * declared-type / member-shape combinations swept over every registered curve name (JOSE registry + BLS draft)
//!    and near-miss spellings, since the parameter family picked on deserialisation may depend on the value of `crv`;
//!  * the typed conversion `Jwk::try_from(jsonprooftoken::jwk::key::Jwk)` (and the way back) over both source
//!    parameter variants x every curve x every declared source `kty` x private part x optional members, directly,
//!    after the source's own `to_public()`, and for sources read from JSON or generated;
//!  * every declared type x every parameter family, put together through the explicitly unchecked setters
//!    (`set_params_unchecked`, assignment through `params_mut()`): the mismatch itself is not judged, but the
//!    thumbprint of one (declared type, public members) identity must not change with the private members present
//!    (every subset, also removed / set in place through `try_*_params_mut` / `params_mut`), the optional members or
//!    the way the parameters got there, and all per-JWK monitors (is_public, projection, constructors) apply.
use futures::executor::block_on;
use identity_core::common::{Object, Url};
use identity_core::convert::{FromJson, ToJson};
use identity_did::{CoreDID, DIDJwk, DIDUrl, DID};
use identity_document::document::CoreDocument;
use identity_iota_core::{IotaDocument, NetworkName};
use identity_jose::jwk::{
  Jwk, JwkOperation, JwkParams, JwkParamsEc, JwkParamsOct, JwkParamsOkp, JwkParamsRsa, JwkParamsRsaPrime, JwkSet, JwkType, JwkUse,
};
use identity_jose::jws::{JwsAlgorithm, JwsHeader};
use identity_storage::{JwkDocumentExt, JwkGenOutput, JwkMemStore, JwkStorage, KeyIdMemstore, Storage};
use identity_verification::{MethodBuilder, MethodData, MethodRelationship, MethodScope, MethodType, VerificationMethod};
use jsonprooftoken::jpa::algs::ProofAlgorithm;
use jsonprooftoken::jwk::alg_parameters::{Algorithm, JwkAlgorithmParameters, JwkEllipticCurveKeyParameters, JwkOctetKeyPairParameters};
use jsonprooftoken::jwk::curves::EllipticCurveTypes;
use jsonprooftoken::jwk::key::{Jwk as JwkExt, KeyOps, PKUse};
use jsonprooftoken::jwk::types::{KeyPairSubtype, KeyType};
use serde_json::{json, Value};
use vh::b64::url_encode;
use vh::keys::{sha256, Alg, Key};
use vh::panicmon::catch;
use vh::{Args, Report, Rng};

const PRIV_NAMES: [&str; 8] = ["d", "p", "q", "dp", "dq", "qi", "oth", "k"];
const RSA_PRIV: [&str; 7] = ["d", "p", "q", "dp", "dq", "qi", "oth"];
const B64: &[u8; 64] = b"ABCDEFGHIJKLMNOPQRSTUVWXYZabcdefghijklmnopqrstuvwxyz0123456789-_";

const USES: [(&str, JwkUse); 3] = [("sig", JwkUse::Signature), ("enc", JwkUse::Encryption), ("proof", JwkUse::Proof)];
const OPS: [(&str, JwkOperation); 10] = [
  ("sign", JwkOperation::Sign),
  ("verify", JwkOperation::Verify),
  ("encrypt", JwkOperation::Encrypt),
  ("decrypt", JwkOperation::Decrypt),
  ("wrapKey", JwkOperation::WrapKey),
  ("unwrapKey", JwkOperation::UnwrapKey),
  ("deriveKey", JwkOperation::DeriveKey),
  ("deriveBits", JwkOperation::DeriveBits),
  ("proofGeneration", JwkOperation::ProofGeneration),
  ("proofVerification", JwkOperation::ProofVerification),
];

/// Curve names of the JOSE "JSON Web Key Elliptic Curve" registry plus draft-ietf-cose-bls-key-representations.
const CURVES: [&str; 12] =
  ["P-256", "P-384", "P-521", "secp256k1", "Ed25519", "Ed448", "X25519", "X448", "BLS12381G1", "BLS12381G2", "BLS48581G1", "BLS48581G2"];
/// Near-miss spellings of registered names (case, padding, neighbouring numbers).
const CURVE_NEAR: [&str; 8] = ["bls12381g2", "BLS12381G2 ", " BLS12381G1", "BLS12-381G2", "BLS12381G3", "Bls48581G1", "p-256", "ED25519"];

const EXT_CURVES: [EllipticCurveTypes; 12] = [
  EllipticCurveTypes::P256,
  EllipticCurveTypes::P384,
  EllipticCurveTypes::P521,
  EllipticCurveTypes::Secp256K1,
  EllipticCurveTypes::Ed25519,
  EllipticCurveTypes::Ed448,
  EllipticCurveTypes::X25519,
  EllipticCurveTypes::X448,
  EllipticCurveTypes::BLS12381G1,
  EllipticCurveTypes::BLS12381G2,
  EllipticCurveTypes::BLS48581G1,
  EllipticCurveTypes::BLS48581G2,
];
const EXT_KTYS: [(KeyType, &str); 4] = [(KeyType::EllipticCurve, "EC"), (KeyType::OctetKeyPair, "OKP"), (KeyType::RSA, "RSA"), (KeyType::Octet, "oct")];
const EXT_OPS: [KeyOps; 10] = [
  KeyOps::Sign,
  KeyOps::Verify,
  KeyOps::Encrypt,
  KeyOps::Decrypt,
  KeyOps::WrapKey,
  KeyOps::UnwrapKey,
  KeyOps::DeriveKey,
  KeyOps::DeriveBits,
  KeyOps::ProofGeneration,
  KeyOps::ProofVerification,
];
const EXT_ALGS: [ProofAlgorithm; 4] = [ProofAlgorithm::BLS12381_SHA256, ProofAlgorithm::BLS12381_SHAKE256, ProofAlgorithm::SU_ES256, ProofAlgorithm::MAC_H256];

// RFC 7638 section 3.1 example key (self-test of the harness reference).
const RFC7638_N: &str = "0vx7agoebGcQSuuPiLJXZptN9nndrQmbXEps2aiAFbWhM78LhWx4cbbfAAtVT86zwu1RK7aPFFxuhDR1L6tSoc_BJECPebWKRXjBZCiFV4n3oknjhMstn64tZ_2W-5JsGY4Hc5n9yBXArwl93lqt7_RN5w6Cf0h4QyQ5v-65YGjQR0_FDW2QvzqY368QQMicAtaSqzs8KJZgnYb9c7d0zgdAZHzu6qMQvRL5hajrn1n91CbOpbISD08qNLyrdkt-bFTWhAI4vMQFh6WeZu0fM4lFd2NcRwr3XPksINHaQ-G_xBniIqbw0Ls1jF44-csFCur-kEgU8awapJzKnqDKgw";
const RFC7638_THUMB: &str = "NzbLsXh8uDCcd-6MNwXF4W_7noWXFZAfHkxZsRGC9Xs";
const RFC8037_X: &str = "11qYAYKxCrfVS_7TyWQHOg7hcvPapiMlrwIaaPcHURo";
const RFC8037_THUMB: &str = "kPrK_qmxVWaYVA9wwBF6Iuo3vVzz7TxHCTwXBygrS4k";

#[derive(Clone, Copy, Debug, PartialEq, Eq, PartialOrd, Ord)]
enum Fam {
  Ec,
  Rsa,
  Oct,
  Okp,
}

const FAMS: [Fam; 4] = [Fam::Okp, Fam::Ec, Fam::Rsa, Fam::Oct];

impl Fam {
  fn name(self) -> &'static str {
    match self {
      Fam::Ec => "EC",
      Fam::Rsa => "RSA",
      Fam::Oct => "oct",
      Fam::Okp => "OKP",
    }
  }
  fn ty(self) -> JwkType {
    match self {
      Fam::Ec => JwkType::Ec,
      Fam::Rsa => JwkType::Rsa,
      Fam::Oct => JwkType::Oct,
      Fam::Okp => JwkType::Okp,
    }
  }
  fn of(t: JwkType) -> Fam {
    match t {
      JwkType::Ec => Fam::Ec,
      JwkType::Rsa => Fam::Rsa,
      JwkType::Oct => Fam::Oct,
      JwkType::Okp => Fam::Okp,
    }
  }
  /// Members RFC 7638 requires for the thumbprint (besides kty). For oct this is the secret `k`.
  fn req_names(self) -> &'static [&'static str] {
    match self {
      Fam::Ec => &["crv", "x", "y"],
      Fam::Rsa => &["n", "e"],
      Fam::Oct => &["k"],
      Fam::Okp => &["crv", "x"],
    }
  }
  fn priv_names(self) -> &'static [&'static str] {
    match self {
      Fam::Ec | Fam::Okp => &["d"],
      Fam::Rsa => &RSA_PRIV,
      Fam::Oct => &[],
    }
  }
}

/// What the harness reads off a `JwkParams` value through its public fields.
struct View {
  fam: Fam,
  privs: Vec<&'static str>,
  req: Vec<(&'static str, String)>,
}

fn view(p: &JwkParams) -> View {
  match p {
    JwkParams::Ec(e) => View {
      fam: Fam::Ec,
      privs: if e.d.is_some() { vec!["d"] } else { vec![] },
      req: vec![("crv", e.crv.clone()), ("x", e.x.clone()), ("y", e.y.clone())],
    },
    JwkParams::Okp(o) => View {
      fam: Fam::Okp,
      privs: if o.d.is_some() { vec!["d"] } else { vec![] },
      req: vec![("crv", o.crv.clone()), ("x", o.x.clone())],
    },
    JwkParams::Oct(o) => View { fam: Fam::Oct, privs: vec!["k"], req: vec![("k", o.k.clone())] },
    JwkParams::Rsa(r) => {
      let mut privs = Vec::new();
      for (n, present) in [
        ("d", r.d.is_some()),
        ("p", r.p.is_some()),
        ("q", r.q.is_some()),
        ("dp", r.dp.is_some()),
        ("dq", r.dq.is_some()),
        ("qi", r.qi.is_some()),
        ("oth", r.oth.is_some()),
      ] {
        if present {
          privs.push(n);
        }
      }
      View { fam: Fam::Rsa, privs, req: vec![("n", r.n.clone()), ("e", r.e.clone())] }
    }
  }
}

fn js(s: &str) -> String {
  serde_json::to_string(s).expect("string to JSON")
}

fn plain(s: &str) -> bool {
  !s.chars().any(|c| c == '"' || c == '\\' || (c as u32) < 0x20)
}

/// RFC 7638: required members + kty, lexicographic by member name, no whitespace, SHA-256, base64url.
fn ref_thumb(fam: Fam, req: &[(&'static str, String)]) -> (String, String) {
  let mut m: Vec<(&str, &str)> = req.iter().map(|(k, v)| (*k, v.as_str())).collect();
  m.push(("kty", fam.name()));
  m.sort_by(|a, b| a.0.as_bytes().cmp(b.0.as_bytes()));
  let body: Vec<String> = m.iter().map(|(k, v)| format!("{}:{}", js(k), js(v))).collect();
  let input = format!("{{{}}}", body.join(","));
  let b64 = url_encode(&sha256(input.as_bytes()));
  (input, b64)
}

#[derive(Clone, Debug)]
enum Pv {
  S(String),
  Oth(Vec<[String; 3]>),
}

#[derive(Clone, Debug, Default)]
struct Opt {
  use_: Option<usize>,
  key_ops: Option<Vec<usize>>,
  alg: Option<String>,
  kid: Option<String>,
  x5u: Option<String>,
  x5c: Option<Vec<String>>,
  x5t: Option<String>,
  x5t_s256: Option<String>,
}

impl Opt {
  fn mask(&self) -> u32 {
    (self.use_.is_some() as u32)
      | (self.key_ops.is_some() as u32) << 1
      | (self.alg.is_some() as u32) << 2
      | (self.kid.is_some() as u32) << 3
      | (self.x5u.is_some() as u32) << 4
      | (self.x5c.is_some() as u32) << 5
      | (self.x5t.is_some() as u32) << 6
      | (self.x5t_s256.is_some() as u32) << 7
  }
  fn from_mask(mask: u32, rng: &mut Rng) -> Opt {
    let mut o = Opt::default();
    if mask & 1 != 0 {
      o.use_ = Some(rng.usize(USES.len()));
    }
    if mask & 2 != 0 {
      let n = rng.usize(4);
      o.key_ops = Some((0..n).map(|_| rng.usize(OPS.len())).collect());
    }
    if mask & 4 != 0 {
      o.alg = Some(rng.pick(&["EdDSA", "ES256", "ES256K", "RS256", "HS256", "none", ""]).to_string());
    }
    if mask & 8 != 0 {
      o.kid = Some(match rng.below(4) {
        0 => "key-1".to_string(),
        1 => "d".to_string(),
        2 => b64ish(rng, 43),
        _ => "2011-04-29".to_string(),
      });
    }
    if mask & 16 != 0 {
      o.x5u = Some("https://example.com/cert.pem".to_string());
    }
    if mask & 32 != 0 {
      o.x5c = Some(vec!["MIIBszCCAVmgAwIBAgIU".to_string()]);
    }
    if mask & 64 != 0 {
      o.x5t = Some(b64ish(rng, 27));
    }
    if mask & 128 != 0 {
      o.x5t_s256 = Some(b64ish(rng, 43));
    }
    o
  }
  fn members(&self, v: &mut Vec<(String, String)>) {
    if let Some(i) = self.use_ {
      v.push(("use".into(), js(USES[i].0)));
    }
    if let Some(ops) = &self.key_ops {
      let a: Vec<String> = ops.iter().map(|i| js(OPS[*i].0)).collect();
      v.push(("key_ops".into(), format!("[{}]", a.join(","))));
    }
    if let Some(s) = &self.alg {
      v.push(("alg".into(), js(s)));
    }
    if let Some(s) = &self.kid {
      v.push(("kid".into(), js(s)));
    }
    if let Some(s) = &self.x5u {
      v.push(("x5u".into(), js(s)));
    }
    if let Some(c) = &self.x5c {
      let a: Vec<String> = c.iter().map(|s| js(s)).collect();
      v.push(("x5c".into(), format!("[{}]", a.join(","))));
    }
    if let Some(s) = &self.x5t {
      v.push(("x5t".into(), js(s)));
    }
    if let Some(s) = &self.x5t_s256 {
      v.push(("x5t#S256".into(), js(s)));
    }
  }
  fn apply(&self, j: &mut Jwk) {
    if let Some(i) = self.use_ {
      j.set_use(USES[i].1);
    }
    if let Some(ops) = &self.key_ops {
      j.set_key_ops(ops.iter().map(|i| OPS[*i].1));
    }
    if let Some(s) = &self.alg {
      j.set_alg(s.clone());
    }
    if let Some(s) = &self.kid {
      j.set_kid(s.clone());
    }
    if let Some(s) = &self.x5u {
      j.set_x5u(Url::parse(s).expect("harness url"));
    }
    if let Some(c) = &self.x5c {
      j.set_x5c(c.iter().cloned());
    }
    if let Some(s) = &self.x5t {
      j.set_x5t(s.clone());
    }
    if let Some(s) = &self.x5t_s256 {
      j.set_x5t_s256(s.clone());
    }
  }
}

/// A JWK as the harness means it: one family, its required members, the private members present.
#[derive(Clone, Debug)]
struct Spec {
  fam: Fam,
  req: Vec<(&'static str, String)>,
  privs: Vec<(&'static str, Pv)>,
  opt: Opt,
}

impl Spec {
  fn priv_mask(&self) -> u32 {
    let names = self.fam.priv_names();
    let mut m = 0;
    for (k, _) in &self.privs {
      if let Some(i) = names.iter().position(|n| n == k) {
        m |= 1 << i;
      }
    }
    m
  }
  fn plain(&self) -> bool {
    self.req.iter().all(|(_, v)| plain(v))
  }
  fn get(&self, n: &str) -> String {
    self.req.iter().find(|(k, _)| *k == n).map(|(_, v)| v.clone()).unwrap_or_default()
  }
  fn ps(&self, n: &str) -> Option<String> {
    self.privs.iter().find_map(|(k, v)| match v {
      Pv::S(s) if *k == n => Some(s.clone()),
      _ => None,
    })
  }
  fn params(&self) -> JwkParams {
    match self.fam {
      Fam::Ec => JwkParams::Ec(JwkParamsEc { crv: self.get("crv"), x: self.get("x"), y: self.get("y"), d: self.ps("d") }),
      Fam::Okp => JwkParams::Okp(JwkParamsOkp { crv: self.get("crv"), x: self.get("x"), d: self.ps("d") }),
      Fam::Oct => JwkParams::Oct(JwkParamsOct { k: self.get("k") }),
      Fam::Rsa => {
        let oth = self.privs.iter().find_map(|(k, v)| match v {
          Pv::Oth(o) if *k == "oth" => {
            Some(o.iter().map(|[r, d, t]| JwkParamsRsaPrime { r: r.clone(), d: d.clone(), t: t.clone() }).collect::<Vec<_>>())
          }
          _ => None,
        });
        JwkParams::Rsa(JwkParamsRsa {
          n: self.get("n"),
          e: self.get("e"),
          d: self.ps("d"),
          p: self.ps("p"),
          q: self.ps("q"),
          dp: self.ps("dp"),
          dq: self.ps("dq"),
          qi: self.ps("qi"),
          oth,
        })
      }
    }
  }
  fn members(&self) -> Vec<(String, String)> {
    let mut v: Vec<(String, String)> = vec![("kty".into(), js(self.fam.name()))];
    for (k, val) in &self.req {
      v.push((k.to_string(), js(val)));
    }
    for (k, val) in &self.privs {
      v.push((k.to_string(), pv_json(val)));
    }
    self.opt.members(&mut v);
    v
  }
}

fn pv_json(v: &Pv) -> String {
  match v {
    Pv::S(s) => js(s),
    Pv::Oth(o) => {
      let a: Vec<String> = o.iter().map(|[r, d, t]| format!(r#"{{"r":{},"d":{},"t":{}}}"#, js(r), js(d), js(t))).collect();
      format!("[{}]", a.join(","))
    }
  }
}

fn render(members: &[(String, String)], ws: bool) -> String {
  let body: Vec<String> =
    members.iter().map(|(k, v)| if ws { format!(" {} : {} ", js(k), v) } else { format!("{}:{}", js(k), v) }).collect();
  format!("{{{}}}", body.join(","))
}

fn b64ish(rng: &mut Rng, len: usize) -> String {
  (0..len).map(|_| B64[rng.usize(64)] as char).collect()
}

fn rand_val(rng: &mut Rng, allow_nonplain: bool) -> String {
  let len = *rng.pick(&[1usize, 2, 4, 11, 22, 43, 44, 86, 171, 342]);
  match rng.below(12) {
    0 => String::new(),
    1 => format!("{}é✓{}", b64ish(rng, 3), b64ish(rng, 4)),
    2 if allow_nonplain => {
      let mut s = b64ish(rng, 6);
      s.push(*rng.pick(&['"', '\\', '\n', '\u{1}']));
      s.push_str(&b64ish(rng, 5));
      s
    }
    _ => b64ish(rng, len),
  }
}

fn fixed_req(fam: Fam) -> Vec<(&'static str, String)> {
  match fam {
    Fam::Ec => {
      let (x, y) = Key::new(Alg::ES256, 1).public_xy();
      vec![("crv", "P-256".into()), ("x", url_encode(&x)), ("y", url_encode(&y))]
    }
    Fam::Okp => {
      let (x, _) = Key::new(Alg::EdDSA, 1).public_xy();
      vec![("crv", "Ed25519".into()), ("x", url_encode(&x))]
    }
    Fam::Rsa => vec![("n", RFC7638_N.into()), ("e", "AQAB".into())],
    Fam::Oct => vec![("k", "GawgguFyGrWKav7AX4VKUg".into())],
  }
}

fn priv_value(name: &'static str, rng: &mut Rng) -> Pv {
  if name == "oth" {
    let n = rng.usize(3);
    Pv::Oth((0..n).map(|_| [b64ish(rng, 11), b64ish(rng, 11), b64ish(rng, 11)]).collect())
  } else if rng.chance(1, 16) {
    Pv::S(String::new())
  } else {
    let l = *rng.pick(&[4usize, 22, 43, 86]);
    Pv::S(b64ish(rng, l))
  }
}

fn privs_from_mask(fam: Fam, mask: u32, rng: &mut Rng) -> Vec<(&'static str, Pv)> {
  let names = fam.priv_names();
  let mut v = Vec::new();
  for (i, n) in names.iter().enumerate() {
    if mask & (1 << i) != 0 {
      v.push((*n, priv_value(n, rng)));
    }
  }
  v
}

fn random_spec(rng: &mut Rng) -> Spec {
  let fam = *rng.pick(&FAMS);
  let nonplain = rng.chance(1, 10);
  let mut req: Vec<(&'static str, String)> = Vec::new();
  for n in fam.req_names() {
    let v = if *n == "crv" && rng.chance(5, 6) {
      match fam {
        Fam::Ec => rng.pick(&["P-256", "P-384", "P-521", "secp256k1", "BLS12381G2", "Ed25519", ""]).to_string(),
        _ => rng.pick(&["Ed25519", "Ed448", "X25519", "X448", "P-256", ""]).to_string(),
      }
    } else {
      rand_val(rng, nonplain)
    };
    req.push((n, v));
  }
  let np = fam.priv_names().len() as u32;
  let pmask = if np == 0 {
    0
  } else {
    match rng.below(4) {
      0 => 0,
      1 => (1 << np) - 1,
      2 => 1 << rng.below(np as u64),
      _ => rng.below(1 << np) as u32,
    }
  };
  let omask = if rng.chance(1, 4) { 0 } else { rng.below(256) as u32 };
  Spec { fam, req, privs: privs_from_mask(fam, pmask, rng), opt: Opt::from_mask(omask, rng) }
}

#[derive(Clone, Copy, Debug, PartialEq, Eq)]
enum Route {
  FromParams,
  NewSetParams,
  SetKtySetParams,
  Json,
  JsonValue,
}
const ROUTES: [Route; 5] = [Route::FromParams, Route::NewSetParams, Route::SetKtySetParams, Route::Json, Route::JsonValue];

impl Route {
  fn name(self) -> &'static str {
    match self {
      Route::FromParams => "from_params",
      Route::NewSetParams => "new+set_params",
      Route::SetKtySetParams => "new+set_kty+set_params",
      Route::Json => "from_json",
      Route::JsonValue => "from_json_value",
    }
  }
  /// Class used in the coherence signature (one per mechanism, not per input).
  fn class(self) -> &'static str {
    match self {
      Route::FromParams => "from_params",
      Route::NewSetParams | Route::SetKtySetParams => "set_params",
      Route::Json | Route::JsonValue => "deserialize",
    }
  }
}

/// `Info::class` of a JWK whose declared type the harness itself made differ from the parameters carried, through
/// the explicitly unchecked setters. The mismatch is then not judged; everything the statement says about "every JWK" is.
const UNCHECKED: &str = "unchecked";

/// Ways to put parameters of any family under any declared type, and to add / remove private members afterwards.
#[derive(Clone, Copy, Debug, PartialEq, Eq)]
enum URoute {
  SetUnchecked,
  ParamsMutAssign,
  /// built with the private members, which are then removed in place (observed before and after)
  ClearInPlace,
  /// built without private members, which are then set in place (observed before and after)
  AddInPlace,
}
const UROUTES: [URoute; 4] = [URoute::SetUnchecked, URoute::ParamsMutAssign, URoute::ClearInPlace, URoute::AddInPlace];

impl URoute {
  fn name(self) -> &'static str {
    match self {
      URoute::SetUnchecked => "new+set_params_unchecked",
      URoute::ParamsMutAssign => "new+params_mut-assign",
      URoute::ClearInPlace => "new+set_params_unchecked+clear-private-in-place",
      URoute::AddInPlace => "new+set_params_unchecked+set-private-in-place",
    }
  }
}

/// Makes the private members of `j` those of `target` (same family), leaving the public ones alone; through the
/// family-checked accessors (`via_try`) or through `params_mut()`. False when the families differ.
fn edit_privs(j: &mut Jwk, target: &JwkParams, via_try: bool) -> bool {
  match target {
    JwkParams::Ec(t) => {
      let p = if via_try { j.try_ec_params_mut().ok() } else if let JwkParams::Ec(p) = j.params_mut() { Some(p) } else { None };
      p.map(|p| p.d = t.d.clone()).is_some()
    }
    JwkParams::Okp(t) => {
      let p = if via_try { j.try_okp_params_mut().ok() } else if let JwkParams::Okp(p) = j.params_mut() { Some(p) } else { None };
      p.map(|p| p.d = t.d.clone()).is_some()
    }
    JwkParams::Rsa(t) => {
      let p = if via_try { j.try_rsa_params_mut().ok() } else if let JwkParams::Rsa(p) = j.params_mut() { Some(p) } else { None };
      p.map(|p| {
        p.d = t.d.clone();
        p.p = t.p.clone();
        p.q = t.q.clone();
        p.dp = t.dp.clone();
        p.dq = t.dq.clone();
        p.qi = t.qi.clone();
        p.oth = t.oth.clone();
      })
      .is_some()
    }
    JwkParams::Oct(_) => {
      if via_try {
        j.try_oct_params_mut().is_ok()
      } else {
        matches!(j.params_mut(), JwkParams::Oct(_))
      }
    }
  }
}

/// Context of the case for violation records.
struct Info {
  origin: String,
  class: &'static str,
  input: String,
}

impl Info {
  fn j(&self) -> Value {
    json!({"origin": self.origin, "input": self.input})
  }
}

fn guard<T>(rep: &mut Report, what: &str, info: &Info, f: impl FnOnce() -> T) -> Option<T> {
  match catch(f) {
    Ok(v) => Some(v),
    Err(p) => {
      if p.in_harness() {
        eprintln!("harness bug in {}: {} at {} (input {})", what, p.msg, p.loc(), info.input);
        std::process::exit(70);
      }
      rep.violation(
        &format!("panic:{}@{}", what, p.file_only()),
        &format!("{} panicked: {} at {} on {}", what, p.msg, p.loc(), info.input),
        info.j(),
      );
      None
    }
  }
}

fn obj_priv_keys(v: &Value) -> Vec<String> {
  match v {
    Value::Object(m) => m.keys().filter(|k| PRIV_NAMES.contains(&k.as_str())).cloned().collect(),
    _ => Vec::new(),
  }
}

/// Every object key anywhere in `v` that is a private JWK member name; `jwks` counts publicKeyJwk/jwk objects seen.
fn deep_priv_keys(v: &Value, out: &mut Vec<String>, jwks: &mut u64) {
  match v {
    Value::Object(m) => {
      for (k, x) in m {
        if PRIV_NAMES.contains(&k.as_str()) {
          out.push(k.clone());
        }
        if (k == "publicKeyJwk" || k == "jwk") && x.is_object() {
          *jwks += 1;
        }
        deep_priv_keys(x, out, jwks);
      }
    }
    Value::Array(a) => {
      for x in a {
        deep_priv_keys(x, out, jwks);
      }
    }
    _ => {}
  }
}

const CONTAINERS: [&str; 6] = ["JwkSet", "JwsHeader", "VerificationMethod", "CoreDocument", "did:jwk", "JwkGenOutput"];

fn container_class(c: &str) -> &'static str {
  match c {
    "JwkSet" => "deserialize-in:JwkSet",
    "JwsHeader" => "deserialize-in:JwsHeader",
    "VerificationMethod" => "deserialize-in:VerificationMethod",
    "CoreDocument" => "deserialize-in:CoreDocument",
    "did:jwk" => "deserialize-in:did-jwk",
    _ => "deserialize-in:JwkGenOutput",
  }
}

/// Reads the JWK JSON `text` embedded in container `c`; the JWKs the container hands out.
fn read_container(c: &str, text: &str) -> Result<Vec<Jwk>, String> {
  let method = format!(r#"{{"id":"did:example:c18#key-1","controller":"did:example:c18","type":"JsonWebKey2020","publicKeyJwk":{}}}"#, text);
  match c {
    "JwkSet" => {
      let set: JwkSet = serde_json::from_str(&format!(r#"{{"keys":[{}]}}"#, text)).map_err(|e| e.to_string())?;
      Ok(set.iter().cloned().collect())
    }
    "JwsHeader" => {
      let h: JwsHeader = serde_json::from_str(&format!(r#"{{"alg":"EdDSA","kid":"did:example:c18#key-1","jwk":{}}}"#, text)).map_err(|e| e.to_string())?;
      Ok(h.jwk().cloned().into_iter().collect())
    }
    "VerificationMethod" => {
      let m = VerificationMethod::from_json(&method).map_err(|e| e.to_string())?;
      Ok(m.data().public_key_jwk().cloned().into_iter().collect())
    }
    "CoreDocument" => {
      let d = CoreDocument::from_json(&format!(r#"{{"id":"did:example:c18","verificationMethod":[{}]}}"#, method)).map_err(|e| e.to_string())?;
      Ok(d.methods(None).iter().filter_map(|m| m.data().public_key_jwk().cloned()).collect())
    }
    "did:jwk" => {
      let d = DIDJwk::parse(&format!("did:jwk:{}", url_encode(text.as_bytes()))).map_err(|e| e.to_string())?;
      Ok(vec![d.jwk()])
    }
    _ => {
      let o: JwkGenOutput = serde_json::from_str(&format!(r#"{{"key_id":"key-id-1","jwk":{}}}"#, text)).map_err(|e| e.to_string())?;
      Ok(vec![o.jwk])
    }
  }
}

/// What the harness can read off a JWK value (declared type, parameters, its JSON) - used to tell whether a
/// container handed out the same value as the plain route.
type Fingerprint = (Fam, Fam, Vec<&'static str>, Vec<(&'static str, String)>, Option<Value>);

fn fingerprint(j: &Jwk) -> Fingerprint {
  let v = view(j.params());
  (Fam::of(j.kty()), v.fam, v.privs, v.req, serde_json::to_value(j).ok())
}

#[derive(Clone, Copy, Debug, PartialEq, Eq)]
enum ExtStep {
  /// `Jwk::try_from(ext)`
  Direct,
  /// `Jwk::try_from(ext.to_public())` - the source crate's own projection first
  ToPublicFirst,
  /// the source written to JSON and read back (untagged: may land in the other parameter variant) first
  JsonFirst,
}
const EXT_STEPS: [ExtStep; 3] = [ExtStep::Direct, ExtStep::ToPublicFirst, ExtStep::JsonFirst];

impl ExtStep {
  fn name(self) -> &'static str {
    match self {
      ExtStep::Direct => "try_from(ext)",
      ExtStep::ToPublicFirst => "try_from(ext.to_public())",
      ExtStep::JsonFirst => "try_from(ext<-json)",
    }
  }
}

#[derive(Clone, Debug, Default)]
struct ExtOpt {
  kid: Option<String>,
  use_: Option<usize>,
  key_ops: Option<Vec<usize>>,
  alg: Option<usize>,
  x5u: Option<String>,
  x5c: Option<Vec<String>>,
  x5t: Option<String>,
}

impl ExtOpt {
  fn from_mask(mask: u32, rng: &mut Rng) -> ExtOpt {
    let mut o = ExtOpt::default();
    if mask & 1 != 0 {
      o.kid = Some(rng.pick(&["key-1", "d", "", "did:example:c18#k"]).to_string());
    }
    if mask & 2 != 0 {
      o.use_ = Some(rng.usize(3));
    }
    if mask & 4 != 0 {
      let n = rng.usize(4);
      o.key_ops = Some((0..n).map(|_| rng.usize(EXT_OPS.len())).collect());
    }
    if mask & 8 != 0 {
      o.alg = Some(rng.usize(EXT_ALGS.len()));
    }
    if mask & 16 != 0 {
      o.x5u = Some(rng.pick(&["https://example.com/cert.pem", "not a url"]).to_string());
    }
    if mask & 32 != 0 {
      o.x5c = Some(vec!["MIIBszCCAVmgAwIBAgIU".to_string()]);
    }
    if mask & 64 != 0 {
      o.x5t = Some(b64ish(rng, 27));
    }
    o
  }
  fn count(&self) -> u32 {
    self.kid.is_some() as u32
      + self.use_.is_some() as u32
      + self.key_ops.is_some() as u32
      + self.alg.is_some() as u32
      + self.x5u.is_some() as u32
      + self.x5c.is_some() as u32
      + self.x5t.is_some() as u32
  }
}

/// One source key of the typed conversion `Jwk::try_from(jsonprooftoken::jwk::key::Jwk)`.
#[derive(Clone, Debug)]
struct ExtCase {
  /// EllipticCurve parameter variant (crv, x, y[, d]) or OctetKeyPair variant (crv, x[, d])
  ec_shape: bool,
  crv: usize,
  /// index into EXT_KTYS: the `kty` field the source parameters declare (public, independent of the variant)
  kty: usize,
  x: String,
  y: String,
  d: Option<String>,
  opt: ExtOpt,
  step: ExtStep,
}

impl ExtCase {
  fn build(&self) -> JwkExt {
    let crv = EXT_CURVES[self.crv].clone();
    let kty = EXT_KTYS[self.kty].0;
    let params = if self.ec_shape {
      JwkAlgorithmParameters::EllipticCurve(JwkEllipticCurveKeyParameters { kty, crv, x: self.x.clone(), y: self.y.clone(), d: self.d.clone() })
    } else {
      JwkAlgorithmParameters::OctetKeyPair(JwkOctetKeyPairParameters { kty, crv, x: self.x.clone(), d: self.d.clone() })
    };
    let mut e = JwkExt::from_key_params(params);
    e.kid = self.opt.kid.clone();
    e.pk_use = self.opt.use_.map(|i| [PKUse::Signature, PKUse::Encryption, PKUse::Proof][i]);
    e.key_ops = self.opt.key_ops.as_ref().map(|v| v.iter().map(|i| EXT_OPS[*i]).collect());
    e.alg = self.opt.alg.map(|i| Algorithm::Proof(EXT_ALGS[i]));
    e.x5u = self.opt.x5u.clone();
    e.x5c = self.opt.x5c.clone();
    e.x5t = self.opt.x5t.clone();
    e
  }
  fn class(&self) -> String {
    format!(
      "ext|{}|{}|kty{}|d{}|o{}|{}",
      if self.ec_shape { "ecvariant" } else { "okpvariant" },
      CURVES[self.crv],
      EXT_KTYS[self.kty].1,
      self.d.is_some() as u8,
      self.opt.count().min(2),
      self.step.name()
    )
  }
}

struct Cx {
  rep: Report,
  did: CoreDID,
  did_url: DIDUrl,
  n_obs: u64,
  /// 1 = every odd-JSON case is also read through the containers; n = every n-th (reduced-scale runs)
  container_every: u64,
  n_odd: u64,
}

impl Cx {
  /// Applies every monitor to one JWK. `spec` = what the harness meant (None when only the library's
  /// in-memory value is known). Returns the library thumbprint when it could be taken.
  fn observe(&mut self, j: &Jwk, info: &Info, spec: Option<&Spec>, depth: u8) -> Option<String> {
    self.n_obs += 1;
    self.rep.inc("jwks_observed");
    let (declared, v) = guard(&mut self.rep, "kty/params", info, || (Fam::of(j.kty()), view(j.params())))?;

    // ---- declared type == family of the parameters carried
    self.rep.inc("oracle_coherence");
    let coherent = declared == v.fam;
    if !coherent && info.class == UNCHECKED {
      // put there by the harness through an explicitly unchecked setter: the mismatch itself is not judged,
      // every other clause ("for every JWK") is
      self.rep.inc("unchecked_mismatch_observed");
    } else if !coherent {
      self.rep.inc(&format!("mismatch:{}->{}", declared.name(), v.fam.name()));
      self.rep.violation(
        &format!("kty-params-mismatch:{}", info.class),
        &format!("kty() = {} but params() carries {} parameters; obtained via {} from {}", declared.name(), v.fam.name(), info.origin, info.input),
        json!({"origin": info.origin, "input": info.input, "declared": declared.name(), "carried": v.fam.name()}),
      );
    }

    // ---- is_public <=> no private member
    let has_private = !v.privs.is_empty();
    if let Some((is_pub, is_priv)) = guard(&mut self.rep, "is_public", info, || (j.is_public(), j.is_private())) {
      self.rep.inc("oracle_is_public");
      self.rep.inc(if has_private { "with_private_member" } else { "without_private_member" });
      if is_pub == has_private {
        let which = if v.fam == Fam::Rsa && v.privs.len() == 1 { format!("RSA:only-{}", v.privs[0]) } else { v.fam.name().to_string() };
        self.rep.violation(
          &format!("is_public-wrong:{}", which),
          &format!("is_public() = {} although private members present = {:?}; {}", is_pub, v.privs, info.input),
          info.j(),
        );
      }
      if is_priv && !has_private {
        self.rep.violation(
          &format!("is_private-without-private-member:{}", v.fam.name()),
          &format!("is_private() = true but no private member is present; {}", info.input),
          info.j(),
        );
      }
    }

    // ---- public projection
    let mut thumb_j: Option<String> = None;
    let tp = guard(&mut self.rep, "to_public", info, || {
      j.to_public().map(|p| {
        let pj = serde_json::to_value(&p).ok();
        let pp = p.to_public();
        let ppj = pp.as_ref().and_then(|x| serde_json::to_value(x).ok());
        let same = pp.as_ref().map(|x| *x == p);
        let pv = view(p.params());
        let pk = Fam::of(p.kty());
        let ppub = p.is_public();
        let tpub = p.thumbprint_sha256_b64();
        (pj, ppj, same, pv, pk, ppub, tpub)
      })
    });
    let tj = guard(&mut self.rep, "thumbprint", info, || (j.thumbprint_sha256_b64(), j.thumbprint_sha256(), j.thumbprint_hash_input()));
    match tp {
      None => {}
      Some(None) => {
        if v.fam != Fam::Oct {
          self.rep.violation(
            &format!("to_public-none:{}", v.fam.name()),
            &format!("to_public() returned None for a {} key; {}", v.fam.name(), info.input),
            info.j(),
          );
        } else {
          self.rep.inc("to_public_none_oct");
        }
      }
      Some(Some((pj, ppj, same, pv, pk, ppub, tpub))) => {
        self.rep.inc("oracle_to_public");
        if has_private {
          self.rep.inc("to_public_of_private");
        }
        let mut leaked: Vec<String> = pv.privs.iter().map(|s| s.to_string()).collect();
        match &pj {
          Some(x) => leaked.extend(obj_priv_keys(x)),
          None => self.rep.inc("to_public_json_failed"),
        }
        leaked.sort();
        leaked.dedup();
        if !leaked.is_empty() {
          self.rep.violation(
            &format!("to_public-leaks:{}:{}", v.fam.name(), leaked.join("+")),
            &format!("to_public() still carries private member(s) {:?}; {}", leaked, info.input),
            json!({"origin": info.origin, "input": info.input, "to_public": pj}),
          );
        } else if !ppub {
          self.rep.violation(
            &format!("to_public-not-public:{}", v.fam.name()),
            &format!("to_public().is_public() = false; {}", info.input),
            info.j(),
          );
        }
        if coherent {
          if pk != declared {
            self.rep.violation(
              &format!("to_public-changes-kty:{}", declared.name()),
              &format!("to_public().kty() = {} but kty() = {}; {}", pk.name(), declared.name(), info.input),
              info.j(),
            );
          }
          let json_keeps = pj.as_ref().map_or(true, |x| {
            x.get("kty").and_then(|k| k.as_str()) == Some(declared.name())
              && v.req.iter().all(|(k, val)| x.get(*k).and_then(|s| s.as_str()) == Some(val.as_str()))
          });
          if pv.fam != v.fam || pv.req != v.req || !json_keeps {
            self.rep.violation(
              &format!("to_public-changes-public-params:{}", v.fam.name()),
              &format!("to_public() does not keep the public members {:?}; {}", v.req, info.input),
              json!({"origin": info.origin, "input": info.input, "to_public": pj}),
            );
          }
          if let Some((t, _, _)) = &tj {
            self.rep.inc("oracle_thumb_private_invariance");
            if *t != tpub {
              self.rep.violation(
                &format!("thumbprint-changes-with-private-part:{}", v.fam.name()),
                &format!("thumbprint {} but thumbprint of to_public() {}; {}", t, tpub, info.input),
                info.j(),
              );
            }
          }
        }
        if !coherent && info.class == UNCHECKED {
          // which of the two disagreeing types the projection of such a key should keep is not judged; observation only
          self.rep.inc(if pk == declared { "obs_unchecked_to_public_keeps_declared_kty" } else { "obs_unchecked_to_public_changes_declared_kty" });
        }
        // idempotence of the projection (whole JWK)
        self.rep.inc("oracle_idempotent");
        if same != Some(true) {
          let fields = match (&pj, &ppj) {
            (Some(Value::Object(a)), Some(Value::Object(b))) => {
              let mut ks: Vec<&String> = a.keys().chain(b.keys()).filter(|k| a.get(*k) != b.get(*k)).collect();
              ks.sort();
              ks.dedup();
              ks.iter().map(|s| s.as_str()).collect::<Vec<_>>().join("+")
            }
            _ => "none".to_string(),
          };
          self.rep.violation(
            &format!("to_public-not-idempotent:{}", fields),
            &format!("to_public(to_public(x)) != to_public(x), differing members: {}; x = {}", fields, info.input),
            json!({"origin": info.origin, "input": info.input, "to_public": pj, "to_public_twice": ppj}),
          );
        }
      }
    }

    // ---- thumbprint == RFC 7638 over required members
    if let Some((t, raw, hin)) = tj {
      if url_encode(&raw) != t {
        self.rep.violation("thumbprint-b64-vs-raw", &format!("thumbprint_sha256_b64 != base64url(thumbprint_sha256); {}", info.input), info.j());
      }
      if coherent {
        let req: &Vec<(&'static str, String)> = spec.map(|s| &s.req).unwrap_or(&v.req);
        let (rin, rb) = ref_thumb(v.fam, req);
        if req.iter().all(|(_, s)| plain(s)) {
          self.rep.inc("oracle_thumbprint_ref");
          if t != rb {
            self.rep.violation(
              &format!("thumbprint-mismatch:{}", v.fam.name()),
              &format!("thumbprint {} but RFC 7638 reference {} (library hash input {}, reference {}); {}", t, rb, hin, rin, info.input),
              json!({"origin": info.origin, "input": info.input, "library_hash_input": hin, "reference_hash_input": rin}),
            );
          }
        } else {
          self.rep.inc("thumbprint_nonplain_values");
          if t != rb {
            // RFC 7638 leaves escaping of such values to the application; observation only.
            self.rep.inc("obs_thumbprint_differs_from_escaped_reference");
          }
        }
      }
      thumb_j = Some(t);
    }

    // ---- verification-method constructors
    self.vm_checks(j, has_private, v.fam, info, depth == 0 && self.n_obs % 4 == 0);

    // ---- the same JWK after a trip through its own JSON
    if depth == 0 {
      if let Some(Ok((text, back))) = guard(&mut self.rep, "to_json/from_json", info, || j.to_json().map(|s| (Jwk::from_json(&s), s)).map(|(b, s)| (s, b))) {
        match back {
          Ok(j2) => {
            self.rep.inc("reserialized_accepted");
            let info2 = Info { origin: format!("{} -> to_json -> from_json", info.origin), class: if coherent || info.class == UNCHECKED { "deserialize" } else { info.class }, input: text };
            let t2 = self.observe(&j2, &info2, if coherent { spec } else { None }, depth + 1);
            if coherent && t2.is_some() && thumb_j.is_some() && t2 != thumb_j {
              self.rep.violation(
                "thumbprint-changes-over-json-roundtrip",
                &format!("thumbprint {:?} became {:?} after to_json/from_json; {}", thumb_j, t2, info2.input),
                info2.j(),
              );
            }
          }
          Err(_) => self.rep.inc("reserialized_rejected"),
        }
      }
    }
    thumb_j
  }

  fn vm_result(&mut self, ctor: &'static str, res: Option<Result<VerificationMethod, String>>, has_private: bool, fam: Fam, info: &Info) {
    let Some(res) = res else { return };
    self.rep.inc("oracle_vm_constructor");
    match res {
      Err(_) => {
        self.rep.inc(if has_private { "vm_private_refused" } else { "vm_public_refused" });
      }
      Ok(vm) => {
        if has_private {
          self.rep.violation(
            &format!("vm-accepts-private:{}", ctor),
            &format!("{} built a verification method from a {} JWK that has a private member; {}", ctor, fam.name(), info.input),
            info.j(),
          );
        } else {
          self.rep.inc("vm_public_accepted");
        }
        if let Some(Ok(vj)) = guard(&mut self.rep, "vm-to-json", info, || serde_json::to_value(&vm)) {
          let mut keys = Vec::new();
          let mut n = 0;
          deep_priv_keys(vj.get("publicKeyJwk").unwrap_or(&Value::Null), &mut keys, &mut n);
          self.rep.inc("vm_json_scanned");
          if !keys.is_empty() {
            self.rep.violation(
              &format!("vm-json-leaks:{}", ctor),
              &format!("verification method built by {} serialises private member(s) {:?}; {}", ctor, keys, info.input),
              json!({"origin": info.origin, "input": info.input, "method": vj}),
            );
          }
        }
      }
    }
  }

  fn vm_checks(&mut self, j: &Jwk, has_private: bool, fam: Fam, info: &Info, with_did_jwk: bool) {
    let did = self.did.clone();
    let r = guard(&mut self.rep, "new_from_jwk", info, || {
      VerificationMethod::new_from_jwk(did, j.clone(), Some("#key-1")).map_err(|e| e.to_string())
    });
    self.vm_result("new_from_jwk", r, has_private, fam, info);

    let did = self.did.clone();
    let r = guard(&mut self.rep, "new_from_jwk", info, || VerificationMethod::new_from_jwk(did, j.clone(), None).map_err(|e| e.to_string()));
    self.vm_result("new_from_jwk", r, has_private, fam, info);

    let (did, url) = (self.did.clone(), self.did_url.clone());
    let alt = self.n_obs % 2 == 1;
    let ty = if alt { MethodType::ED25519_VERIFICATION_KEY_2018 } else { MethodType::JSON_WEB_KEY_2020 };
    let r = guard(&mut self.rep, "MethodBuilder::build", info, || {
      let b = if alt { VerificationMethod::builder(Object::new()) } else { MethodBuilder::default() };
      b.id(url).controller(did).type_(ty).data(MethodData::PublicKeyJwk(j.clone())).build().map_err(|e| e.to_string())
    });
    self.vm_result("MethodBuilder::build", r, has_private, fam, info);

    if with_did_jwk {
      let r = guard(&mut self.rep, "did:jwk", info, || {
        let text = j.to_json().map_err(|e| e.to_string())?;
        let d = DIDJwk::parse(&format!("did:jwk:{}", url_encode(text.as_bytes()))).map_err(|e| e.to_string())?;
        let inner = d.jwk();
        let inner_private = !view(inner.params()).privs.is_empty();
        Ok::<_, String>((VerificationMethod::try_from(d).map_err(|e| e.to_string()), inner_private))
      });
      match r {
        Some(Ok((res, inner_private))) => {
          self.rep.inc("did_jwk_parsed");
          self.vm_result("TryFrom<DIDJwk>", Some(res), inner_private, fam, info);
        }
        Some(Err(_)) => self.rep.inc("did_jwk_rejected"),
        None => {}
      }
    }
  }

  /// One well-formed JWK built through `route`.
  fn wellformed(&mut self, spec: &Spec, route: Route, rng: &mut Rng) -> Option<String> {
    self.rep.eval();
    let mut members = spec.members();
    let permuted = rng.chance(3, 4);
    if permuted {
      rng.shuffle(&mut members);
    }
    let text = render(&members, rng.chance(1, 8));
    let info = Info { origin: route.name().to_string(), class: route.class(), input: text.clone() };
    self.rep.inc(&format!("route:{}", route.name()));
    let other = FAMS[(FAMS.iter().position(|f| *f == spec.fam).unwrap() + 1 + rng.usize(3)) % 4];
    let built: Option<Result<Jwk, String>> = guard(&mut self.rep, route.name(), &info, || match route {
      Route::FromParams => {
        let mut j = Jwk::from_params(spec.params());
        spec.opt.apply(&mut j);
        Ok(j)
      }
      Route::NewSetParams => {
        let mut j = Jwk::new(spec.fam.ty());
        spec.opt.apply(&mut j);
        j.set_params(spec.params()).map_err(|e| e.to_string())?;
        Ok(j)
      }
      Route::SetKtySetParams => {
        let mut j = Jwk::new(other.ty());
        spec.opt.apply(&mut j);
        j.set_kty(spec.fam.ty());
        j.set_params(spec.params()).map_err(|e| e.to_string())?;
        Ok(j)
      }
      Route::Json => Jwk::from_json(&text).map_err(|e| e.to_string()),
      Route::JsonValue => {
        let v: Value = serde_json::from_str(&text).expect("harness JSON is valid");
        Jwk::from_json_value(v).map_err(|e| e.to_string())
      }
    });
    match built? {
      Err(e) => {
        self.rep.inc("wellformed_rejected");
        if self.rep.get("wellformed_rejected") <= 3 {
          self.rep.note(&format!("wellformed_rejected_example_{}", self.rep.get("wellformed_rejected")), json!({"input": text, "route": route.name(), "error": e}));
        }
        None
      }
      Ok(j) => {
        self.rep.inc("wellformed_built");
        self.rep.distinct(
          "nontrivial",
          &format!("wf|{}|p{}|o{}|{}|perm{}|plain{}", spec.fam.name(), spec.priv_mask(), spec.opt.mask().count_ones(), route.name(), permuted as u8, spec.plain() as u8),
        );
        if self.rep.want_sample() && spec.priv_mask() != 0 && spec.opt.mask() != 0 && matches!(route, Route::Json) {
          self.rep.sample(json!({"route": route.name(), "input": text}));
        }
        let t = self.observe(&j, &info, Some(spec), 0);
        if route == Route::Json && self.rep.get("route:from_json") % 8 == 0 {
          self.containers("wellformed", &text, Some(&j));
        }
        t
      }
    }
  }

  /// A family of variants of one key identity: all thumbprints must agree (and equal the reference when plain).
  fn identity_group(&mut self, base: &Spec, variants: usize, rng: &mut Rng) {
    let minimal = Spec { fam: base.fam, req: base.req.clone(), privs: Vec::new(), opt: Opt::default() };
    let t0 = self.wellformed(&minimal, Route::FromParams, rng);
    let mut specs = vec![base.clone()];
    for _ in 1..variants {
      let np = base.fam.priv_names().len() as u32;
      let pmask = if np == 0 { 0 } else { rng.below(1 << np) as u32 };
      specs.push(Spec { fam: base.fam, req: base.req.clone(), privs: privs_from_mask(base.fam, pmask, rng), opt: Opt::from_mask(rng.below(256) as u32, rng) });
    }
    for s in &specs {
      let route = *rng.pick(&ROUTES);
      let t = self.wellformed(s, route, rng);
      if let (Some(a), Some(b)) = (&t0, &t) {
        self.rep.inc("oracle_thumb_variant_invariance");
        if a != b {
          let text = render(&s.members(), false);
          self.rep.violation(
            &format!("thumbprint-not-invariant:{}", base.fam.name()),
            &format!("thumbprint {} of the bare public key became {} with optional/private members or another member order; {}", a, b, text),
            json!({"route": route.name(), "input": text, "bare": render(&minimal.members(), false)}),
          );
        }
      }
    }
  }

  /// JSON whose `kty` and members disagree / overlap / are incomplete. Only what is accepted is judged.
  fn odd_json(&mut self, shape: &str, text: &str, via_value: bool) {
    self.rep.eval();
    let info = Info { origin: format!("{}[{}]", if via_value { "from_json_value" } else { "from_json" }, shape), class: "deserialize", input: text.to_string() };
    let r = guard(&mut self.rep, "from_json", &info, || {
      if via_value {
        match serde_json::from_str::<Value>(text) {
          Ok(v) => Jwk::from_json_value(v).map_err(|e| e.to_string()),
          Err(e) => Err(e.to_string()),
        }
      } else {
        Jwk::from_json(text).map_err(|e| e.to_string())
      }
    });
    self.n_odd += 1;
    let with_containers = self.n_odd % self.container_every == 0;
    match r {
      None => {}
      Some(Err(_)) => {
        self.rep.inc("odd_json_rejected");
        if with_containers {
          self.containers(shape, text, None);
        }
      }
      Some(Ok(j)) => {
        self.rep.inc("odd_json_accepted");
        self.rep.distinct("nontrivial", &format!("odd|{}", shape));
        self.observe(&j, &info, None, 0);
        if with_containers {
          self.containers(shape, text, Some(&j));
        }
      }
    }
  }

  /// The JSON text of one JWK read through every container type that embeds a JWK. `plain` = what the plain
  /// route made of the same text (None = rejected). Only what a container hands out is judged; a value equal to
  /// the plain route's has been judged there already.
  fn containers(&mut self, shape: &str, text: &str, plain: Option<&Jwk>) {
    let plain_fp: Option<Fingerprint> = plain.and_then(|j| catch(|| fingerprint(j)).ok());
    for c in CONTAINERS {
      let info = Info { origin: format!("{}[{}]", c, shape), class: container_class(c), input: text.to_string() };
      self.rep.inc("container_reads");
      let Some(r) = guard(&mut self.rep, "container-deserialize", &info, || read_container(c, text)) else { continue };
      match r {
        Err(e) => {
          self.rep.inc(if plain.is_some() { "container_rejected_plain_accepted" } else { "container_rejected_plain_rejected" });
          if plain.is_some() && self.rep.get("container_rejected_plain_accepted") <= 2 {
            let n = self.rep.get("container_rejected_plain_accepted");
            self.rep.note(&format!("container_rejected_plain_accepted_example_{}", n), json!({"container": c, "shape": shape, "input": text, "error": e}));
          }
        }
        Ok(js) => {
          for j in &js {
            self.rep.inc("container_jwks");
            let same = plain_fp.is_some() && guard(&mut self.rep, "kty/params", &info, || fingerprint(j)) == plain_fp;
            if same {
              self.rep.inc("container_same_as_plain");
            } else {
              let what = if plain.is_some() { "container_differs_from_plain" } else { "container_accepted_plain_rejected" };
              self.rep.inc(what);
              if self.rep.get(what) <= 2 {
                self.rep.note(&format!("{}_example_{}", what, self.rep.get(what)), json!({"container": c, "shape": shape, "input": text}));
              }
              self.rep.distinct("nontrivial", &format!("container|{}|{}", c, shape));
              self.observe(j, &info, None, 1);
            }
          }
        }
      }
    }
  }

  /// One key obtained through the typed conversion from a `jsonprooftoken` JWK (not JSON, not setters), and the
  /// same key after a trip `Jwk -> jsonprooftoken Jwk -> Jwk`. Only what the conversion hands out is judged.
  fn ext_conversion(&mut self, ext: JwkExt, step: ExtStep, class: &str) {
    self.rep.eval();
    self.rep.inc("ext_cases");
    self.rep.inc(&format!("ext_step:{}", step.name()));
    let src = serde_json::to_string(&ext).unwrap_or_else(|_| format!("{:?}", ext));
    let info = Info { origin: step.name().to_string(), class: "try_from_ext", input: format!("{} with ext = {}", step.name(), src) };
    // the source crate's own steps (not under test; a failure there just ends the case)
    let prepared: Option<JwkExt> = match step {
      ExtStep::Direct => Some(ext),
      ExtStep::ToPublicFirst => catch(|| ext.to_public()).ok().flatten(),
      ExtStep::JsonFirst => serde_json::from_str::<JwkExt>(&src).ok(),
    };
    let Some(prepared) = prepared else {
      self.rep.inc("ext_source_step_failed");
      return;
    };
    let (variant_ec, declared) = match &prepared.key_params {
      JwkAlgorithmParameters::EllipticCurve(p) => (true, p.kty),
      JwkAlgorithmParameters::OctetKeyPair(p) => (false, p.kty),
    };
    let variant_kty = if variant_ec { KeyType::EllipticCurve } else { KeyType::OctetKeyPair };
    self.rep.inc(if declared == variant_kty { "ext_source_kty_is_variant" } else { "ext_source_kty_differs_from_variant" });
    let Some(r) = guard(&mut self.rep, "Jwk::try_from(ext)", &info, || Jwk::try_from(prepared).map_err(|e| e.to_string())) else { return };
    match r {
      Err(_) => self.rep.inc("ext_refused"),
      Ok(j) => {
        self.rep.inc("ext_converted");
        if declared != variant_kty {
          self.rep.inc("ext_converted_source_kty_differs_from_variant");
        }
        self.rep.distinct("nontrivial", class);
        if self.rep.want_sample() && declared != variant_kty {
          self.rep.sample(json!({"route": step.name(), "ext": src}));
        }
        self.observe(&j, &info, None, 0);
        // ... and the way back and forth again
        let back = guard(&mut self.rep, "Jwk->ext->Jwk", &info, || {
          let e: JwkExt = TryInto::<JwkExt>::try_into(&j).map_err(|e| e.to_string())?;
          Jwk::try_from(e).map_err(|e| e.to_string())
        });
        match back {
          Some(Ok(j2)) => {
            self.rep.inc("ext_back_and_forth");
            let info2 = Info { origin: format!("{} -> try_into(ext) -> try_from(ext)", step.name()), class: "try_from_ext", input: info.input.clone() };
            self.observe(&j2, &info2, None, 1);
          }
          Some(Err(_)) => self.rep.inc("ext_back_refused"),
          None => {}
        }
      }
    }
  }

  /// Observes one key of an unchecked-setter group; its (thumbprint, hash input) when both could be taken.
  fn unchecked_state(&mut self, j: &Jwk, info: &Info, depth: u8) -> Option<(String, String)> {
    let t = self.observe(j, info, None, depth)?;
    let hin = guard(&mut self.rep, "thumbprint", info, || j.thumbprint_hash_input())?;
    Some((t, hin))
  }

  /// One key identity = (declared type, parameters of family `base.fam` with the public members `base.req`), the
  /// declared type being any of the four (the unchecked setters allow every combination). The thumbprint of the
  /// bare key (no private, no optional member) is compared with that of every variant: private-member subsets,
  /// optional members, the way the parameters got there, private members removed / added in place. The statement
  /// makes the thumbprint depend on the required public members only, for every JWK; the harness compares library
  /// values of the same identity with each other and does not say which value it is when the types disagree.
  fn unchecked_group(&mut self, declared: Fam, base: &Spec, variants: &[(u32, u32, URoute)], rng: &mut Rng) {
    self.rep.eval();
    self.rep.inc("unchecked_groups");
    let carried = base.fam;
    let mismatched = declared != carried;
    let class: &'static str = if mismatched { UNCHECKED } else { "set_params" };
    let tag = if mismatched { format!("kty-differs-from-params:{}", carried.name()) } else { carried.name().to_string() };
    let minimal = Spec { fam: carried, req: base.req.clone(), privs: Vec::new(), opt: Opt::default() };
    let describe = |s: &Spec, route: URoute, state: &str| -> String {
      format!("Jwk::new({}) then {} with {} parameters {} [{}]", declared.name(), route.name(), carried.name(), render(&s.members()[1..], false), state)
    };
    let info0 = Info { origin: URoute::SetUnchecked.name().to_string(), class, input: describe(&minimal, URoute::SetUnchecked, "as built") };
    let Some(bare) = guard(&mut self.rep, URoute::SetUnchecked.name(), &info0, || {
      let mut j = Jwk::new(declared.ty());
      j.set_params_unchecked(minimal.params());
      j
    }) else {
      return;
    };
    let t0 = self.unchecked_state(&bare, &info0, 0);
    for (pmask, omask, route) in variants {
      let route = *route;
      self.rep.eval();
      let spec = Spec { fam: carried, req: base.req.clone(), privs: privs_from_mask(carried, *pmask, rng), opt: Opt::from_mask(*omask, rng) };
      let via_try = rng.bool();
      let info = Info { origin: route.name().to_string(), class, input: describe(&spec, route, "building") };
      self.rep.inc(&format!("unchecked_route:{}", route.name()));
      let built: Option<Vec<(&'static str, Jwk)>> = guard(&mut self.rep, route.name(), &info, || {
        let mut out = Vec::new();
        let mut j = Jwk::new(declared.ty());
        match route {
          URoute::SetUnchecked => {
            spec.opt.apply(&mut j);
            j.set_params_unchecked(spec.params());
            out.push(("as built", j));
          }
          URoute::ParamsMutAssign => {
            *j.params_mut() = spec.params();
            spec.opt.apply(&mut j);
            out.push(("as built", j));
          }
          URoute::ClearInPlace => {
            spec.opt.apply(&mut j);
            j.set_params_unchecked(spec.params());
            out.push(("before removing the private members", j.clone()));
            if edit_privs(&mut j, &minimal.params(), via_try) {
              out.push(("private members removed in place", j));
            }
          }
          URoute::AddInPlace => {
            j.set_params_unchecked(minimal.params());
            spec.opt.apply(&mut j);
            out.push(("before setting the private members", j.clone()));
            if edit_privs(&mut j, &spec.params(), via_try) {
              out.push(("private members set in place", j));
            }
          }
        }
        out
      });
      let Some(built) = built else { continue };
      if built.len() == 2 {
        self.rep.inc("unchecked_in_place_edits");
      } else if route == URoute::ClearInPlace || route == URoute::AddInPlace {
        self.rep.inc("unchecked_in_place_accessor_refused");
      }
      self.rep.distinct(
        "nontrivial",
        &format!("unchecked|{}|{}|p{}|o{}|{}", declared.name(), carried.name(), spec.priv_mask(), spec.opt.mask().count_ones().min(2), route.name()),
      );
      for (state, j) in &built {
        let info = Info { origin: route.name().to_string(), class, input: describe(&spec, route, state) };
        let with_private = catch(|| !view(j.params()).privs.is_empty() && carried != Fam::Oct).unwrap_or(false);
        let got = self.unchecked_state(j, &info, 1);
        let (Some(a), Some(b)) = (&t0, &got) else { continue };
        self.rep.inc("oracle_thumb_unchecked_invariance");
        if mismatched {
          self.rep.inc(if with_private { "oracle_thumb_mismatched_with_private" } else { "oracle_thumb_mismatched_without_private" });
        }
        if a != b {
          let sig = if with_private { "thumbprint-changes-with-private-part" } else { "thumbprint-not-invariant" };
          self.rep.violation(
            &format!("{}:{}", sig, tag),
            &format!(
              "thumbprint {} (hash input {}) of the key without private and optional members became {} (hash input {}) for the same declared type and public members; {}",
              a.0, a.1, b.0, b.1, info.input
            ),
            json!({"origin": info.origin, "input": info.input, "bare": info0.input, "bare_hash_input": a.1, "hash_input": b.1}),
          );
        }
      }
    }
  }

  /// Random histories of the checked setters on one value; coherence and is_public after every step.
  fn setter_history(&mut self, rng: &mut Rng, steps: usize) {
    self.rep.eval();
    let f0 = *rng.pick(&FAMS);
    let mut log: Vec<String> = vec![format!("new({})", f0.name())];
    let info0 = Info { origin: "Jwk::new".into(), class: "new", input: log.join("; ") };
    let Some(mut j) = guard(&mut self.rep, "Jwk::new", &info0, || Jwk::new(f0.ty())) else { return };
    self.observe(&j, &info0, None, 1);
    for _ in 0..steps {
      let class: &'static str;
      match rng.below(6) {
        0 => {
          let f = *rng.pick(&FAMS);
          log.push(format!("set_kty({})", f.name()));
          class = "set_kty";
          let info = Info { origin: "set_kty".into(), class, input: log.join("; ") };
          if guard(&mut self.rep, "set_kty", &info, || j.set_kty(f.ty())).is_none() {
            return;
          }
        }
        1 | 2 | 3 => {
          let mut s = random_spec(rng);
          if rng.bool() {
            // bias towards the family currently declared so that many calls succeed
            let cur = Fam::of(j.kty());
            if s.fam != cur {
              let np = cur.priv_names().len() as u32;
              let pm = if np == 0 { 0 } else { rng.below(1 << np) as u32 };
              s = Spec { fam: cur, req: cur.req_names().iter().map(|n| (*n, b64ish(rng, 11))).collect(), privs: privs_from_mask(cur, pm, rng), opt: Opt::default() };
            }
          }
          class = "set_params";
          let declared_before = Fam::of(j.kty());
          let info = Info { origin: "set_params".into(), class, input: format!("{}; set_params({})", log.join("; "), render(&s.members(), false)) };
          let Some(r) = guard(&mut self.rep, "set_params", &info, || j.set_params(s.params()).is_ok()) else { return };
          log.push(format!("set_params({} p{}) -> {}", s.fam.name(), s.priv_mask(), if r { "Ok" } else { "Err" }));
          self.rep.inc(if r { "set_params_ok" } else { "set_params_err" });
          self.rep.inc(if s.fam == declared_before { "set_params_matching" } else { "set_params_mismatching" });
          self.rep.distinct("nontrivial", &format!("hist|set_params|{}|{}|{}", declared_before.name(), s.fam.name(), r));
        }
        4 => {
          // in-place edit of a private member through the family-checked accessors
          let set = rng.bool();
          let val = b64ish(rng, 22);
          class = "set_params";
          log.push(format!("try_*_params_mut: d/oth {}", if set { "set" } else { "cleared" }));
          let info = Info { origin: "try_*_params_mut".into(), class, input: log.join("; ") };
          let r = guard(&mut self.rep, "try_*_params_mut", &info, || {
            let mut hit = 0u32;
            if let Ok(p) = j.try_ec_params_mut() {
              p.d = if set { Some(val.clone()) } else { None };
              hit += 1;
            }
            if let Ok(p) = j.try_okp_params_mut() {
              p.d = if set { Some(val.clone()) } else { None };
              hit += 1;
            }
            if let Ok(p) = j.try_rsa_params_mut() {
              p.oth = if set { Some(Vec::new()) } else { None };
              hit += 1;
            }
            if let Ok(p) = j.try_oct_params_mut() {
              p.k = val.clone();
              hit += 1;
            }
            hit
          });
          match r {
            None => return,
            Some(hit) => {
              self.rep.inc("params_mut_edits");
              if hit != 1 {
                self.rep.inc("params_mut_accessor_hits_not_one");
              }
            }
          }
        }
        _ => {
          let o = Opt::from_mask(rng.below(256) as u32, rng);
          log.push(format!("optional-setters(mask {})", o.mask()));
          class = "set_params";
          let info = Info { origin: "optional setters".into(), class, input: log.join("; ") };
          if guard(&mut self.rep, "optional setters", &info, || o.apply(&mut j)).is_none() {
            return;
          }
        }
      }
      let info = Info { origin: format!("history ending in {}", class), class, input: log.join("; ") };
      self.observe(&j, &info, None, 1);
      self.rep.inc("history_steps");
    }
    // full treatment (incl. JSON trip) of the final value
    let info = Info { origin: "setter history (final value)".into(), class: "set_params", input: log.join("; ") };
    self.observe(&j, &info, None, 0);
  }

  fn check_gen_output(&mut self, out: &JwkGenOutput, origin: &str) {
    let info = Info { origin: origin.to_string(), class: "generated", input: format!("JwkGenOutput(kid={:?})", out.jwk.kid()) };
    self.rep.inc("gen_outputs");
    if let Some(Ok(v)) = guard(&mut self.rep, "JwkGenOutput-to-json", &info, || serde_json::to_value(out)) {
      let mut keys = Vec::new();
      let mut n = 0;
      deep_priv_keys(&v, &mut keys, &mut n);
      self.rep.count("gen_output_jwks_scanned", n);
      if !keys.is_empty() {
        let redacted: Vec<String> = v.get("jwk").and_then(|j| j.as_object()).map(|m| m.keys().cloned().collect()).unwrap_or_default();
        self.rep.violation(
          "genoutput-leaks",
          &format!("JwkGenOutput of {} serialises private member(s) {:?} (members present: {:?})", origin, keys, redacted),
          json!({"origin": origin, "members": redacted}),
        );
      }
    }
    let pv = view(out.jwk.params());
    if !pv.privs.is_empty() {
      self.rep.violation("genoutput-private-in-memory", &format!("JwkGenOutput.jwk of {} holds private member(s) {:?}", origin, pv.privs), json!({"origin": origin}));
    }
    self.observe(&out.jwk, &info, None, 0);
  }

  fn scan_document(&mut self, kind: &str, v: &Value, expect_methods: u64) {
    let mut keys = Vec::new();
    let mut n = 0;
    deep_priv_keys(v, &mut keys, &mut n);
    self.rep.inc("documents_scanned");
    self.rep.count("document_jwks_scanned", n);
    if n < expect_methods {
      self.rep.inc("document_fewer_jwks_than_generated");
    }
    if !keys.is_empty() {
      self.rep.violation(
        &format!("document-leaks:{}", kind),
        &format!("{} after generate_method serialises private member name(s) {:?}", kind, keys),
        json!({"kind": kind, "keys": keys}),
      );
    }
  }

  fn keygen(&mut self, rng: &mut Rng, n_gen: u64, n_docs: u64) {
    let storage: Storage<JwkMemStore, KeyIdMemstore> = Storage::new(JwkMemStore::new(), KeyIdMemstore::new());
    let info = Info { origin: "JwkMemStore::generate".into(), class: "generated", input: "Ed25519/EdDSA".into() };
    for i in 0..n_gen {
      self.rep.eval();
      let (kt, alg) = match i % 8 {
        6 => (JwkMemStore::BLS12381G2_KEY_TYPE, JwsAlgorithm::EdDSA),
        7 => (JwkMemStore::ED25519_KEY_TYPE, JwsAlgorithm::ES256),
        _ => (JwkMemStore::ED25519_KEY_TYPE, JwsAlgorithm::EdDSA),
      };
      match guard(&mut self.rep, "JwkMemStore::generate", &info, || block_on(storage.key_storage().generate(kt, alg))) {
        Some(Ok(out)) => {
          self.rep.distinct("nontrivial", "gen|memstore|Ed25519");
          self.check_gen_output(&out, "JwkMemStore::generate")
        }
        Some(Err(_)) => self.rep.inc("gen_refused"),
        None => {}
      }
    }
    let scopes = [
      MethodScope::VerificationMethod,
      MethodScope::VerificationRelationship(MethodRelationship::Authentication),
      MethodScope::VerificationRelationship(MethodRelationship::AssertionMethod),
      MethodScope::VerificationRelationship(MethodRelationship::KeyAgreement),
      MethodScope::VerificationRelationship(MethodRelationship::CapabilityDelegation),
      MethodScope::VerificationRelationship(MethodRelationship::CapabilityInvocation),
    ];
    for d in 0..n_docs {
      self.rep.eval();
      let iota = d % 2 == 1;
      let n_methods = 1 + rng.below(3);
      let plan: Vec<(usize, bool)> = (0..n_methods).map(|_| (rng.usize(scopes.len()), rng.bool())).collect();
      let info = Info { origin: "generate_method".into(), class: "generated", input: format!("{} document, {} methods", if iota { "IotaDocument" } else { "CoreDocument" }, n_methods) };
      let res = guard(&mut self.rep, "generate_method", &info, || {
        let mut ok = 0u64;
        let v = if iota {
          let mut doc = IotaDocument::new(&NetworkName::try_from("smr").expect("network name"));
          for (m, (s, frag)) in plan.iter().enumerate() {
            let f = format!("#key-{}", m);
            if block_on(doc.generate_method(&storage, JwkMemStore::ED25519_KEY_TYPE, JwsAlgorithm::EdDSA, if *frag { Some(f.as_str()) } else { None }, scopes[*s])).is_ok() {
              ok += 1;
            }
          }
          serde_json::to_value(&doc)
        } else {
          let mut doc = CoreDocument::builder(Object::new()).id(CoreDID::parse("did:example:c18doc").expect("did")).build().expect("empty document");
          for (m, (s, frag)) in plan.iter().enumerate() {
            let f = format!("#key-{}", m);
            if block_on(doc.generate_method(&storage, JwkMemStore::ED25519_KEY_TYPE, JwsAlgorithm::EdDSA, if *frag { Some(f.as_str()) } else { None }, scopes[*s])).is_ok() {
              ok += 1;
            }
          }
          serde_json::to_value(&doc)
        };
        (ok, v)
      });
      if let Some((ok, Ok(v))) = res {
        self.rep.count("methods_generated", ok);
        self.rep.distinct("nontrivial", &format!("doc|{}|{}", iota, n_methods));
        self.scan_document(if iota { "IotaDocument" } else { "CoreDocument" }, &v, ok);
      }
    }
  }
}

/// Member lists for JSON whose kty disagrees with / overlaps / under-specifies its members.
fn odd_shapes(rng: &mut Rng) -> Vec<(String, Vec<(String, String)>)> {
  let mut out: Vec<(String, Vec<(String, String)>)> = Vec::new();
  let put = |m: &mut Vec<(String, String)>, k: &str, v: String| {
    if !m.iter().any(|(a, _)| a == k) {
      m.push((k.to_string(), v));
    }
  };
  for k in FAMS {
    for f in [Fam::Ec, Fam::Rsa, Fam::Oct, Fam::Okp] {
      if f == k {
        continue;
      }
      let np = f.priv_names().len() as u32;
      let pmasks: Vec<u32> = if np == 0 { vec![0] } else if np == 1 { vec![0, 1] } else { vec![0, 1, 1 << 6, (1 << np) - 1] };
      for pm in pmasks {
        // foreign members only
        let mut m = vec![("kty".to_string(), js(k.name()))];
        for (n, v) in fixed_req(f) {
          put(&mut m, n, js(&v));
        }
        for (n, v) in privs_from_mask(f, pm, rng) {
          put(&mut m, n, pv_json(&v));
        }
        out.push((format!("foreign:{}<-{}:p{}", k.name(), f.name(), pm), m));
        // members of both families
        let mut m = vec![("kty".to_string(), js(k.name()))];
        for (n, v) in fixed_req(k) {
          put(&mut m, n, js(&v));
        }
        for (n, v) in fixed_req(f) {
          put(&mut m, n, js(&v));
        }
        for (n, v) in privs_from_mask(f, pm, rng) {
          put(&mut m, n, pv_json(&v));
        }
        out.push((format!("both:{}+{}:p{}", k.name(), f.name(), pm), m));
      }
    }
    // required members missing
    let req = fixed_req(k);
    for drop_mask in 1u32..(1 << req.len()) {
      for with_d in [false, true] {
        let mut m = vec![("kty".to_string(), js(k.name()))];
        for (i, (n, v)) in req.iter().enumerate() {
          if drop_mask & (1 << i) == 0 {
            put(&mut m, n, js(v));
          }
        }
        if with_d {
          put(&mut m, "d", js("c2VjcmV0"));
        }
        out.push((format!("missing:{}:-{}:d{}", k.name(), drop_mask, with_d as u8), m));
      }
    }
    // wrongly typed members
    for (n, raw) in [("d", "5"), ("d", "null"), ("d", "[]"), ("oth", "\"x\""), ("oth", "null"), ("oth", "[{}]"), ("crv", "null"), ("x", "7"), ("k", "null"), ("key_ops", "\"sign\""), ("use", "\"other\"")] {
      let mut m = vec![("kty".to_string(), js(k.name()))];
      put(&mut m, n, raw.to_string());
      for (rn, v) in fixed_req(k) {
        put(&mut m, rn, js(&v));
      }
      out.push((format!("wrongtype:{}:{}={}", k.name(), n, raw), m));
    }
  }
  // declared kty x member shape x every registered curve name (and near-miss spellings): the family picked by
  // the untagged parameter enum - and any special treatment - may depend on the value of `crv`
  let (sx, sy, sd) = (b64ish(rng, 64), b64ish(rng, 64), b64ish(rng, 43));
  for k in FAMS {
    for crv in CURVES.iter().chain(CURVE_NEAR.iter()) {
      for (label, with_y, with_d) in [("x", false, false), ("x+d", false, true), ("x+y", true, false), ("x+y+d", true, true)] {
        let mut m = vec![("kty".to_string(), js(k.name())), ("crv".to_string(), js(crv)), ("x".to_string(), js(&sx))];
        if with_y {
          m.push(("y".to_string(), js(&sy)));
        }
        if with_d {
          m.push(("d".to_string(), js(&sd)));
        }
        out.push((format!("crv:{}<-{}:{}", k.name(), label, crv.replace(' ', "_")), m));
      }
    }
  }
  // kty itself odd
  for (label, kty) in [("none", None), ("unknown", Some("\"XYZ\"")), ("lowercase", Some("\"ec\"")), ("caps", Some("\"OCT\"")), ("number", Some("1")), ("null", Some("null"))] {
    for f in FAMS {
      let mut m: Vec<(String, String)> = Vec::new();
      if let Some(k) = kty {
        m.push(("kty".into(), k.to_string()));
      }
      for (n, v) in fixed_req(f) {
        put(&mut m, n, js(&v));
      }
      out.push((format!("kty-{}:{}", label, f.name()), m));
    }
  }
  for k in FAMS {
    out.push((format!("kty-only:{}", k.name()), vec![("kty".to_string(), js(k.name()))]));
  }
  out
}

fn self_test() {
  let (_, t) = ref_thumb(Fam::Rsa, &[("n", RFC7638_N.to_string()), ("e", "AQAB".to_string())]);
  assert_eq!(t, RFC7638_THUMB, "harness RFC 7638 reference is wrong (RSA example)");
  let (_, t) = ref_thumb(Fam::Okp, &[("crv", "Ed25519".to_string()), ("x", RFC8037_X.to_string())]);
  assert_eq!(t, RFC8037_THUMB, "harness RFC 7638 reference is wrong (RFC 8037 A.3)");
  for (alg, fam) in [(Alg::ES256, Fam::Ec), (Alg::ES256K, Fam::Ec), (Alg::EdDSA, Fam::Okp)] {
    let k = Key::new(alg, 7);
    let (x, y) = k.public_xy();
    let mut req = vec![("crv", match alg { Alg::ES256 => "P-256", Alg::ES256K => "secp256k1", Alg::EdDSA => "Ed25519" }.to_string()), ("x", url_encode(&x))];
    if fam == Fam::Ec {
      req.push(("y", url_encode(&y)));
    }
    assert_eq!(ref_thumb(fam, &req).1, k.thumbprint(), "two harness thumbprint references disagree");
  }
}

fn main() {
  let args = Args::parse();
  self_test();
  let scale = args.extra_u64("scale", 1000).max(1);
  let sc = |n: u64| -> u64 { (n * scale / 1000).max(1) };
  let keep = |idx: u64| -> bool { scale >= 1000 || (idx * scale) / 1000 != ((idx + 1) * scale) / 1000 };
  let did = CoreDID::parse("did:example:c18").expect("did");
  let did_url = did.to_url().join("#key-b").expect("did url");
  let mut cx = Cx { rep: Report::new("C18"), did, did_url, n_obs: 0, container_every: if scale >= 1000 { 1 } else { 4 }, n_odd: 0 };
  cx.rep.rule(
    "cases = JWKs over EC/RSA/oct/OKP built by the harness through from_params, new+set_params, new+set_kty+set_params, \
     from_json (members permuted, optional whitespace) and from_json_value, each also re-read from its own to_json; \
     JSON whose kty disagrees with / overlaps / under-specifies its members; random histories of set_kty/set_params/optional \
     setters; JwkMemStore::generate outputs and Core/Iota documents after generate_method; the odd JSON (incl. a sweep of \
     declared kty x EC/OKP member shape x every registered curve name and near-miss spellings) and a share of the well-formed \
     JSON also read through JwkSet / JWS header / verification method / document / did:jwk / JwkGenOutput; keys converted from \
     json-proof-token JWKs (parameter variant x curve x declared source kty x private part x optional members, directly, after \
     the source's to_public, after a JSON trip of the source, generated) and converted back and forth; groups of keys with one \
     declared type and one set of public members of any family (set_params_unchecked / params_mut), over private-member subsets, \
     optional members and in-place removal / addition of the private members. non-trivial+distinct = JWK \
     actually obtained, classed by (family, private-member subset, number of optional members, route, permuted?, plain values?) \
     resp. odd-JSON shape resp. (container, shape) resp. (declared family, params family, set_params outcome) resp. (document \
     kind, methods) resp. (source variant, curve, source kty, private?, optional members, step) resp. (declared type, carried \
     family, private-member subset, optional members, unchecked route)",
  );
  let mut rng = args.rng(18);
  let thorough = args.thorough;

  // ---- A. exhaustive: family x every private-member subset x optional-member sets x every route
  let few_opts: Vec<u32> = vec![0, 1, 2, 4, 8, 16, 32, 64, 128, 255];
  let all_opts: Vec<u32> = (0..256).collect();
  let mut idx: u64 = 0;
  for fam in FAMS {
    let np = fam.priv_names().len() as u32;
    let opts: &Vec<u32> = if fam == Fam::Rsa && !thorough { &few_opts } else { &all_opts };
    for pmask in 0..(1u32 << np) {
      for omask in opts {
        for route in ROUTES {
          idx += 1;
          if !args.mine(idx) || !keep(idx / args.nshards.max(1)) {
            continue;
          }
          let mut r = Rng::new(0xC18, idx);
          let spec = Spec { fam, req: fixed_req(fam), privs: privs_from_mask(fam, pmask, &mut r), opt: Opt::from_mask(*omask, &mut r) };
          cx.wellformed(&spec, route, &mut r);
          cx.rep.inc("exhaustive_cases");
        }
      }
    }
  }
  cx.rep.count("distinct_exact", cx.rep.get("exhaustive_cases"));

  // ---- B. random identities, each as a group of variants (thumbprint invariance + reference)
  let n_groups = sc(if thorough { 8_000_000 } else { 48_000 }) / args.nshards.max(1);
  for _ in 0..n_groups.max(1) {
    let base = random_spec(&mut rng);
    cx.identity_group(&base, 3, &mut rng);
    cx.rep.inc("identity_groups");
  }

  // ---- C. kty / member disagreement, overlap, incompleteness, wrong types (JSON only)
  let shapes = odd_shapes(&mut Rng::new(0xC18, 0xDD));
  let perms = sc(if thorough { 48 } else { 6 });
  let mut k: u64 = 0;
  for (si, (shape, members)) in shapes.iter().enumerate() {
    // reduced-scale runs (Miri/ASan) keep every kind of shape but only a share of the curve-name sweep
    if scale < 1000 && shape.starts_with("crv:") && si % 7 != 0 {
      continue;
    }
    for p in 0..perms {
      for extra in 0..3u32 {
        k += 1;
        if !args.mine(k) {
          continue;
        }
        let mut r = Rng::new(0xC18 ^ 0x0DD, k);
        let mut m = members.clone();
        if extra == 1 {
          m.push(("alg".into(), js("EdDSA")));
          m.push(("kid".into(), js("key-1")));
          m.push(("key_ops".into(), "[\"verify\"]".into()));
        } else if extra == 2 {
          // what a BBS+ key written by json-proof-token carries
          m.push(("alg".into(), js("BBS-BLS12381-SHA256")));
          m.push(("use".into(), js("proof")));
          m.push(("kid".into(), js("key-1")));
          m.push(("key_ops".into(), "[\"proofGeneration\",\"proofVerification\"]".into()));
        }
        if p > 0 {
          r.shuffle(&mut m);
        }
        cx.odd_json(shape, &render(&m, p % 5 == 4), p % 2 == 1);
      }
    }
  }
  cx.rep.note("odd_shapes", json!(shapes.len()));

  // ---- D. setter histories
  let n_hist = sc(if thorough { 3_200_000 } else { 16_000 }) / args.nshards.max(1);
  for _ in 0..n_hist.max(1) {
    let steps = 2 + rng.usize(7);
    cx.setter_history(&mut rng, steps);
  }

  // ---- E. key generation output and generated documents
  let n_gen = sc(if thorough { 16_000 } else { 1_600 }) / args.nshards.max(1);
  let n_docs = sc(if thorough { 8_000 } else { 800 }) / args.nshards.max(1);
  cx.keygen(&mut rng, n_gen.max(8), n_docs.max(2));

  // ---- F. typed conversion from json-proof-token keys
  // exhaustive: parameter variant x curve x declared source kty x private part x optional members x step
  let mut idx: u64 = 0;
  for ec_shape in [true, false] {
    for crv in 0..EXT_CURVES.len() {
      for kty in 0..EXT_KTYS.len() {
        for with_d in [false, true] {
          for omask in [0u32, 127, 1 | 8, 2 | 4] {
            for step in EXT_STEPS {
              idx += 1;
              if !args.mine(idx) || !keep(idx / args.nshards.max(1)) {
                continue;
              }
              let mut r = Rng::new(0xC18 ^ 0xE87, idx);
              let case = ExtCase {
                ec_shape,
                crv,
                kty,
                x: b64ish(&mut r, 128),
                y: b64ish(&mut r, 128),
                d: if with_d { Some(b64ish(&mut r, 43)) } else { None },
                opt: ExtOpt::from_mask(omask, &mut r),
                step,
              };
              cx.ext_conversion(case.build(), step, &case.class());
              cx.rep.inc("ext_exhaustive_cases");
            }
          }
        }
      }
    }
  }
  // random: values of any length (also empty), any optional members
  let n_ext = sc(if thorough { 1_600_000 } else { 16_000 }) / args.nshards.max(1);
  for _ in 0..n_ext.max(1) {
    let lens = [0usize, 4, 43, 64, 128];
    let case = ExtCase {
      ec_shape: rng.chance(3, 4),
      crv: rng.usize(EXT_CURVES.len()),
      kty: rng.usize(EXT_KTYS.len()),
      x: { let l = *rng.pick(&lens); b64ish(&mut rng, l) },
      y: { let l = *rng.pick(&lens); b64ish(&mut rng, l) },
      d: if rng.bool() { let l = *rng.pick(&lens); Some(b64ish(&mut rng, l)) } else { None },
      opt: { let m = rng.below(128) as u32; ExtOpt::from_mask(m, &mut rng) },
      step: *rng.pick(&EXT_STEPS),
    };
    cx.ext_conversion(case.build(), case.step, &case.class());
  }
  // keys generated by the source crate (real BLS12-381 G2 keys; the key bytes come from the OS RNG and are not
  // part of any oracle); skipped at reduced scale (pairing-curve arithmetic is too slow under Miri)
  if scale >= 1000 {
    let n_genext = if thorough { 4 } else { 1 };
    for i in 0..n_genext {
      let sub = if (i + args.shard) % 2 == 0 { KeyPairSubtype::BLS12381G2Sha256 } else { KeyPairSubtype::BLS12381G2Shake256 };
      if let Ok(Ok(ext)) = catch(|| JwkExt::generate(sub)) {
        cx.rep.inc("ext_generated");
        for step in EXT_STEPS {
          cx.ext_conversion(ext.clone(), step, &format!("ext|generated|{}", step.name()));
        }
      } else {
        cx.rep.inc("ext_generate_failed");
      }
    }
  }

  // ---- G. every declared type x every parameter family through the unchecked setters: thumbprint unchanged by the
  // private part / optional members / the way the members got there, and all per-JWK monitors
  // exhaustive: declared x carried x optional-member choice x route, each group over the private-member subsets
  let mut gidx: u64 = 0;
  for declared in FAMS {
    for carried in FAMS {
      for oi in 0..3u32 {
        for route in UROUTES {
          gidx += 1;
          if !args.mine(gidx) || !(scale >= 1000 || gidx % 23 == 0) {
            continue;
          }
          let mut r = Rng::new(0xC18 ^ 0x6C, gidx);
          let np = carried.priv_names().len() as u32;
          let mut pmasks: Vec<u32> = if np <= 1 {
            (0..(1u32 << np)).collect()
          } else if thorough {
            (0..(1u32 << np)).collect()
          } else {
            let mut v: Vec<u32> = vec![0, (1 << np) - 1];
            v.extend((0..np).map(|i| 1u32 << i));
            v.extend((0..3).map(|_| r.below(1 << np) as u32));
            v
          };
          if scale < 1000 {
            pmasks.truncate(4);
          }
          let omask = match oi {
            0 => 0,
            1 => 255,
            _ => r.below(256) as u32,
          };
          let variants: Vec<(u32, u32, URoute)> = pmasks.iter().map(|p| (*p, omask, route)).collect();
          let base = Spec { fam: carried, req: fixed_req(carried), privs: Vec::new(), opt: Opt::default() };
          cx.unchecked_group(declared, &base, &variants, &mut r);
          cx.rep.inc("unchecked_exhaustive_groups");
        }
      }
    }
  }
  // random: any declared type, any public member values, random private subsets / optional members / routes
  let n_unch = sc(if thorough { 1_600_000 } else { 16_000 }) / args.nshards.max(1);
  for _ in 0..n_unch.max(1) {
    let declared = *rng.pick(&FAMS);
    let base = random_spec(&mut rng);
    let np = base.fam.priv_names().len() as u32;
    let variants: Vec<(u32, u32, URoute)> = (0..3)
      .map(|i| {
        let pmask = if np == 0 {
          0
        } else if i == 0 {
          1 + rng.below((1 << np) - 1) as u32
        } else {
          rng.below(1 << np) as u32
        };
        let omask = if rng.bool() { 0 } else { rng.below(256) as u32 };
        (pmask, omask, *rng.pick(&UROUTES))
      })
      .collect();
    cx.unchecked_group(declared, &base, &variants, &mut rng);
  }

  cx.rep.finish();
}
