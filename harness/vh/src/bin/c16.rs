//! C16 — SD-JWT credentials and key-binding JWTs are accepted only when fully bound.
//! SD-JWTs, disclosures, digests and KB-JWTs are all assembled by the harness (own SHA-256 digests,
//! own base64url, own keys); the truth of every condition is known by construction.
#[path = "../shared/credgen.rs"]
mod credgen;

use credgen::{jwt, jwt_with_sig, method_json, CredSpec};
use identity_core::common::{Object, Timestamp};
use identity_core::convert::FromJson;
use identity_credential::credential::Credential;
use identity_credential::sd_jwt_payload::{KeyBindingJwtClaims, SdJwt, SdObjectDecoder};
use identity_credential::validator::{FailFast, JwtCredentialValidationOptions, KeyBindingJWTValidationOptions, SdJwtCredentialValidator};
use identity_did::DIDUrl;
use identity_document::document::CoreDocument;
use identity_document::verifiable::JwsVerificationOptions;
use identity_eddsa_verifier::EdDSAJwsVerifier;
use identity_verification::{MethodRelationship, MethodScope};
use serde_json::{json, Map, Value};
use vh::b64::url_encode;
use vh::keys::{sha256, Key};
use vh::panicmon::catch;
use vh::{Args, Report, Rng};

const ISSUER: &str = "did:example:issuer";
const HOLDER: &str = "did:example:holder";
const BOUND_ISS: i64 = 1_700_000_000;
const BOUND_EXP: i64 = 1_650_000_000;

fn ik() -> Key {
  Key::ed(21)
}
fn hk() -> Key {
  Key::ed(22)
}
fn hk2() -> Key {
  Key::ed(23)
}
fn stranger() -> Key {
  Key::ed(299)
}

const ISSUER2: &str = "did:example:issuer2";
fn ik2() -> Key {
  Key::ed(24)
}
fn issuer2_doc() -> CoreDocument {
  serde_json::from_value(json!({"id": ISSUER2, "verificationMethod": [method_json(&format!("{}#k1", ISSUER2), ISSUER2, &ik2())], "assertionMethod": [format!("{}#k1", ISSUER2)]})).unwrap()
}

fn issuer_doc() -> CoreDocument {
  serde_json::from_value(json!({"id": ISSUER, "verificationMethod": [method_json(&format!("{}#k1", ISSUER), ISSUER, &ik())], "assertionMethod": [format!("{}#k1", ISSUER)]})).unwrap()
}
/// Holder: #k1 general purpose + authentication; #k2 embedded in assertionMethod.
fn holder_doc() -> CoreDocument {
  serde_json::from_value(json!({"id": HOLDER, "verificationMethod": [method_json(&format!("{}#k1", HOLDER), HOLDER, &hk())],
    "authentication": [format!("{}#k1", HOLDER)], "assertionMethod": [method_json(&format!("{}#k2", HOLDER), HOLDER, &hk2())]}))
  .unwrap()
}

fn digest_of(disclosure: &str) -> String {
  url_encode(&sha256(disclosure.as_bytes()))
}

fn disclosure(rng: &mut Rng, name: &str, value: &Value) -> String {
  let salt = url_encode(&rng.bytes(16));
  // spacing varies: the digest is over the text as transmitted
  let text = match rng.below(3) {
    0 => format!("[\"{}\", \"{}\", {}]", salt, name, value),
    1 => format!("[\"{}\",\"{}\",{}]", salt, name, value),
    _ => format!("[ \"{}\" , \"{}\" , {} ]", salt, name, value),
  };
  url_encode(text.as_bytes())
}

#[derive(Clone, Debug)]
struct CredPlan {
  sig: u8,          // 0 valid, 1 stranger, 2 claims altered after signing
  kid: u8,          // 0 full id, 1 missing method, 2 absent
  issuer_claim: u8, // 0 ISSUER, 1 other DID
  nonce_hdr: u8,
  nonce_opt: u8,
  n_concealed: usize,      // 0..=4 concealed subject properties
  disclosed_mask: u8,      // which of them are presented
  disclosure_defect: u8,   // 0 none, 1 forged (not in _sd), 2 from another token, 3 duplicated, 4 garbage text, 5 reordered (legal),
                           // 6 garbage text made of multi-byte characters, long enough for any message clipping to land inside one
  sd_alg: u8,              // 0 absent, 1 "sha-256", 2 unsupported "sha-999"
  issuance_delta: i64,
  expiry: Option<i64>,
  structure: u8, // 0 ok, 1 base type missing
  fail_fast: bool,
  nested: bool,  // conceal inside a nested object of the subject as well
}

impl CredPlan {
  fn good(rng: &mut Rng) -> CredPlan {
    let n = rng.usize(5);
    CredPlan {
      sig: 0,
      kid: 0,
      issuer_claim: 0,
      nonce_hdr: 0,
      nonce_opt: 0,
      n_concealed: n,
      disclosed_mask: rng.below(16) as u8,
      disclosure_defect: if rng.chance(1, 5) { 5 } else { 0 },
      sd_alg: rng.below(2) as u8,
      issuance_delta: *rng.pick(&[0i64, -1, -5000]),
      expiry: *rng.pick(&[None, Some(0i64), Some(1)]),
      structure: 0,
      fail_fast: rng.bool(),
      nested: rng.chance(1, 3),
    }
  }
  fn falsified(&self) -> (Vec<&'static str>, bool) {
    let mut f = Vec::new();
    let mut either = false; // latitude: duplicated disclosure
    if self.kid != 0 {
      f.push("kid-resolves");
    } else if self.sig != 0 {
      f.push("signature");
    }
    if self.nonce_hdr != self.nonce_opt {
      f.push("nonce");
    }
    if self.issuer_claim != 0 {
      f.push("issuer-equals-method-did");
    }
    match self.disclosure_defect {
      1 | 2 | 4 | 6 => f.push("disclosure-bound-to-signed-digest"),
      3 => either = true, // a duplicated disclosure (if anything is presented at all) may be refused
      _ => {}
    }
    if self.sd_alg == 2 {
      f.push("supported-hash-algorithm");
    }
    if self.issuance_delta > 0 {
      f.push("issuance");
    }
    if matches!(self.expiry, Some(d) if d < 0) {
      f.push("expiry");
    }
    if self.structure != 0 {
      f.push("structure");
    }
    (f, either)
  }
}

struct BuiltCred {
  sd_jwt: SdJwt,
  expected_vc: Value, // the credential that should come back (disclosed claims restored, withheld ones absent)
  options: JwtCredentialValidationOptions,
  jwt_text: String,
}

fn build_cred(rng: &mut Rng, p: &CredPlan) -> BuiltCred {
  let issuer = if p.issuer_claim == 0 { ISSUER } else { "did:example:someone-else" };
  let mut spec = CredSpec::minimal(issuer, Some("did:example:subject"), BOUND_ISS + p.issuance_delta);
  spec.expiration = p.expiry.map(|d| BOUND_EXP + d);
  spec.id = Some("https://example.edu/credentials/3732".into());
  spec.types.push("UniversityDegreeCredential".into());
  if p.structure == 1 {
    spec.types.retain(|t| t != "VerifiableCredential");
  }
  spec.subject_props.insert("always".into(), json!({"visible": true}));
  let mut claims = spec.claims_json(&Map::new());
  // concealable properties
  let names = ["given_name", "family_name", "birthdate", "address"];
  let values = [json!("Alice"), json!("Möbius \"Q\""), json!("1990-01-01"), json!({"street": "1 Main St", "n": [1, 2, 3]})];
  let mut all_disclosures: Vec<String> = Vec::new();
  let mut digests: Vec<Value> = Vec::new();
  for i in 0..p.n_concealed {
    let d = disclosure(rng, names[i], &values[i]);
    digests.push(json!(digest_of(&d)));
    all_disclosures.push(d);
  }
  // a decoy digest
  if rng.bool() {
    digests.push(json!(url_encode(&rng.bytes(32))));
  }
  rng.shuffle(&mut digests);
  let mut expected = spec.clone();
  {
    let subj = claims["vc"]["credentialSubject"].as_object_mut().unwrap();
    if !digests.is_empty() {
      subj.insert("_sd".into(), Value::Array(digests));
    }
  }
  // nested concealed claim
  let mut nested_disclosure: Option<String> = None;
  if p.nested {
    let d = disclosure(rng, "secret", &json!(42));
    let subj = claims["vc"]["credentialSubject"].as_object_mut().unwrap();
    subj.insert("nestedObject".into(), json!({"public": 1, "_sd": [digest_of(&d)]}));
    nested_disclosure = Some(d);
  }
  match p.sd_alg {
    1 => {
      claims.insert("_sd_alg".into(), json!("sha-256"));
    }
    2 => {
      claims.insert("_sd_alg".into(), json!("sha-999"));
    }
    _ => {}
  }
  // what is presented
  let mut presented: Vec<String> = Vec::new();
  for i in 0..p.n_concealed {
    if p.disclosed_mask & (1 << i) != 0 {
      presented.push(all_disclosures[i].clone());
      expected.subject_props.insert(names[i].into(), values[i].clone());
    }
  }
  let nested_presented = p.nested && rng.bool();
  if p.nested {
    let mut nested = Map::new();
    nested.insert("public".into(), json!(1));
    if nested_presented {
      presented.push(nested_disclosure.clone().unwrap());
      nested.insert("secret".into(), json!(42));
    }
    expected.subject_props.insert("nestedObject".into(), Value::Object(nested));
  }
  match p.disclosure_defect {
    1 => presented.push(disclosure(rng, "admin", &json!(true))),
    2 => presented.push(disclosure(rng, names[0], &values[0])), // same claim, other salt: belongs to another token
    3 => {
      if let Some(first) = presented.first().cloned() {
        presented.push(first);
      }
    }
    4 => presented.push("bm90LWEtZGlzY2xvc3VyZQ".into()),
    6 => {
      let lead = "x".repeat(rng.usize(4));
      let unit = *rng.pick(&["é", "€", "😀"]);
      let n = *rng.pick(&[20usize, 90, 130, 260, 520, 1100]) + rng.usize(7);
      let text = format!("{}{}", lead, unit.repeat(n));
      if rng.bool() {
        presented.insert(0, text);
      } else {
        presented.push(text);
      }
    }
    5 => presented.reverse(),
    _ => {}
  }
  if p.disclosure_defect == 0 && rng.bool() {
    rng.shuffle(&mut presented);
  }

  let mut h = Map::new();
  h.insert("alg".into(), json!("EdDSA"));
  h.insert("typ".into(), json!("sd-jwt"));
  match p.kid {
    0 => {
      h.insert("kid".into(), json!(format!("{}#k1", ISSUER)));
    }
    1 => {
      h.insert("kid".into(), json!(format!("{}#nope", ISSUER)));
    }
    _ => {}
  }
  match p.nonce_hdr {
    1 => {
      h.insert("nonce".into(), json!("a"));
    }
    2 => {
      h.insert("nonce".into(), json!("b"));
    }
    _ => {}
  }
  let header = Value::Object(h);
  let claims_v = Value::Object(claims);
  let signer = if p.sig == 1 { stranger() } else { ik() };
  let jwt_text = if p.sig == 2 {
    let good = jwt(&header, &claims_v, &signer);
    let sig_seg = good.rsplit('.').next().unwrap().to_string();
    let mut altered = claims_v.clone();
    altered["vc"]["credentialSubject"]["name"] = json!("Mallory");
    jwt_with_sig(&header, &altered, &vh::b64::url_decode(&sig_seg).unwrap())
  } else {
    jwt(&header, &claims_v, &signer)
  };
  let mut vo = JwsVerificationOptions::new();
  match p.nonce_opt {
    1 => vo = vo.nonce("a"),
    2 => vo = vo.nonce("b"),
    _ => {}
  }
  let options = JwtCredentialValidationOptions::new()
    .latest_issuance_date(Timestamp::from_unix(BOUND_ISS).unwrap())
    .earliest_expiry_date(Timestamp::from_unix(BOUND_EXP).unwrap())
    .verification_options(vo);
  BuiltCred { sd_jwt: SdJwt::new(jwt_text.clone(), presented, None), expected_vc: expected.vc_json(), options, jwt_text }
}

// ---------------------------------------------------------------------------------------------
// key binding
// ---------------------------------------------------------------------------------------------
/// One near-miss of the KB-JWT header `typ`: a value that is NOT exactly "kb+jwt" (and not the spelling the pinned dependency uses
/// as its constant, which has its own, separately recorded signature). `class` names the kind of deviation and goes into the signature.
#[derive(Clone, Debug, PartialEq)]
struct TypCase {
  class: &'static str,
  base: u8,             // derived from: 0 "kb+jwt", 1 the library's constant (when it differs), 2 neither
  value: Option<Value>, // None: the header has no typ at all
}

/// The family of near-miss typ values, as a function of the two base spellings only (the statement's "kb+jwt" and the constant the
/// library compares with). Values equal to either base are left out: "kb+jwt" is the right type, the constant is the known finding.
fn typ_family() -> Vec<TypCase> {
  let spec = "kb+jwt";
  let lib = KeyBindingJwtClaims::KB_JWT_HEADER_TYP;
  let mut bases: Vec<(u8, String)> = vec![(0, spec.to_string())];
  if lib != spec {
    bases.push((1, lib.to_string()));
  }
  let mut out: Vec<TypCase> = Vec::new();
  fn push(out: &mut Vec<TypCase>, spec: &str, lib: &str, class: &'static str, base: u8, v: Option<Value>) {
    if let Some(Value::String(s)) = &v {
      if s == spec || s == lib {
        return;
      }
    }
    if out.iter().any(|t| t.value == v) {
      return;
    }
    out.push(TypCase { class, base, value: v });
  }
  for (bi, b) in &bases {
    let bi = *bi;
    let mut add = |class: &'static str, v: String| push(&mut out, spec, lib, class, bi, Some(Value::String(v)));
    // media type prefixes (RFC 7515 4.1.9 lets a producer omit "application/"; the statement still demands kb+jwt)
    add("with-application-prefix", format!("application/{}", b));
    add("with-application-prefix", format!("Application/{}", b));
    add("with-application-prefix", format!("APPLICATION/{}", b));
    add("with-application-prefix", format!("application/application/{}", b));
    add("with-application-prefix", format!("application/{}", b.trim_start()));
    add("with-other-prefix", format!("/{}", b));
    add("with-other-prefix", format!("text/{}", b));
    add("with-other-prefix", format!("x{}", b));
    add("with-other-prefix", format!("app/{}", b));
    add("with-other-prefix", format!("jwt+{}", b));
    // suffixes
    add("with-suffix", format!("{}x", b));
    add("with-suffix", format!("{}+jwt", b));
    add("with-suffix", format!("{}/application", b));
    add("with-suffix", format!("{}\u{0}", b));
    add("with-suffix", format!("{}{}", b, b));
    add("with-suffix", format!("{},{}", b, b));
    // letter case
    add("in-other-letter-case", b.to_uppercase());
    add("in-other-letter-case", b.replacen("kb", "Kb", 1));
    add("in-other-letter-case", b.replacen("kb", "KB", 1));
    add("in-other-letter-case", b.replacen("jwt", "JWT", 1));
    add("in-other-letter-case", b.replacen("jwt", "Jwt", 1));
    // whitespace around and inside
    add("with-surrounding-whitespace", format!(" {}", b));
    add("with-surrounding-whitespace", format!("{} ", b));
    add("with-surrounding-whitespace", format!(" {} ", b));
    add("with-surrounding-whitespace", format!("\t{}", b));
    add("with-surrounding-whitespace", format!("{}\n", b));
    add("with-surrounding-whitespace", format!("\u{a0}{}", b));
    add("with-surrounding-whitespace", b.trim().to_string() + "  ");
    add("with-inner-whitespace", b.replacen('+', " +", 1));
    add("with-inner-whitespace", b.replacen('+', "+ ", 1));
    add("with-inner-whitespace", b.replacen('+', " ", 1)); // '+' read as an encoded blank
    // media type parameters
    add("with-media-type-parameter", format!("{};charset=utf-8", b));
    add("with-media-type-parameter", format!("{}; charset=utf-8", b));
    add("with-media-type-parameter", format!("{};", b));
    add("with-media-type-parameter", format!("application/{};charset=utf-8", b));
    add("with-media-type-parameter", format!("{};profile=kb", b));
    // parts of the value
    add("truncated", b[..b.len() - 1].to_string());
    add("truncated", b.trim_start()[1..].to_string());
    add("truncated", b.replacen("+jwt", "", 1));
    add("truncated", b.replacen("+jwt", "+", 1));
    add("truncated", b.replacen("kb+", "", 1)); // "jwt"
    add("truncated", b.replacen("kb", "", 1)); // "+jwt"
    add("truncated", b.trim_matches(|c: char| c != ' ').to_string()); // only the blanks of the base, if any
    // other separators / encodings of the same letters
    add("with-other-separator", b.replacen('+', "-", 1));
    add("with-other-separator", b.replacen('+', "%2B", 1));
    add("with-other-separator", b.replacen('+', "%2b", 1));
    add("with-other-separator", b.replacen('+', "\u{ff0b}", 1)); // fullwidth plus
    add("with-other-separator", b.replacen('+', "", 1));
    add("with-other-separator", b.replacen('k', "\u{212a}", 1)); // Kelvin sign, lower-cases to 'k'
  }
  // values independent of the bases
  for t in ["", "JWT", "jwt", "sd-jwt", "vc+sd-jwt", "application/jwt", "application/", "null", "*", "*/*"] {
    push(&mut out, spec, lib, if t.is_empty() { "empty" } else { "of-other-type" }, 2, Some(json!(t)));
  }
  push(&mut out, spec, lib, "absent", 2, None);
  for (bi, b) in &bases {
    for v in [json!([b]), json!({ "typ": b }), json!([b, "JWT"])] {
      push(&mut out, spec, lib, "not-a-string", *bi, Some(v));
    }
  }
  for v in [Value::Null, json!(true), json!(0), json!([])] {
    push(&mut out, spec, lib, "not-a-string", 2, Some(v));
  }
  out
}

#[derive(Clone, Debug)]
struct KbPlan {
  present: bool,
  typ: u8,                // 0 the library's constant, 1 "kb+jwt", 2 "JWT", 3 absent, 4 "KB+JWT", 5 the near-miss value in `typ_custom`
  typ_custom: Option<TypCase>, // a header typ that is neither "kb+jwt" nor the library's constant (see `typ_family`)
  method: u8,             // 0 #k1, 1 #k2
  kid: u8,                // 0 full id, 1 missing method, 2 absent, 3 fragment only, 4 a method id under the signer's own (foreign) DID
  attach_jwk: bool,       // the signer's public key travels in the `jwk` header parameter (legal extra for the holder's own key, bait for a foreign one)
  method_id_override: u8, // 0 none, 1 signing method, 2 other method
  scope: u8,              // 0 None, 1 VerificationMethod, 2 Authentication, 3 AssertionMethod
  sig: u8,                // 0 valid, 1 stranger, 2 other method's key, 3 claims altered after signing
  sd_hash: u8,            // 0 correct, 1 over reversed disclosure order, 2 over the jwt only, 3 garbage, 4 without trailing '~', 5 over another JWT (replay),
                          // 6 empty string, 7 a proper prefix of the right digest, 8 the right digest followed by extra characters
  nonce_claim: u8,        // the nonce the holder signed: 0 "kb-nonce-1", 1 "" (empty), 2 " " (one space)
  aud_claim: u8,          // the aud the holder signed: 0 "did:example:verifier", 1 "", 2 " "
  nonce_opt: u8,          // the expectation in the options (see `expectation`): 0 None, 1 equal to the signed value, 2 another value,
                          // 3 Some("") (present but empty: still an expectation), 4 signed value + trailing space, 5 signed value in upper case,
                          // 6 signed value without its last character, 7 Some(" ")
  aud_opt: u8,
  alter: u8,              // the presented disclosure list altered AFTER the holder computed sd_hash and signed (see `alter_presented`):
                          // 0 untouched, 1/2/3 an empty string spliced in at the front / somewhere / the end, 4 two empty strings,
                          // 5 a whitespace-only element, 6 one disclosure dropped, 7 a fresh disclosure appended, 8 one duplicated,
                          // 9 two neighbours swapped, 10 '=' padding appended to one element
  via_wire: bool,         // the presentation travels as text `<jwt>~<d1>~..~<dn>~<kb>` written by the harness and is parsed back
  window: u8,             // 0 no earliest/explicit latest far, 1 [E,L] explicit, 2 latest unset (wall clock)
  iat_ms: bool,           // the instant that would be inside the window, written in MILLIseconds (as seconds it is unrepresentably far in the future)
  iat_pos: u8,            // window 1: 0 E-1, 1 E, 2 inside, 3 L, 4 L+1 ; window 2: 0 a day ago, 1 a day ahead, 2 five seconds ahead ; window 0: any
  n_disclosures: usize,
}

impl KbPlan {
  fn good(rng: &mut Rng) -> KbPlan {
    let window = rng.below(3) as u8;
    KbPlan {
      present: true,
      typ: 0,
      typ_custom: None,
      method: rng.below(2) as u8,
      kid: 0,
      attach_jwk: rng.chance(1, 5),
      method_id_override: if rng.chance(1, 4) { 1 } else { 0 },
      scope: 0,
      sig: 0,
      sd_hash: 0,
      nonce_claim: *rng.pick(&[0u8, 0, 0, 1, 2]),
      aud_claim: *rng.pick(&[0u8, 0, 0, 1, 2]),
      nonce_opt: rng.below(2) as u8,
      aud_opt: rng.below(2) as u8,
      alter: 0,
      via_wire: rng.chance(1, 4),
      window,
      iat_ms: false,
      iat_pos: match window {
        1 => 1 + rng.below(3) as u8,
        _ => 0,
      },
      n_disclosures: rng.usize(4),
    }
  }
  fn in_scope(m: u8, scope: u8) -> bool {
    matches!((m, scope), (_, 0) | (0, 1) | (0, 2) | (1, 3))
  }
  /// `sd_hash_ok`: the signed sd_hash equals the harness's own digest over the text that is actually presented.
  /// `altered`: the presented text differs from the one the holder signed over.
  fn falsified(&self, sd_hash_ok: bool, altered: bool) -> Vec<&'static str> {
    let mut f = Vec::new();
    if !self.present {
      f.push("kb-jwt-present");
      return f;
    }
    if !matches!(self.typ, 0 | 1) {
      f.push("typ");
    }
    let other = 1 - self.method;
    let lookup: Option<u8> = match self.method_id_override {
      1 => Some(self.method),
      2 => Some(other),
      _ => match self.kid {
        0 => Some(self.method),
        _ => None,
      },
    };
    match lookup {
      None => f.push("kid-resolves"),
      Some(m) => {
        if !KbPlan::in_scope(m, self.scope) {
          f.push("scope");
        } else {
          let signer = match self.sig {
            0 | 3 => Some(self.method),
            2 => Some(other),
            _ => None,
          };
          if signer != Some(m) || self.sig == 3 {
            f.push("signature");
          }
        }
      }
    }
    if !sd_hash_ok {
      // one name for a wrong value signed by the holder, another for a right value whose presentation was altered afterwards
      f.push(if altered && self.sd_hash == 0 { "sd_hash-over-altered-presentation" } else { "sd_hash" });
    }
    // an expectation that is present (whatever its text, the empty string included) must equal the signed value exactly
    if matches!(expectation(self.nonce_opt, nonce_claim_text(self.nonce_claim), "kb-nonce-2"), Some(x) if x != nonce_claim_text(self.nonce_claim)) {
      f.push("nonce");
    }
    if matches!(expectation(self.aud_opt, aud_claim_text(self.aud_claim), "did:example:another-verifier"), Some(x) if x != aud_claim_text(self.aud_claim)) {
      f.push("aud");
    }
    match (self.window, self.iat_pos) {
      _ if self.iat_ms => f.push("iat-window"),
      (1, 0) | (1, 4) => f.push("iat-window"),
      (2, 1) | (2, 2) => f.push("iat-window"),
      _ => {}
    }
    f
  }
}

fn nonce_claim_text(sel: u8) -> &'static str {
  match sel {
    1 => "",
    2 => " ",
    _ => "kb-nonce-1",
  }
}
fn aud_claim_text(sel: u8) -> &'static str {
  match sel {
    1 => "",
    2 => " ",
    _ => "did:example:verifier",
  }
}
/// The expected value placed in the options, as a function of the plan only.
fn expectation(sel: u8, signed: &str, other: &str) -> Option<String> {
  match sel {
    0 => None,
    1 => Some(signed.to_string()),
    2 => Some(other.to_string()),
    3 => Some(String::new()),
    4 => Some(format!("{} ", signed)),
    5 => Some(signed.to_uppercase()),
    6 => {
      let mut t = signed.to_string();
      t.pop();
      Some(t)
    }
    _ => Some(" ".to_string()),
  }
}
/// The text the sd_hash is taken over: `<jwt>~<d1>~...~<dn>~`.
fn presented_text(issuer_jwt: &str, ds: &[String]) -> String {
  let mut s = String::from(issuer_jwt);
  s.push('~');
  s.push_str(&ds.join("~"));
  s.push('~');
  s
}
/// The list handed to the verifier, altered after the holder signed.
fn alter_presented(rng: &mut Rng, how: u8, signed: &[String]) -> Vec<String> {
  let mut v: Vec<String> = signed.to_vec();
  let n = v.len();
  match how {
    1 => v.insert(0, String::new()),
    2 => v.insert(rng.usize(n + 1), String::new()),
    3 => v.push(String::new()),
    4 => {
      v.insert(rng.usize(n + 1), String::new());
      v.insert(rng.usize(n + 2), String::new());
    }
    5 => v.insert(rng.usize(n + 1), rng.pick(&[" ", "\t", "\n", "  "]).to_string()),
    6 if n > 0 => {
      v.remove(rng.usize(n));
    }
    7 => v.insert(rng.usize(n + 1), disclosure(rng, "z", &json!(true))),
    8 if n > 0 => {
      let i = rng.usize(n);
      let d = v[i].clone();
      v.insert(rng.usize(n + 1), d);
    }
    9 if n > 1 => {
      let i = rng.usize(n - 1);
      v.swap(i, i + 1);
    }
    10 if n > 0 => {
      let i = rng.usize(n);
      v[i].push('=');
    }
    _ => {}
  }
  v
}

struct BuiltKb {
  sd: SdJwt,
  options: KeyBindingJWTValidationOptions,
  claims: Value,
  sd_hash_ok: bool,      // signed sd_hash == own digest over the presented text
  altered: bool,         // presented text differs from the signed-over text
  list_only_differs: bool, // the list differs although the text does not ([] versus [""]): either verdict is within the statement
  wire: bool,
}

fn build_kb(rng: &mut Rng, p: &KbPlan, issuer_jwt: &str) -> BuiltKb {
  let names = ["a", "b", "c"];
  let disclosures: Vec<String> = (0..p.n_disclosures).map(|i| disclosure(rng, names[i], &json!(i))).collect();
  let hash_input = |ds: &[String], trailing: bool| {
    let mut s = String::from(issuer_jwt);
    s.push('~');
    s.push_str(&ds.join("~"));
    if trailing {
      s.push('~');
    }
    s
  };
  let sd_hash = match p.sd_hash {
    1 => {
      let mut r = disclosures.clone();
      r.reverse();
      digest_of(&hash_input(&r, true))
    }
    2 => digest_of(&hash_input(&[], true)),
    3 => url_encode(&rng.bytes(32)),
    4 => digest_of(&hash_input(&disclosures, false)),
    5 => {
      // a correctly formed hash, but over another issuer-signed JWT of the same holder (replay)
      let other = issuer_jwt.replacen('.', ".e30", 1);
      let mut s = other;
      s.push('~');
      s.push_str(&disclosures.join("~"));
      if !disclosures.is_empty() {
        s.push('~');
      } else {
        s.push('~');
      }
      digest_of(&s)
    }
    6 => String::new(),
    7 => {
      let d = digest_of(&hash_input(&disclosures, true));
      let keep = 1 + rng.usize(d.len() - 1);
      d[..keep].to_string()
    }
    8 => format!("{}{}", digest_of(&hash_input(&disclosures, true)), rng.pick(&["A", "AA", "=", "~", "0000"])),
    _ => digest_of(&hash_input(&disclosures, true)),
  };
  const E: i64 = 1_690_000_000;
  const L: i64 = 1_690_000_600;
  let now = Timestamp::now_utc().to_unix();
  let iat = match (p.window, p.iat_pos) {
    (1, 0) => E - 1,
    (1, 1) => E,
    (1, 2) => E + 300,
    (1, 3) => L,
    (1, _) => L + 1,
    (2, 0) => now - 86_400,
    (2, 2) => now + 5, // a few seconds in the future: judged only if it is still in the future after the call returned
    (2, _) => now + 86_400,
    _ => 1_500_000_000,
  };
  let iat = if p.iat_ms { iat.saturating_mul(1000) + rng.below(1000) as i64 } else { iat };
  let claims = json!({"iat": iat, "aud": aud_claim_text(p.aud_claim), "nonce": nonce_claim_text(p.nonce_claim), "sd_hash": sd_hash, "extra": {"x": 1}});
  let mut h = Map::new();
  h.insert("alg".into(), json!("EdDSA"));
  match p.typ {
    0 => {
      h.insert("typ".into(), json!(KeyBindingJwtClaims::KB_JWT_HEADER_TYP));
    }
    1 => {
      h.insert("typ".into(), json!("kb+jwt"));
    }
    2 => {
      h.insert("typ".into(), json!("JWT"));
    }
    4 => {
      h.insert("typ".into(), json!("KB+JWT"));
    }
    5 => {
      if let Some(v) = p.typ_custom.as_ref().and_then(|t| t.value.clone()) {
        h.insert("typ".into(), v);
      }
    }
    _ => {}
  }
  let frag = if p.method == 0 { "k1" } else { "k2" };
  match p.kid {
    0 => {
      h.insert("kid".into(), json!(format!("{}#{}", HOLDER, frag)));
    }
    1 => {
      h.insert("kid".into(), json!(format!("{}#nope", HOLDER)));
    }
    3 => {
      h.insert("kid".into(), json!(format!("#{}", frag)));
    }
    4 => {
      h.insert("kid".into(), json!("did:example:stranger#k1"));
    }
    _ => {}
  }
  let own = if p.method == 0 { hk() } else { hk2() };
  let other = if p.method == 0 { hk2() } else { hk() };
  let signer = match p.sig {
    1 => stranger(),
    2 => other,
    _ => own,
  };
  if p.attach_jwk {
    h.insert("jwk".into(), serde_json::from_str::<Value>(&signer.public_jwk_json(Some("EdDSA"))).unwrap());
  }
  let header = Value::Object(h);
  let kb = if p.sig == 3 {
    let good = jwt(&header, &claims, &signer);
    let sig_seg = good.rsplit('.').next().unwrap().to_string();
    let mut altered = claims.clone();
    altered["extra"] = json!({"x": 2});
    jwt_with_sig(&header, &altered, &vh::b64::url_decode(&sig_seg).unwrap())
  } else {
    jwt(&header, &claims, &signer)
  };
  let mut vo = JwsVerificationOptions::new();
  match p.scope {
    1 => vo = vo.method_scope(MethodScope::VerificationMethod),
    2 => vo = vo.method_scope(MethodScope::VerificationRelationship(MethodRelationship::Authentication)),
    3 => vo = vo.method_scope(MethodScope::VerificationRelationship(MethodRelationship::AssertionMethod)),
    _ => {}
  }
  match p.method_id_override {
    1 => vo = vo.method_id(DIDUrl::parse(format!("{}#{}", HOLDER, frag)).unwrap()),
    2 => vo = vo.method_id(DIDUrl::parse(format!("{}#{}", HOLDER, if p.method == 0 { "k2" } else { "k1" })).unwrap()),
    _ => {}
  }
  let mut o = KeyBindingJWTValidationOptions::new().jws_verifier_options(vo);
  if let Some(x) = expectation(p.nonce_opt, nonce_claim_text(p.nonce_claim), "kb-nonce-2") {
    o = o.nonce(x);
  }
  if let Some(x) = expectation(p.aud_opt, aud_claim_text(p.aud_claim), "did:example:another-verifier") {
    o = o.aud(x);
  }
  match p.window {
    1 => o = o.earliest_issuance_date(Timestamp::from_unix(E).unwrap()).latest_issuance_date(Timestamp::from_unix(L).unwrap()),
    0 => o = o.latest_issuance_date(Timestamp::from_unix(1_600_000_000).unwrap()),
    _ => {}
  }
  // A quarter of the scenarios hand the options over as camelCase JSON written by the harness.
  if rng.chance(1, 4) {
    let mut j = Map::new();
    if let Some(n) = &o.nonce {
      j.insert("nonce".into(), json!(n));
    }
    if let Some(a) = &o.aud {
      j.insert("aud".into(), json!(a));
    }
    j.insert("jwsOptions".into(), serde_json::to_value(&o.jws_options).unwrap());
    if let Some(t) = o.earliest_issuance_date {
      j.insert("earliestIssuanceDate".into(), json!(credgen::rfc3339(t.to_unix())));
    }
    if let Some(t) = o.latest_issuance_date {
      j.insert("latestIssuanceDate".into(), json!(credgen::rfc3339(t.to_unix())));
    }
    if let Ok(parsed) = serde_json::from_value::<KeyBindingJWTValidationOptions>(Value::Object(j)) {
      o = parsed;
    }
  }
  // what the verifier is handed: the signed-over list, or that list altered afterwards
  let presented = alter_presented(rng, p.alter, &disclosures);
  let signed_text = presented_text(issuer_jwt, &disclosures);
  let shown_text = presented_text(issuer_jwt, &presented);
  let sd_hash_ok = sd_hash == digest_of(&shown_text);
  let altered = shown_text != signed_text;
  let list_only_differs = !altered && presented != disclosures;
  let kb_opt = if p.present { Some(kb) } else { None };
  let mut sd = SdJwt::new(issuer_jwt.to_string(), presented, kb_opt.clone());
  let mut wire = false;
  if p.via_wire {
    // the same presentation as one string written by the harness, split again by the parser
    let text = format!("{}{}", shown_text, kb_opt.as_deref().unwrap_or(""));
    if let Ok(Ok(parsed)) = catch(|| SdJwt::parse(&text)) {
      if parsed.jwt == issuer_jwt && parsed.key_binding_jwt == kb_opt {
        sd = parsed;
        wire = true;
      }
    }
  }
  // (the text `<jwt>~~<kb>` of a presentation without disclosures comes back from the parser as one empty element)
  let list_only_differs = list_only_differs || (!altered && sd.disclosures != disclosures);
  BuiltKb { sd, options: o, claims, sd_hash_ok, altered, list_only_differs, wire }
}

struct Cx {
  rep: Report,
  issuer: CoreDocument,
  holder: CoreDocument,
  issuer_jwt: String,
}

impl Cx {
  fn cred_scenario(&mut self, rng: &mut Rng, p: &CredPlan) {
    self.rep.eval();
    let b = build_cred(rng, p);
    let (falsified, either) = p.falsified();
    let case = json!({"plan": format!("{:?}", p), "jwt": b.jwt_text, "disclosures": b.sd_jwt.disclosures, "falsified": falsified});
    self.rep.distinct("nontrivial", &format!("cred|{}|n{}|m{}|d{}|alg{}|nest{}", falsified.join("+"), p.n_concealed, p.disclosed_mask & ((1 << p.n_concealed) - 1) as u8, p.disclosure_defect, p.sd_alg, p.nested));
    self.rep.distinct("condition_vectors", &format!("cred|{}", falsified.join("+")));
    let validator = SdJwtCredentialValidator::with_signature_verifier(EdDSAJwsVerifier::default(), SdObjectDecoder::new_with_sha256());
    let ff = if p.fail_fast { FailFast::FirstError } else { FailFast::AllErrors };
    let r = catch(|| validator.validate_credential::<_, Object>(&b.sd_jwt, &self.issuer, &b.options, ff));
    match r {
      Err(pn) => self.rep.violation(&format!("validate_credential-panic@{}", pn.file_only()), &format!("{} at {}", pn.msg, pn.loc()), case),
      Ok(Ok(d)) => {
        self.rep.inc("cred_accepted");
        if !falsified.is_empty() {
          self.rep.violation(&format!("credential-accepted-although-false:{}", falsified[0]), &format!("SD-JWT credential accepted although {:?} do not hold", falsified), case.clone());
          return;
        }
        match Credential::<Object>::from_json_value(b.expected_vc.clone()) {
          Ok(want) => {
            if d.credential != want {
              let mut c = case.clone();
              c["returned"] = serde_json::to_value(&d.credential).unwrap_or(Value::Null);
              c["expected"] = b.expected_vc.clone();
              self.rep.violation("reconstructed-credential-differs", "accepted credential is not the original with exactly the disclosed claims restored", c);
            }
          }
          Err(_) => self.rep.inc("expected_credential_not_constructible"),
        }
        if self.rep.want_sample() {
          self.rep.sample(json!({"sd_jwt": b.sd_jwt.presentation(), "verdict": "accepted"}));
        }
      }
      Ok(Err(_)) => {
        self.rep.inc("cred_rejected");
        if falsified.is_empty() && !either {
          self.rep.violation("credential-rejected-although-all-hold", "SD-JWT credential rejected although every condition holds", case);
        } else {
          for f in &falsified {
            self.rep.inc(&format!("cred_rejected:{}", f));
          }
        }
      }
    }
  }

  /// verify_signature over two trusted issuers: the credential issuer must be the DID of the key that verified.
  fn two_issuers(&mut self, rng: &mut Rng) {
    self.rep.eval();
    // 0 honest issuer 1; 1 honest issuer 2; 2 signed by issuer 1 (kid issuer1#k1) but iss = issuer 2; 3 the converse;
    // 4 kid of issuer 1 but signed with issuer 2's key
    let v = rng.below(5);
    let (kid_did, iss, signer) = match v {
      0 => (ISSUER, ISSUER, ik()),
      1 => (ISSUER2, ISSUER2, ik2()),
      2 => (ISSUER, ISSUER2, ik()),
      3 => (ISSUER2, ISSUER, ik2()),
      _ => (ISSUER, ISSUER, ik2()),
    };
    let mut spec = CredSpec::minimal(iss, Some("did:example:subject"), BOUND_ISS - 10);
    spec.subject_props.insert("always".into(), json!(1));
    let mut claims = spec.claims_json(&Map::new());
    let d = disclosure(rng, "given_name", &json!("Alice"));
    claims["vc"]["credentialSubject"].as_object_mut().unwrap().insert("_sd".into(), json!([digest_of(&d)]));
    let header = json!({"alg":"EdDSA","typ":"sd-jwt","kid":format!("{}#k1", kid_did)});
    let token = jwt(&header, &Value::Object(claims), &signer);
    let presented = if rng.bool() { vec![d] } else { vec![] };
    let sd = SdJwt::new(token.clone(), presented, None);
    let docs = [self.issuer.clone(), issuer2_doc()];
    let case = json!({"two_issuers_variant": v, "jwt": token, "kid": format!("{}#k1", kid_did), "iss": iss});
    self.rep.distinct("nontrivial", &format!("two-issuers|{}", v));
    let validator = SdJwtCredentialValidator::with_signature_verifier(EdDSAJwsVerifier::default(), SdObjectDecoder::new_with_sha256());
    let r = catch(|| validator.verify_signature::<_, Object>(&sd, &docs, &JwsVerificationOptions::default()).map(|d| d.credential.issuer.url().to_string()));
    match r {
      Err(pn) => self.rep.violation(&format!("verify_signature-panic@{}", pn.file_only()), &pn.msg, case),
      Ok(Ok(issuer)) => {
        self.rep.inc("two_issuers_accepted");
        if v >= 2 {
          self.rep.violation(
            if v == 4 { "credential-accepted-although-false:signature" } else { "credential-accepted-although-false:issuer-differs-from-signing-document" },
            "verify_signature over two trusted issuers accepted an SD-JWT whose issuer is not the DID of the key that verified it",
            case,
          );
        } else if issuer != iss {
          self.rep.violation("reconstructed-credential-differs", "issuer of the returned credential differs", case);
        }
      }
      Ok(Err(_)) => {
        self.rep.inc("two_issuers_rejected");
        if v < 2 {
          self.rep.violation("credential-rejected-although-all-hold", "verify_signature rejected an honest SD-JWT of a trusted issuer", case);
        }
      }
    }
  }

  fn kb_scenario(&mut self, rng: &mut Rng, p: &KbPlan) {
    self.rep.eval();
    let b = build_kb(rng, p, &self.issuer_jwt.clone());
    let falsified = p.falsified(b.sd_hash_ok, b.altered);
    let either = b.list_only_differs;
    if b.wire {
      self.rep.inc("kb_via_wire_text");
    }
    if p.alter != 0 {
      self.rep.inc(if b.altered { "kb_presentation_altered_after_signing" } else { "kb_alteration_without_effect_on_text" });
    }
    let (sd, o, claims) = (b.sd, b.options, b.claims);
    let case = json!({"plan": format!("{:?}", p), "kb_jwt": sd.key_binding_jwt, "disclosures": sd.disclosures, "falsified": falsified,
      "options": serde_json::to_value(&o).unwrap_or(Value::Null)});
    let typ_label = match (&p.typ_custom, p.typ) {
      (Some(t), 5) => format!("5:{}:{}", t.class, t.base),
      _ => p.typ.to_string(),
    };
    if let (Some(t), 5) = (&p.typ_custom, p.typ) {
      self.rep.inc("kb_typ_near_miss_cases");
      self.rep.distinct("typ_near_miss_classes", t.class);
      self.rep.distinct("typ_near_miss_values", &t.value.as_ref().map(|v| v.to_string()).unwrap_or_else(|| "absent".into()));
    }
    self.rep.distinct("nontrivial", &format!("kb|{}|typ{}|m{}|kid{}|ovr{}|sc{}|w{}:{}|n{}|alt{}|nc{}:{}|ac{}:{}", falsified.join("+"), typ_label, p.method, p.kid, p.method_id_override, p.scope, p.window, p.iat_pos, p.n_disclosures,
      p.alter, p.nonce_claim, p.nonce_opt, p.aud_claim, p.aud_opt));
    self.rep.distinct("condition_vectors", &format!("kb|{}", falsified.join("+")));
    let validator = SdJwtCredentialValidator::with_signature_verifier(EdDSAJwsVerifier::default(), SdObjectDecoder::new_with_sha256());
    let r = catch(|| validator.validate_key_binding_jwt(&sd, &self.holder, &o));
    if p.window == 2 && p.iat_pos == 2 {
      // sound only if the signed iat is still ahead of the wall clock now that the call has returned
      let now_after = Timestamp::now_utc().to_unix();
      if now_after >= claims["iat"].as_i64().unwrap_or(i64::MIN) {
        self.rep.inc("near_future_case_not_judged");
        return;
      }
      self.rep.inc("near_future_cases_judged");
    }
    match r {
      Err(pn) => self.rep.violation(&format!("validate_key_binding_jwt-panic@{}", pn.file_only()), &format!("KB-JWT validation panicked ({:?} false): {} at {}", falsified, pn.msg, pn.loc()), case),
      Ok(Ok(c)) => {
        self.rep.inc("kb_accepted");
        if !falsified.is_empty() {
          match (&p.typ_custom, p.typ, falsified[0]) {
            // a near-miss of the type: the signature names the class of deviation (never the signature of the known constant)
            (Some(t), 5, "typ") => self.rep.violation(
              &format!("kb-jwt-accepted:typ-{}", t.class),
              &format!(
                "a KB-JWT whose header typ is {} (not exactly \"kb+jwt\") is accepted{}",
                t.value.as_ref().map(|v| v.to_string()).unwrap_or_else(|| "absent".into()),
                if falsified.len() > 1 { format!(" (also false: {:?})", &falsified[1..]) } else { String::new() }
              ),
              case.clone(),
            ),
            _ => self.rep.violation(&format!("kb-jwt-accepted-although-false:{}", falsified[0]), &format!("KB-JWT accepted although {:?} do not hold", falsified), case.clone()),
          }
          return;
        }
        // the statement says "typed kb+jwt": the exact spelling is judged by the dedicated probe below
        if p.typ == 0 && KeyBindingJwtClaims::KB_JWT_HEADER_TYP != "kb+jwt" {
          self.rep.violation(
            "kb-jwt-accepted:typ-not-exactly-kb+jwt",
            &format!("a KB-JWT typed {:?} (not exactly \"kb+jwt\") is accepted", KeyBindingJwtClaims::KB_JWT_HEADER_TYP),
            case.clone(),
          );
        }
        if o.nonce.as_deref() == Some("") || o.aud.as_deref() == Some("") {
          self.rep.inc("kb_accepted_with_empty_expectation_met");
        }
        if c.iat != claims["iat"].as_i64().unwrap() || c.aud != aud_claim_text(p.aud_claim) || c.nonce != nonce_claim_text(p.nonce_claim) || Some(c.sd_hash.as_str()) != claims["sd_hash"].as_str() {
          self.rep.violation("kb-claims-returned-differ", "KB-JWT claims returned differ from those signed", case.clone());
        }
      }
      Ok(Ok(_)) | Ok(Err(_)) if false => {}
      Ok(Err(_)) => {
        self.rep.inc("kb_rejected");
        // completeness is demanded only for the typ spelling the library itself documents (its constant); a spec-conform
        // "kb+jwt" that is rejected is counted
        if falsified.is_empty() && either {
          self.rep.inc("kb_rejected_within_latitude");
        } else if falsified.is_empty() {
          if p.typ == 0 {
            self.rep.violation("kb-jwt-rejected-although-all-hold", "KB-JWT rejected although every condition holds", case);
          } else {
            self.rep.inc("kb_rejected_spec_typ");
          }
        } else {
          for f in &falsified {
            self.rep.inc(&format!("kb_rejected:{}", f));
          }
          if p.typ == 5 && falsified == ["typ"] {
            self.rep.inc("kb_typ_near_miss_alone_rejected");
          }
          if (falsified.contains(&"nonce") && o.nonce.as_deref() == Some("")) || (falsified.contains(&"aud") && o.aud.as_deref() == Some("")) {
            self.rep.inc("kb_rejected:empty-expectation-not-met");
          }
        }
      }
    }
  }
}

fn mutate_cred(rng: &mut Rng, p: &mut CredPlan, w: u64) {
  match w {
    0 => p.sig = 1 + rng.below(2) as u8,
    1 => p.kid = 1 + rng.below(2) as u8,
    2 => p.issuer_claim = 1,
    3 => {
      p.nonce_hdr = rng.below(3) as u8;
      p.nonce_opt = (p.nonce_hdr + 1 + rng.below(2) as u8) % 3;
    }
    4 => p.disclosure_defect = *rng.pick(&[1u8, 2, 4, 6]),
    5 => p.disclosure_defect = 3,
    6 => p.sd_alg = 2,
    7 => p.issuance_delta = *rng.pick(&[1i64, 1000]),
    8 => p.expiry = Some(*rng.pick(&[-1i64, -1000])),
    _ => p.structure = 1,
  }
}

fn mutate_kb(rng: &mut Rng, p: &mut KbPlan, w: u64) {
  match w {
    0 => p.present = false,
    1 => {
      if rng.bool() {
        p.typ = 2 + rng.below(3) as u8;
      } else {
        let fam = typ_family();
        p.typ = 5;
        p.typ_custom = Some(fam[rng.usize(fam.len())].clone());
      }
    }
    2 => p.kid = 1 + rng.below(4) as u8,
    3 => p.method_id_override = 2,
    4 => p.scope = 1 + rng.below(3) as u8,
    5 => p.sig = 1 + rng.below(3) as u8,
    6 => {
      p.sd_hash = 1 + rng.below(8) as u8;
      match p.sd_hash {
        // the order / jwt-only variants only differ from the right hash when enough disclosures are presented
        1 | 2 => {
          if p.n_disclosures < 2 {
            p.n_disclosures = 2 + rng.usize(2);
          }
        }
        // garbage, missing trailing '~' and replay from another credential are wrong for ANY number of presented
        // disclosures, including none at all
        _ => {
          if rng.bool() {
            p.n_disclosures = 0;
          }
        }
      }
    }
    7 => {
      p.nonce_opt = 2 + rng.below(6) as u8;
      if p.nonce_opt == 3 {
        p.nonce_claim = *rng.pick(&[0u8, 0, 2]); // an empty expectation against a non-empty signed value
      }
    }
    8 => {
      p.aud_opt = 2 + rng.below(6) as u8;
      if p.aud_opt == 3 {
        p.aud_claim = *rng.pick(&[0u8, 0, 2]);
      }
    }
    15 | 16 => {
      // the disclosure list is altered after the holder signed
      p.alter = 1 + rng.below(10) as u8;
      let need = match p.alter {
        9 => 2,
        1..=5 | 7 => usize::from(rng.chance(3, 4)),
        _ => 1,
      };
      if p.n_disclosures < need {
        p.n_disclosures = need + rng.usize(4 - need);
      }
    }
    9 => {
      p.window = 1;
      p.iat_pos = *rng.pick(&[0u8, 4]);
    }
    10 => {
      p.window = 2;
      p.iat_pos = 1 + rng.below(2) as u8;
    }
    14 => {
      // an iat that is in the window only if read as milliseconds
      p.iat_ms = true;
      match p.window {
        1 => p.iat_pos = 1 + rng.below(3) as u8,
        2 => p.iat_pos = 0,
        _ => {}
      }
    }
    13 => {
      // signed by a foreign key that is offered in the header itself, with a kid the holder document cannot resolve
      p.sig = 1;
      p.attach_jwk = true;
      p.kid = *rng.pick(&[1u8, 2, 4]);
      p.method_id_override = 0;
    }
    11 => {
      p.typ = 1; // the spec spelling (legal)
      p.typ_custom = None;
    }
    _ => {
      p.window = 1;
      p.iat_pos = *rng.pick(&[1u8, 3]); // inclusive window edges (legal)
    }
  }
}

fn main() {
  let args = Args::parse();
  let scale = args.extra_u64("scale", 1000);
  let issuer_jwt = {
    let spec = CredSpec::minimal(ISSUER, Some("did:example:subject"), BOUND_ISS - 5);
    jwt(&json!({"alg":"EdDSA","kid":format!("{}#k1", ISSUER),"typ":"sd-jwt"}), &Value::Object(spec.claims_json(&Map::new())), &ik())
  };
  let mut cx = Cx { rep: Report::new("C16"), issuer: issuer_doc(), holder: holder_doc(), issuer_jwt };
  cx.rep.rule(
    "SD-JWT credentials assembled by the harness (0-4 concealed subject claims + nested concealed claim, own SHA-256 digests, decoys, every \
     disclosed subset, forged / foreign / duplicated / garbage / reordered disclosures, _sd_alg forms) x issuer-side conditions (signature, \
     kid, issuer, nonce, dates, structure); KB-JWTs with each bound field right/wrong (typ: the library's constant, kb+jwt, absent, and a \
     family of near-misses derived from both spellings - application/ and other prefixes, suffixes, letter case, surrounding / inner \
     whitespace, media type parameters, truncations, other separators, other types, empty, non-string values - each also alone on an \
     otherwise fully bound KB-JWT; any accepted typ other than exactly kb+jwt is a violation named after its class; kid/method-id, scope, signature by other key, \
     sd_hash over other concatenations, the presented disclosure list altered after the holder signed (empty / whitespace-only elements \
     spliced in, dropped, appended, duplicated, swapped, padded; judged by the harness's own digest over the presented text; directly and \
     through the wire text), nonce and aud signed as ordinary / empty / blank values against absent, equal, other, empty, blank and near-miss \
     expectations (builder and JSON options), iat at the inclusive window edges +-1 s and a day either side of now). accept <=> all hold; \
     distinct = falsified vector x structural dimensions",
  );
  let mut rng = args.rng(16);
  // A fixed sweep, the same at every seed and scale: every alteration of the presented list for 0..=3 signed-over disclosures, and every
  // (signed value, expectation) pairing of nonce and of aud, each on an otherwise valid KB-JWT, directly and through the wire text.
  {
    let mut idx = 0u64;
    let mut sweep: Vec<KbPlan> = Vec::new();
    let mut base_rng = args.rng(1616);
    for via_wire in [false, true] {
      for alter in 1..=10u8 {
        for n_disclosures in 0..=3usize {
          let mut k = KbPlan::good(&mut base_rng);
          k.alter = alter;
          k.n_disclosures = n_disclosures;
          k.via_wire = via_wire;
          sweep.push(k);
        }
      }
      for claim in 0..=2u8 {
        for opt in 0..=7u8 {
          for which in 0..2 {
            let mut k = KbPlan::good(&mut base_rng);
            k.via_wire = via_wire;
            if which == 0 {
              k.nonce_claim = claim;
              k.nonce_opt = opt;
            } else {
              k.aud_claim = claim;
              k.aud_opt = opt;
            }
            sweep.push(k);
          }
        }
      }
    }
    // Every near-miss of the header typ (see `typ_family`) on an otherwise fully bound KB-JWT, directly and through the wire text. At a
    // reduced scale one value per (class of deviation, base spelling), alternating between the two ways of presenting.
    {
      let fam = typ_family();
      let mut seen: Vec<(&'static str, u8)> = Vec::new();
      let mut j = 0usize;
      for t in &fam {
        let first_of_class = !seen.contains(&(t.class, t.base));
        if first_of_class {
          seen.push((t.class, t.base));
        }
        if scale < 1000 && !first_of_class {
          continue;
        }
        j += 1;
        for via_wire in [false, true] {
          if scale < 1000 && via_wire != (j % 2 == 0) {
            continue;
          }
          let mut k = KbPlan::good(&mut base_rng);
          k.typ = 5;
          k.typ_custom = Some(t.clone());
          k.via_wire = via_wire;
          sweep.push(k);
        }
      }
    }
    for k in &sweep {
      if args.mine(idx) {
        cx.rep.inc("kb_fixed_sweep_cases");
        cx.kb_scenario(&mut rng, k);
      }
      idx += 1;
    }
  }
  let n = (if args.thorough { 2_400_000u64 } else { 2_400 } * scale / 1000 / args.nshards).max(40);
  for i in 0..n {
    let mut p = CredPlan::good(&mut rng);
    match i % 6 {
      0 | 1 => {}
      2 | 3 => {
        let w = rng.below(10);
        mutate_cred(&mut rng, &mut p, w);
      }
      _ => {
        let (a, b) = (rng.below(10), rng.below(10));
        mutate_cred(&mut rng, &mut p, a);
        mutate_cred(&mut rng, &mut p, b);
      }
    }
    cx.cred_scenario(&mut rng, &p);
    if i % 8 == 0 {
      cx.two_issuers(&mut rng);
    }
    let mut k = KbPlan::good(&mut rng);
    match i % 6 {
      0 => {}
      1 | 2 | 3 => {
        let w = rng.below(17);
        mutate_kb(&mut rng, &mut k, w);
      }
      _ => {
        let (a, b) = (rng.below(17), rng.below(17));
        mutate_kb(&mut rng, &mut k, a);
        mutate_kb(&mut rng, &mut k, b);
      }
    }
    cx.kb_scenario(&mut rng, &k);
  }
  cx.rep.finish();
}
