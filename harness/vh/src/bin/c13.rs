//! C13 — Timestamps are total, canonical whole-second UTC instants in years 0000–9999.
//! Oracle: the harness's own civil-date arithmetic (days_from_civil / civil_from_days).
use identity_core::common::{Duration, Timestamp};
use identity_core::convert::{FromJson, ToJson};
use serde_json::json;
use vh::panicmon::catch;
use vh::{Args, Report, Rng};

const MIN: i64 = -62_167_219_200; // 0000-01-01T00:00:00Z
const MAX: i64 = 253_402_300_799; // 9999-12-31T23:59:59Z

fn days_from_civil(y: i64, m: i64, d: i64) -> i64 {
  let y = if m <= 2 { y - 1 } else { y };
  let era = if y >= 0 { y } else { y - 399 } / 400;
  let yoe = y - era * 400;
  let mp = (m + 9) % 12;
  let doy = (153 * mp + 2) / 5 + d - 1;
  let doe = yoe * 365 + yoe / 4 - yoe / 100 + doy;
  era * 146_097 + doe - 719_468
}

fn civil_from_days(z: i64) -> (i64, i64, i64) {
  let z = z + 719_468;
  let era = if z >= 0 { z } else { z - 146_096 } / 146_097;
  let doe = z - era * 146_097;
  let yoe = (doe - doe / 1460 + doe / 36_524 - doe / 146_096) / 365;
  let y = yoe + era * 400;
  let doy = doe - (365 * yoe + yoe / 4 - yoe / 100);
  let mp = (5 * doy + 2) / 153;
  let d = doy - (153 * mp + 2) / 5 + 1;
  let m = if mp < 10 { mp + 3 } else { mp - 9 };
  (if m <= 2 { y + 1 } else { y }, m, d)
}

fn is_leap(y: i64) -> bool {
  (y % 4 == 0 && y % 100 != 0) || y % 400 == 0
}
fn dim(y: i64, m: i64) -> i64 {
  match m {
    1 | 3 | 5 | 7 | 8 | 10 | 12 => 31,
    4 | 6 | 9 | 11 => 30,
    _ => {
      if is_leap(y) {
        29
      } else {
        28
      }
    }
  }
}

/// Reference formatting of unix seconds in range.
fn fmt_ref(t: i64) -> String {
  let days = t.div_euclid(86_400);
  let sod = t.rem_euclid(86_400);
  let (y, m, d) = civil_from_days(days);
  format!("{:04}-{:02}-{:02}T{:02}:{:02}:{:02}Z", y, m, d, sod / 3600, (sod / 60) % 60, sod % 60)
}

#[derive(Clone, Copy, Debug)]
struct Civil {
  y: i64,
  mo: i64,
  d: i64,
  h: i64,
  mi: i64,
  s: i64,
}

impl Civil {
  fn from_unix(t: i64) -> Civil {
    let days = t.div_euclid(86_400);
    let sod = t.rem_euclid(86_400);
    let (y, mo, d) = civil_from_days(days);
    Civil { y, mo, d, h: sod / 3600, mi: (sod / 60) % 60, s: sod % 60 }
  }
  fn local_seconds(&self) -> i64 {
    days_from_civil(self.y, self.mo, self.d) * 86_400 + self.h * 3600 + self.mi * 60 + self.s
  }
  fn valid_calendar(&self) -> bool {
    (0..=9999).contains(&self.y)
      && (1..=12).contains(&self.mo)
      && self.d >= 1
      && self.d <= dim(self.y, self.mo)
      && (0..24).contains(&self.h)
      && (0..60).contains(&self.mi)
      && (0..=60).contains(&self.s)
  }
}

/// Renders an RFC 3339 string. `off` = offset in minutes (None → "Z"), `frac` digits.
fn render(c: &Civil, off: Option<i64>, frac: &str, lower_t: bool, lower_z: bool) -> String {
  let t = if lower_t { 't' } else { 'T' };
  let mut s = format!("{:04}-{:02}-{:02}{}{:02}:{:02}:{:02}", c.y, c.mo, c.d, t, c.h, c.mi, c.s);
  if !frac.is_empty() {
    s.push('.');
    s.push_str(frac);
  }
  match off {
    None => s.push(if lower_z { 'z' } else { 'Z' }),
    Some(o) => {
      let sign = if o < 0 { '-' } else { '+' };
      let a = o.abs();
      s.push_str(&format!("{}{:02}:{:02}", sign, a / 60, a % 60));
    }
  }
  s
}

struct Ctx {
  rep: Report,
}

impl Ctx {
  /// Applies every accessor to an accepted value; returns its unix seconds when all is well.
  fn check_accepted(&mut self, origin: &str, input: &str, ts: Timestamp) -> Option<i64> {
    let unix = match catch(|| ts.to_unix()) {
      Ok(u) => u,
      Err(p) => {
        self.rep.violation(&format!("to_unix-panic@{}", p.file_only()), &p.msg, json!({"origin":origin,"input":input}));
        return None;
      }
    };
    if !(MIN..=MAX).contains(&unix) {
      self.rep.violation(
        &format!("out-of-range-accepted:{}", origin),
        &format!("accepted value outside 0000..9999: unix={}", unix),
        json!({"origin":origin,"input":input,"unix":unix}),
      );
    }
    let s = match catch(|| ts.to_rfc3339()) {
      Ok(s) => s,
      Err(p) => {
        self.rep.violation(
          &format!("to_rfc3339-panic:{}", origin),
          &format!("formatting an accepted timestamp panicked: {} at {}", p.msg, p.loc()),
          json!({"origin":origin,"input":input,"unix":unix}),
        );
        return Some(unix);
      }
    };
    if (MIN..=MAX).contains(&unix) {
      let want = fmt_ref(unix);
      if s != want {
        self.rep.violation(
          &format!("format-mismatch:{}", origin),
          &format!("to_rfc3339 = {} but reference = {}", s, want),
          json!({"origin":origin,"input":input,"unix":unix}),
        );
      }
      // Display / String / Debug agree with to_rfc3339
      let disp = catch(|| (ts.to_string(), String::from(ts), format!("{:?}", ts)));
      match disp {
        Ok((a, b, c)) => {
          if a != s || b != s || c != format!("{:?}", s) {
            self.rep.violation("display-mismatch", "Display/String/Debug disagree with to_rfc3339", json!({"input":input}));
          }
        }
        Err(p) => self.rep.violation(&format!("display-panic@{}", p.file_only()), &p.msg, json!({"input":input})),
      }
      // round trips
      match catch(|| Timestamp::parse(&s)) {
        Ok(Ok(back)) if back == ts => {}
        Ok(other) => self.rep.violation(
          "format-parse-roundtrip",
          &format!("parse(to_rfc3339(x)) != x: {:?}", other.map(|t| t.to_unix()).map_err(|e| e.to_string())),
          json!({"origin":origin,"input":input,"formatted":s}),
        ),
        Err(p) => self.rep.violation(&format!("parse-panic@{}", p.file_only()), &p.msg, json!({"input":s})),
      }
      match catch(|| Timestamp::from_unix(unix)) {
        Ok(Ok(back)) if back == ts => {}
        Ok(other) => self.rep.violation(
          "unix-roundtrip",
          &format!("from_unix(to_unix(x)) != x: {:?}", other.map(|t| t.to_unix()).map_err(|e| e.to_string())),
          json!({"origin":origin,"input":input,"unix":unix}),
        ),
        Err(p) => self.rep.violation(&format!("from_unix-panic@{}", p.file_only()), &p.msg, json!({"unix":unix})),
      }
      match catch(|| ts.to_json().map(|j| (Timestamp::from_json(&j), j))) {
        Ok(Ok((Ok(back), j))) if back == ts && j == format!("\"{}\"", want) => {}
        Ok(other) => self.rep.violation(
          "json-roundtrip",
          &format!("JSON round trip differs: {:?}", other.map(|(b, j)| (b.map(|t| t.to_unix()).map_err(|e| e.to_string()), j)).map_err(|e| e.to_string())),
          json!({"origin":origin,"input":input}),
        ),
        Err(p) => self.rep.violation(&format!("json-panic@{}", p.file_only()), &p.msg, json!({"input":input})),
      }
    }
    Some(unix)
  }

  fn other_string_entry_points(input: &str) -> Vec<(&'static str, Result<Option<Timestamp>, vh::panicmon::PanicRec>)> {
    vec![
      ("from_str", catch(|| input.parse::<Timestamp>().ok())),
      ("try_from_str", catch(|| Timestamp::try_from(input).ok())),
      ("try_from_string", catch(|| Timestamp::try_from(input.to_string()).ok())),
    ]
  }

  /// One RFC 3339 string built from components; `expect` = the instant it denotes.
  fn parse_case(&mut self, c: &Civil, off: Option<i64>, frac: &str, lt: bool, lz: bool) {
    let input = render(c, off, frac, lt, lz);
    self.rep.eval();
    let denotes = c.local_seconds() - off.unwrap_or(0) * 60;
    let res = catch(|| Timestamp::parse(&input));
    let class = format!(
      "parse|y{}|edge{}|off{}|frac{}|{}{}|s60:{}",
      if c.y == 0 { 0 } else if c.y == 9999 { 2 } else { 1 },
      if denotes < MIN { 0 } else if denotes > MAX { 2 } else if denotes == MIN || denotes == MAX { 3 } else { 1 },
      off.map(|o| o.signum()).unwrap_or(9),
      frac.len(),
      lt as u8,
      lz as u8,
      c.s == 60
    );
    match res {
      Err(p) => {
        self.rep.violation(
          &format!("parse-panic@{}", p.file_only()),
          &format!("Timestamp::parse({:?}) panicked: {} at {}", input, p.msg, p.loc()),
          json!({"input":input,"denotes_unix":denotes}),
        );
      }
      Ok(Err(_)) => {
        self.rep.inc("parse_rejected");
        if (MIN..=MAX).contains(&denotes) && c.s < 60 {
          self.rep.inc("parse_rejected_in_range");
        }
        // the other string entry points are the same parser: what one refuses none may accept
        for (name, r) in Self::other_string_entry_points(&input) {
          match r {
            Err(p) => self.rep.violation(&format!("{}-panic@{}", name, p.file_only()), &p.msg, json!({"input":input})),
            Ok(None) => {}
            Ok(Some(t)) => {
              self.check_accepted(name, &input, t);
              self.rep.violation(&format!("entry-points-disagree:{}", name), &format!("{}({:?}) accepted what Timestamp::parse refuses", name, input), json!({"input":input,"denotes_unix":denotes}));
            }
          }
        }
      }
      Ok(Ok(ts)) => {
        self.rep.inc("parse_accepted");
        self.rep.distinct("nontrivial", &class);
        if self.rep.want_sample() && off.is_some() && !frac.is_empty() {
          self.rep.sample(json!({"input":input,"denotes_unix":denotes,"library_unix":ts.to_unix()}));
        }
        if let Some(unix) = self.check_accepted("parse", &input, ts) {
          let ok = if c.s == 60 { unix == denotes || unix == denotes - 1 } else { unix == denotes };
          if !ok {
            self.rep.violation(
              "parse-wrong-instant",
              &format!("parse({:?}) = {} but the string denotes {}", input, unix, denotes),
              json!({"input":input,"denotes_unix":denotes,"library_unix":unix}),
            );
          }
        }
        // FromStr / TryFrom<&str> / TryFrom<String> must agree with parse
        for (name, r) in Self::other_string_entry_points(&input) {
          match r {
            Err(p) => self.rep.violation(&format!("{}-panic@{}", name, p.file_only()), &p.msg, json!({"input":input})),
            Ok(Some(t2)) if t2 == ts => {}
            Ok(other) => {
              if let Some(t2) = other {
                self.check_accepted(name, &input, t2);
              }
              self.rep.violation(
                &format!("entry-points-disagree:{}", name),
                &format!("{}({:?}) = {:?} but Timestamp::parse gives unix {}", name, input, other.map(|t| t.to_unix()), ts.to_unix()),
                json!({"input":input,"denotes_unix":denotes}),
              );
            }
          }
        }
        self.rep.inc("string_entry_points_compared");
        // serde path must agree with parse
        let j = format!("\"{}\"", input);
        match catch(|| Timestamp::from_json(&j)) {
          Ok(Ok(t2)) if t2 == ts => {}
          Ok(other) => self.rep.violation(
            "serde-vs-parse",
            &format!("serde deserialisation disagrees with parse: {:?}", other.map(|t| t.to_unix()).map_err(|e| e.to_string())),
            json!({"input":input}),
          ),
          Err(p) => self.rep.violation(&format!("serde-panic@{}", p.file_only()), &p.msg, json!({"input":input})),
        }
      }
    }
  }

  /// A JSON value that is not an RFC 3339 string offered to the serde path: refusing is fine; whatever is accepted is a
  /// timestamp like any other (in range, formattable, round-tripping).
  fn json_non_string_case(&mut self, text: &str) {
    self.rep.eval();
    match catch(|| Timestamp::from_json(text)) {
      Err(p) => self.rep.violation(&format!("from_json-panic@{}", p.file_only()), &p.msg, json!({"json":text})),
      Ok(Err(_)) => self.rep.inc("json_non_string_rejected"),
      Ok(Ok(ts)) => {
        self.rep.inc("json_non_string_accepted");
        self.check_accepted("json-non-string", text, ts);
      }
    }
  }

  fn unix_case(&mut self, s: i64) {
    self.json_non_string_case(&s.to_string());
    self.rep.eval();
    match catch(|| Timestamp::from_unix(s)) {
      Err(p) => self.rep.violation(&format!("from_unix-panic@{}", p.file_only()), &p.msg, json!({"unix":s})),
      Ok(r) => {
        let inr = (MIN..=MAX).contains(&s);
        self.rep.distinct("nontrivial", &format!("unix|{}|{}", inr, s.signum()));
        match r {
          Ok(ts) => {
            self.rep.inc("from_unix_accepted");
            if !inr {
              self.rep.violation("from_unix-accepts-out-of-range", &format!("from_unix({}) accepted", s), json!({"unix":s}));
            }
            if let Some(u) = self.check_accepted("from_unix", &s.to_string(), ts) {
              if u != s {
                self.rep.violation("from_unix-wrong", &format!("from_unix({}).to_unix() = {}", s, u), json!({"unix":s}));
              }
            }
          }
          Err(_) => {
            self.rep.inc("from_unix_rejected");
            if inr {
              self.rep.violation("from_unix-rejects-in-range", &format!("from_unix({}) rejected", s), json!({"unix":s}));
            }
          }
        }
      }
    }
  }

  fn arith_case(&mut self, t: i64, dur: Duration, dsecs: i64, dname: &str) {
    self.rep.eval();
    let Ok(ts) = Timestamp::from_unix(t) else { return };
    for add in [true, false] {
      let want = if add { t.checked_add(dsecs) } else { t.checked_sub(dsecs) }.filter(|r| (MIN..=MAX).contains(r));
      let got = catch(|| if add { ts.checked_add(dur) } else { ts.checked_sub(dur) });
      self.rep.distinct("nontrivial", &format!("arith|{}|{}|{}", add, want.is_some(), dname.split('(').next().unwrap_or("")));
      match got {
        Err(p) => self.rep.violation(
          &format!("arith-panic@{}", p.file_only()),
          &format!("{} {} {} panicked: {}", t, if add { "+" } else { "-" }, dname, p.msg),
          json!({"t":t,"dur":dname,"add":add}),
        ),
        Ok(g) => {
          self.rep.inc("arith_checked");
          let gu = g.map(|x| x.to_unix());
          if gu != want {
            self.rep.violation(
              if add { "checked_add-mismatch" } else { "checked_sub-mismatch" },
              &format!("{} {} {} = {:?}, integer arithmetic says {:?}", t, if add { "+" } else { "-" }, dname, gu, want),
              json!({"t":t,"dur":dname,"add":add}),
            );
          }
          if let Some(x) = g {
            self.check_accepted("arith", &format!("{}{}{}", t, if add { "+" } else { "-" }, dname), x);
          }
        }
      }
    }
  }

  fn order_case(&mut self, a: i64, b: i64) {
    let (Ok(x), Ok(y)) = (Timestamp::from_unix(a), Timestamp::from_unix(b)) else { return };
    self.rep.eval();
    self.rep.inc("order_checked");
    if x.cmp(&y) != a.cmp(&b) || (x == y) != (a == b) || x.partial_cmp(&y) != Some(a.cmp(&b)) {
      self.rep.violation("ordering-mismatch", &format!("ordering of {} and {} differs from integers", a, b), json!({"a":a,"b":b}));
    }
  }
}

fn durations(rng: &mut Rng) -> Vec<(Duration, i64, String)> {
  let mut v = Vec::new();
  let mut ns: Vec<u32> = vec![0, 1, 2, 59, 60, 86_399, 86_400, u32::MAX - 1, u32::MAX];
  for _ in 0..6 {
    ns.push(rng.next_u32());
    ns.push(rng.next_u32() >> 12);
    ns.push(rng.next_u32() >> 22);
  }
  for n in ns {
    let n64 = n as i64;
    v.push((Duration::seconds(n), n64, format!("seconds({})", n)));
    v.push((Duration::minutes(n), n64 * 60, format!("minutes({})", n)));
    v.push((Duration::hours(n), n64 * 3600, format!("hours({})", n)));
    v.push((Duration::days(n), n64 * 86_400, format!("days({})", n)));
    v.push((Duration::weeks(n), n64 * 604_800, format!("weeks({})", n)));
  }
  v
}

const JSON_NON_STRINGS: &[&str] = &[
  "0", "-1", "1.5", "1e9", "-62167219200", "-62167219201", "253402300799", "253402300800", "-377705116800", "-377705116801", "9223372036854775807",
  "-9223372036854775808", "1e30", "null", "true", "[]", "[\"2020-01-01T00:00:00Z\"]", "{}", "{\"secs\":0}", "[0,0]", "[2020,1]", "[-1,1,0,0,0,0,0,0,0]",
];

fn main() {
  let args = Args::parse();
  let mut cx = Ctx { rep: Report::new("C13") };
  cx.rep.rule(
    "cases = RFC 3339 strings rendered from (civil date-time, offset minute, fraction, T/Z case) by the harness, \
     unix seconds, (timestamp,duration) pairs, ordered pairs; non-trivial+distinct = accepted/decided cases \
     classed by (year class, position w.r.t. range ends, offset sign, fraction length, letter case, leap second) \
     resp. (in-range?, sign) resp. (op, in-range result?, duration unit)",
  );
  let mut rng = args.rng(13);
  let thorough = args.thorough;

  // ---- boundary grid: date-times at and around the range ends, leap days, leap seconds
  let mut anchors: Vec<Civil> = Vec::new();
  for base in [MIN, MAX] {
    for d in [-86_400i64, -3600, -61, -60, -1, 0, 1, 59, 60, 3599, 3600, 86_399, 86_400] {
      let t = base + d;
      // local civil times may lie outside the unix range by up to a day as long as the year stays 0000..9999
      let c = Civil::from_unix(t);
      if c.valid_calendar() {
        anchors.push(c);
      }
    }
  }
  for (y, mo, d) in [(2000, 2, 29), (1900, 2, 28), (2024, 2, 29), (1970, 1, 1), (1969, 12, 31), (4, 2, 29), (9996, 2, 29), (1, 1, 1), (0, 12, 31), (0, 2, 29)] {
    anchors.push(Civil { y, mo, d, h: 0, mi: 0, s: 0 });
    anchors.push(Civil { y, mo, d, h: 23, mi: 59, s: 59 });
    anchors.push(Civil { y, mo, d, h: 12, mi: 30, s: 30 });
  }
  // leap seconds (second = 60): the reference accepts rejection or :59/:60
  anchors.push(Civil { y: 2016, mo: 12, d: 31, h: 23, mi: 59, s: 60 });
  anchors.push(Civil { y: 9999, mo: 12, d: 31, h: 23, mi: 59, s: 60 });
  anchors.push(Civil { y: 0, mo: 1, d: 1, h: 0, mi: 0, s: 60 });

  let fracs_quick = ["", "0", "999", "123456789", "999999999", "99999999", "9999999999"];
  let fracs_thorough = ["", "0", "9", "50", "999", "0001", "99999", "000000", "9999999", "12345678", "99999999", "999999999", "9999999999", "999999999999", "999999998", "000000001"];
  let fracs: &[&str] = if thorough { &fracs_thorough } else { &fracs_quick };
  let mut idx: u64 = 0;
  for c in &anchors {
    for off in -1439i64..=1439 {
      idx += 1;
      if !args.mine(idx) {
        continue;
      }
      for f in fracs {
        cx.parse_case(c, Some(off), f, false, false);
      }
      if off == 0 {
        for f in fracs {
          cx.parse_case(c, None, f, false, false);
          cx.parse_case(c, None, f, true, true);
          cx.parse_case(c, None, f, false, true);
        }
        // "-00:00" spelling
        let neg0 = format!("{}-00:00", &render(c, None, "", false, false).trim_end_matches('Z'));
        cx.rep.eval();
        if let Ok(Ok(ts)) = catch(|| Timestamp::parse(&neg0)) {
          if c.s < 60 && ts.to_unix() != c.local_seconds() {
            cx.rep.violation("parse-wrong-instant", &format!("parse({:?}) = {}", neg0, ts.to_unix()), json!({"input":neg0}));
          }
          cx.check_accepted("parse", &neg0, ts);
        }
      }
    }
  }

  // ---- uniformly random instants x random offsets x random fractions
  let n_random: u64 = if thorough { 24_000_000 } else { 40_000 };
  for _ in 0..n_random / args.nshards.max(1) {
    let local = rng.range_i64(MIN, MAX);
    let c = Civil::from_unix(local);
    let off = if rng.chance(1, 8) { None } else { Some(rng.range_i64(-1439, 1439)) };
    let fl = rng.usize(10);
    let frac: String = (0..fl).map(|_| (b'0' + rng.below(10) as u8) as char).collect();
    cx.parse_case(&c, off, &frac, rng.chance(1, 10), rng.chance(1, 10));
  }

  // ---- malformed / near-miss strings: only totality and range of whatever is accepted
  let near: Vec<String> = {
    let good = "2020-01-01T00:00:00Z";
    let mut v: Vec<String> = vec![
      "".into(), " ".into(), "2020".into(), "2020-01-01".into(), "2020-01-01T00:00:00".into(), "2020-01-01 00:00:00Z".into(),
      "2020-01-01T00:00:00+24:00".into(), "2020-01-01T00:00:00+23:60".into(), "2020-01-01T24:00:00Z".into(),
      "2020-02-30T00:00:00Z".into(), "2020-13-01T00:00:00Z".into(), "2020-00-01T00:00:00Z".into(), "2020-01-00T00:00:00Z".into(),
      "+2020-01-01T00:00:00Z".into(), "-0001-01-01T00:00:00Z".into(), "10000-01-01T00:00:00Z".into(), "2020-01-01T00:00:00.Z".into(),
      "2020-01-01T00:00:00.1234567890123Z".into(), "2020-01-01T00:00:00Z ".into(), " 2020-01-01T00:00:00Z".into(),
      "2020-01-01T00:00:00+0000".into(), "2020-01-01T00:00:00+00".into(), "２０２０-01-01T00:00:00Z".into(), "2020-01-01T00:00:00Z\n".into(),
      "9999-12-31T23:59:59.999999999+00:00".into(), "0000-01-01T00:00:00.000000001-00:00".into(),
    ];
    for i in 0..good.len() {
      for ch in ['0', '9', ':', '-', 'T', 'Z', '+', '.', ' ', 'x'] {
        let mut s: Vec<char> = good.chars().collect();
        s[i] = ch;
        v.push(s.into_iter().collect());
      }
      let mut s = good.to_string();
      s.remove(i);
      v.push(s);
    }
    v
  };
  if args.shard == 0 {
    for s in &near {
      cx.rep.eval();
      match catch(|| Timestamp::parse(s)) {
        Err(p) => cx.rep.violation(&format!("parse-panic@{}", p.file_only()), &format!("parse({:?}) panicked: {}", s, p.msg), json!({"input":s})),
        Ok(Ok(ts)) => {
          cx.rep.inc("nearmiss_accepted");
          cx.check_accepted("parse", s, ts);
        }
        Ok(Err(_)) => cx.rep.inc("nearmiss_rejected"),
      }
    }
  }

  // ---- unix seconds at and around both ends and the i64 extremes
  let mut unix: Vec<i64> = Vec::new();
  for base in [MIN, MAX, 0, i64::MIN, i64::MAX] {
    for d in -70i64..=70 {
      if let Some(x) = base.checked_add(d) {
        unix.push(x);
      }
    }
  }
  for base in [MIN, MAX] {
    for d in [-86_400i64 * 366, -86_400 * 365, -86_401, -86_400, 86_400, 86_401, 86_400 * 365, 86_400 * 366, 1 << 33, -(1 << 33), 1 << 40, -(1 << 40)] {
      unix.push(base + d);
    }
  }
  let n_unix = if thorough { 6_000_000 } else { 20_000 };
  for _ in 0..n_unix / args.nshards.max(1) {
    unix.push(match rng.below(4) {
      0 => rng.range_i64(MIN - 100_000, MIN + 100_000),
      1 => rng.range_i64(MAX - 100_000, MAX + 100_000),
      2 => rng.range_i64(MIN, MAX),
      _ => rng.next_u64() as i64,
    });
  }
  for (i, s) in unix.iter().enumerate() {
    if i < 1000 && !args.mine(i as u64) {
      continue;
    }
    cx.unix_case(*s);
  }
  if args.shard == 0 {
    for t in JSON_NON_STRINGS {
      cx.json_non_string_case(t);
    }
  }

  // ---- arithmetic
  let durs = durations(&mut rng);
  let mut ts_pool: Vec<i64> = vec![MIN, MIN + 1, MAX, MAX - 1, 0, -1, 1, MAX - 86_400, MIN + 86_400, MAX - u32::MAX as i64, MIN + u32::MAX as i64];
  for _ in 0..(if thorough { 400 } else { 30 }) {
    ts_pool.push(rng.range_i64(MIN, MAX));
    let (e1, e2) = (rng.range_i64(1, 38), rng.range_i64(1, 38));
    ts_pool.push(MAX - rng.range_i64(0, 1 << e1));
    ts_pool.push(MIN + rng.range_i64(0, 1 << e2));
  }
  let mut k = 0u64;
  for t in &ts_pool {
    for (d, secs, name) in &durs {
      k += 1;
      if args.mine(k) {
        cx.arith_case(*t, *d, *secs, name);
      }
    }
  }

  // ---- durations that only the serde path can express (negative, sub-second): the result must still be None or a
  // canonical whole-second timestamp in range; for whole seconds it must equal signed integer arithmetic
  let serde_durs: Vec<(i64, i32)> = {
    let mut v = vec![(0, 0), (1, 0), (-1, 0), (0, 500_000_000), (1, 500_000_000), (0, 999_999_999), (-1, -500_000_000), (0, -1), (86_400, 0), (-86_400, 0), (0, 1), (-2, 0), (59, 750_000_000)];
    for _ in 0..8 {
      v.push((rng.range_i64(-1_000_000, 1_000_000), 0));
      let secs = rng.range_i64(-100, 100);
      let nanos = rng.range_i64(0, 999_999_999) as i32;
      v.push((secs, if secs < 0 { -nanos } else { nanos }));
    }
    v
  };
  for t in ts_pool.iter().take(24) {
    for (secs, nanos) in &serde_durs {
      k += 1;
      if !args.mine(k) {
        continue;
      }
      let j = format!("[{},{}]", secs, nanos);
      let Ok(Ok(d)) = catch(|| Duration::from_json(&j)) else {
        cx.rep.inc("serde_duration_rejected");
        continue;
      };
      let Ok(ts) = Timestamp::from_unix(*t) else { continue };
      cx.rep.eval();
      cx.rep.inc("serde_duration_cases");
      for add in [true, false] {
        let got = catch(|| if add { ts.checked_add(d) } else { ts.checked_sub(d) });
        let name = format!("Duration::from_json({})", j);
        match got {
          Err(p) => cx.rep.violation(&format!("arith-panic@{}", p.file_only()), &format!("{} {} {} panicked: {}", t, if add { "+" } else { "-" }, name, p.msg), json!({"t":t,"dur":j,"add":add})),
          Ok(None) => {
            if *nanos == 0 {
              let want = if add { t.checked_add(*secs) } else { t.checked_sub(*secs) }.filter(|r| (MIN..=MAX).contains(r));
              if want.is_some() {
                cx.rep.violation(if add { "checked_add-mismatch" } else { "checked_sub-mismatch" }, &format!("{} {} {} = None, integer arithmetic says {:?}", t, if add { "+" } else { "-" }, name, want), json!({"t":t,"dur":j,"add":add}));
              }
            }
          }
          Ok(Some(x)) => {
            // every returned value must be a canonical whole-second timestamp in range (all accessor / round-trip checks)
            let u = cx.check_accepted("arith", &format!("{}{}{}", t, if add { "+" } else { "-" }, name), x);
            if *nanos == 0 {
              let want = if add { t.checked_add(*secs) } else { t.checked_sub(*secs) }.filter(|r| (MIN..=MAX).contains(r));
              if u != want {
                cx.rep.violation(if add { "checked_add-mismatch" } else { "checked_sub-mismatch" }, &format!("{} {} {} = {:?}, integer arithmetic says {:?}", t, if add { "+" } else { "-" }, name, u, want), json!({"t":t,"dur":j,"add":add}));
              }
            } else if let Some(u) = u {
              // fractional duration: the exact second is left to the library, but it cannot be further than one second off
              let exact = (*t as i128) + if add { 1 } else { -1 } * ((*secs as i128) + if *nanos == 0 { 0 } else { 0 });
              if ((u as i128) - exact).abs() > 1 {
                cx.rep.violation("checked-arith-fractional-off", &format!("{} {} {} = {}, more than a second away from {}", t, if add { "+" } else { "-" }, name, u, exact), json!({"t":t,"dur":j,"add":add}));
              }
            }
          }
        }
      }
    }
  }

  // ---- ordering
  for i in 0..ts_pool.len().min(60) {
    for j in 0..ts_pool.len().min(60) {
      k += 1;
      if args.mine(k) {
        cx.order_case(ts_pool[i], ts_pool[j]);
      }
    }
  }
  // ---- ordering across calendar boundaries: a comparison that works on calendar fields instead of the instant goes wrong
  // only where the fields wrap (year ends - leap years in particular -, month ends, the leap day, midnight), so every year's
  // boundaries are compared with their neighbours at second / minute / hour / day distance
  let deltas: [i64; 17] = [-86_401, -86_400, -86_399, -3_601, -3_600, -61, -60, -1, 0, 1, 59, 60, 3_599, 3_600, 86_399, 86_400, 86_401];
  for y in 0..=9999i64 {
    let mut bounds: Vec<i64> = vec![days_from_civil(y, 1, 1) * 86_400, days_from_civil(y, 3, 1) * 86_400, days_from_civil(y, 12, 31) * 86_400];
    if thorough {
      for m in 2..=12 {
        bounds.push(days_from_civil(y, m, 1) * 86_400);
      }
    }
    for b in bounds {
      k += 1;
      if !args.mine(k) {
        continue;
      }
      cx.rep.inc("order_boundary_blocks");
      if (y % 4 == 0 && y % 100 != 0) || y % 400 == 0 {
        cx.rep.inc("order_boundary_blocks_leap_year");
      }
      for da in deltas {
        for db in deltas {
          cx.order_case(b + da, b + db);
        }
      }
    }
  }
  // pairs a whole number of (leap) years / days apart, and random close pairs
  for _ in 0..(if thorough { 2_000_000 } else { 40_000 }) {
    let a = rng.range_i64(MIN, MAX);
    let d = match rng.below(6) {
      0 => rng.range_i64(-120, 120),
      1 => rng.range_i64(-2, 2) * 86_400 + rng.range_i64(-3_600, 3_600),
      2 => rng.range_i64(-3, 3) * 365 * 86_400 + rng.range_i64(-86_400, 86_400),
      3 => rng.range_i64(-3, 3) * 366 * 86_400 + rng.range_i64(-86_400, 86_400),
      4 => rng.range_i64(-400, 400) * 86_400,
      _ => rng.range_i64(-40_000_000, 40_000_000),
    };
    k += 1;
    if args.mine(k) {
      cx.order_case(a, a.saturating_add(d));
    }
  }
  cx.rep.note("anchors", json!(anchors.len()));
  cx.rep.finish();
}
