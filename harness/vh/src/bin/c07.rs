//! C07 — Credential/presentation <-> JWT claims conversion is lossless and consistent.
#[path = "../shared/credgen.rs"]
mod credgen;

use credgen::{gen_credential, gen_custom_claims, jwt_with_sig, method_json, rfc3339, CredSpec, T_MAX, T_MIN};
use identity_core::common::{Object, Timestamp, Url};
use identity_core::convert::FromJson;
use identity_credential::credential::{Credential, Jwt};
use identity_credential::presentation::{JwtPresentationOptions, Presentation};
use identity_credential::validator::{JwtCredentialValidator, JwtPresentationValidationOptions, JwtPresentationValidator};
use identity_document::document::CoreDocument;
use identity_document::verifiable::JwsVerificationOptions;
use identity_jose::jwk::Jwk;
use identity_jose::jws::{JwsVerifierFn, SignatureVerificationError, VerificationInput};
use serde_json::{json, Map, Value};
use vh::keys::Key;
use vh::panicmon::catch;
use vh::{Args, Report, Rng};

fn liar() -> JwsVerifierFn<impl Fn(VerificationInput, &Jwk) -> Result<(), SignatureVerificationError>> {
  JwsVerifierFn::from(|_input: VerificationInput, _key: &Jwk| Ok(()))
}

fn doc_for(did: &str) -> CoreDocument {
  let key = Key::ed(7);
  let j = json!({"id": did, "verificationMethod": [method_json(&format!("{}#k", did), did, &key)]});
  serde_json::from_value(j).expect("harness document")
}

fn header(did: &str) -> Value {
  json!({"alg":"EdDSA","kid":format!("{}#k", did),"typ":"JWT"})
}

/// A JSON object written member by member as TEXT: unlike a `serde_json::Value` it can carry the same key twice.
#[derive(Clone, Default)]
struct RawObj(Vec<(String, String)>);

impl RawObj {
  fn push(&mut self, k: &str, raw: impl Into<String>) {
    self.0.push((k.to_string(), raw.into()));
  }
  fn text(&self) -> String {
    let members: Vec<String> = self.0.iter().map(|(k, v)| format!("{}:{}", js(k), v)).collect();
    format!("{{{}}}", members.join(","))
  }
  /// Replaces the single member `k` by the given occurrences (none, one or two of them). `apart` moves the first occurrence to the
  /// front of the object and the last one to its end, otherwise they stay adjacent at the position of the original member
  /// (or at the end if there was none).
  fn set_occurrences(&mut self, k: &str, values: &[String], apart: bool) {
    let pos = self.0.iter().position(|(n, _)| n == k);
    let at = match pos {
      Some(p) => {
        self.0.remove(p);
        p
      }
      None => self.0.len(),
    };
    if apart && values.len() == 2 {
      self.0.insert(0, (k.to_string(), values[0].clone()));
      self.0.push((k.to_string(), values[1].clone()));
    } else {
      for (i, v) in values.iter().enumerate() {
        self.0.insert(at + i, (k.to_string(), v.clone()));
      }
    }
  }
}

/// JSON string literal.
fn js(s: &str) -> String {
  Value::String(s.to_string()).to_string()
}

/// What the harness knows, by construction, about a numeric date written as JSON number text.
#[derive(Clone, Debug)]
enum NumKind {
  /// The text denotes exactly this integer (possibly written with a fraction of zeros or an exponent).
  Integral(i64),
  /// The text denotes a non-integer; `trunc` is its integer part (towards zero), `in_years` tells whether the instant
  /// itself still lies within years 0000-9999.
  Fraction { trunc: i64, in_years: bool },
  /// Far outside the i64 range resp. years 0000-9999, whatever the spelling.
  Huge,
}

#[derive(Clone, Debug)]
struct NumCase {
  text: String,
  kind: NumKind,
}

fn num(text: &str, kind: NumKind) -> NumCase {
  NumCase { text: text.to_string(), kind }
}

/// Hand-written spellings (fractions are kept coarse enough to survive any binary floating point reading unchanged).
fn num_table() -> Vec<NumCase> {
  use NumKind::*;
  vec![
    num("1757778983.9", Fraction { trunc: 1_757_778_983, in_years: true }),
    num("1262373804.75", Fraction { trunc: 1_262_373_804, in_years: true }),
    num("1600000000.5e0", Fraction { trunc: 1_600_000_000, in_years: true }),
    num("-62167219200.5", Fraction { trunc: T_MIN, in_years: false }),
    num("-62167219200.25", Fraction { trunc: T_MIN, in_years: false }),
    num("-62167219199.5", Fraction { trunc: T_MIN + 1, in_years: true }),
    num("253402300799.5", Fraction { trunc: T_MAX, in_years: true }),
    num("253402300800.5", Fraction { trunc: T_MAX + 1, in_years: false }),
    num("253402300800.0", Integral(T_MAX + 1)),
    num("-62167219201.0", Integral(T_MIN - 1)),
    num("-62167219200.0", Integral(T_MIN)),
    num("253402300799.0", Integral(T_MAX)),
    num("1e9", Integral(1_000_000_000)),
    num("1E9", Integral(1_000_000_000)),
    num("1e+9", Integral(1_000_000_000)),
    num("1.0", Integral(1)),
    num("-0.0", Integral(0)),
    num("1600000000.000", Integral(1_600_000_000)),
    num("1.6e9", Integral(1_600_000_000)),
    num("16e8", Integral(1_600_000_000)),
    num("16000000000e-1", Integral(1_600_000_000)),
    num("2.5e11", Integral(250_000_000_000)),
    num("2.6e11", Integral(260_000_000_000)),
    num("-7e10", Integral(-70_000_000_000)),
    num("15e-1", Fraction { trunc: 1, in_years: true }),
    num("0.5", Fraction { trunc: 0, in_years: true }),
    num("-0.5", Fraction { trunc: 0, in_years: true }),
    num("1e-7", Fraction { trunc: 0, in_years: true }),
    num("1e30", Huge),
    num("-1e30", Huge),
    num("1e300", Huge),
    num("-1e300", Huge),
    num("1.5e19", Huge),
    num("9223372036854775808", Huge),
    num("18446744073709551615", Huge),
    num("18446744073709551616", Huge),
    num("-9223372036854775809", Huge),
    num("123456789012345678901234567890", Huge),
    // controls: plain integers
    num("1600000000", Integral(1_600_000_000)),
    num("0", Integral(0)),
  ]
}

/// A random spelling: an in-range (or boundary) integer with a short non-zero fraction, or an integer in exponent form.
fn num_random(rng: &mut Rng) -> NumCase {
  let x = match rng.below(8) {
    0 => T_MIN,
    1 => T_MAX,
    2 => T_MIN + 1 + rng.below(3) as i64,
    3 => T_MAX - rng.below(3) as i64,
    4 => rng.range_i64(-5, 5),
    _ => rng.range_i64(T_MIN, T_MAX),
  };
  if rng.chance(2, 3) {
    let digits = 1 + rng.usize(3);
    let mut frac = String::new();
    for i in 0..digits {
      // last digit non-zero, so the value is not an integer
      let d = if i + 1 == digits { 1 + rng.below(9) } else { rng.below(10) };
      frac.push(char::from(b'0' + d as u8));
    }
    let neg = x < 0;
    let text = format!("{}{}.{}", if neg { "-" } else { "" }, x.unsigned_abs(), frac);
    // negative: the instant is x - 0.f, in range iff x > T_MIN; non-negative: x + 0.f, within year 9999 iff x <= T_MAX
    let in_years = if neg { x > T_MIN } else { x <= T_MAX };
    NumCase { text, kind: NumKind::Fraction { trunc: x, in_years } }
  } else {
    let k = 1 + rng.below(6) as u32;
    let p = 10i64.pow(k);
    let m = x / p;
    let v = m * p;
    let text = match rng.below(3) {
      0 => format!("{}e{}", m, k),
      1 => format!("{}E+{}", m, k),
      _ => format!("{}.0e{}", m, k),
    };
    NumCase { text, kind: NumKind::Integral(v) }
  }
}

fn in_range(t: i64) -> bool {
  (T_MIN..=T_MAX).contains(&t)
}

/// What came back from the presentation validator.
struct PresBack {
  id: Option<String>,
  holder: String,
  exp: Option<i64>,
  issuance: Option<i64>,
}

struct Cx {
  rep: Report,
}

impl Cx {
  fn viol(&mut self, sig: &str, desc: String, case: &Value) {
    self.rep.violation(sig, &desc, case.clone());
  }

  /// Back-conversion of a claims JSON text through the only public path.
  fn back_credential(&mut self, did: &str, claims_text: &str) -> Result<Result<(Credential, Option<Object>), String>, vh::panicmon::PanicRec> {
    let hdr = header(did);
    let token = format!(
      "{}.{}.{}",
      vh::b64::url_encode(hdr.to_string().as_bytes()),
      vh::b64::url_encode(claims_text.as_bytes()),
      vh::b64::url_encode(&[0u8; 64])
    );
    let doc = doc_for(did);
    catch(|| {
      let v = JwtCredentialValidator::with_signature_verifier(liar());
      v.verify_signature::<_, Object>(&Jwt::new(token), &[doc], &JwsVerificationOptions::default())
        .map(|d| (d.credential, d.custom_claims))
        .map_err(|e| format!("{} / {:?}", e, e))
    })
  }

  /// Back-conversion of a presentation claims JSON TEXT (taken literally, so it may repeat keys or spell numbers freely).
  fn back_presentation(&mut self, holder: &str, claims_text: &str) -> Result<Result<PresBack, String>, vh::panicmon::PanicRec> {
    let token = format!(
      "{}.{}.{}",
      vh::b64::url_encode(header(holder).to_string().as_bytes()),
      vh::b64::url_encode(claims_text.as_bytes()),
      vh::b64::url_encode(&[0u8; 64])
    );
    let doc = doc_for(holder);
    let vopts = JwtPresentationValidationOptions::new()
      .earliest_expiry_date(Timestamp::from_unix(T_MIN).unwrap())
      .latest_issuance_date(Timestamp::from_unix(T_MAX).unwrap());
    catch(|| {
      JwtPresentationValidator::with_signature_verifier(liar())
        .validate::<_, Jwt, Object>(&Jwt::new(token), &doc, &vopts)
        .map(|d| PresBack {
          id: d.presentation.id.as_ref().map(|u| u.to_string()),
          holder: d.presentation.holder.to_string(),
          exp: d.expiration_date.map(|t| t.to_unix()),
          issuance: d.issuance_date.map(|t| t.to_unix()),
        })
        .map_err(|e| format!("{}", e))
    })
  }

  /// Credential claims sets written as raw text in which ONE member occurs twice in the same object (a registered claim at the top
  /// level, or a repeated value inside vc / vc.credentialSubject). Model: every occurrence is a member of the claims set, so the set
  /// must be rejected as soon as one occurrence of a registered claim disagrees with one occurrence of the value repeated inside vc,
  /// or one occurrence of a numeric date lies outside years 0000-9999 - whichever occurrence a parser would let win.
  /// Two equal occurrences may be refused or accepted (then with that value). One occurrence alone is the control.
  fn dup_credential(&mut self, rng: &mut Rng, idx: u64) {
    self.rep.eval();
    let issuer = "did:example:issuer-t";
    let base_t = 1_600_000_000i64 + rng.below(1000) as i64;
    let exp_t = base_t + 1000;
    let good_id = "https://example.edu/credentials/1";
    let good_sub = "did:example:subject-t";
    let mut d = idx;
    let mut digit = |n: u64| {
      let r = d % n;
      d /= n;
      r
    };
    const TARGETS: [&str; 11] =
      ["exp", "nbf", "iat", "sub", "jti", "iss", "vc.id", "vc.issuer", "vc.issuanceDate", "vc.expirationDate", "vc.credentialSubject.id"];
    let target = TARGETS[digit(11) as usize];
    let pattern = ["bad-good", "good-bad", "good-good", "single"][digit(4) as usize];
    let apart = digit(2) == 1;
    let counterpart = digit(2) == 1;
    let date_target = matches!(target, "exp" | "nbf" | "iat");

    let mut top = RawObj::default();
    top.push("iss", js(issuer));
    top.push(if target == "iat" { "iat" } else { "nbf" }, base_t.to_string());
    top.push("exp", exp_t.to_string());
    top.push("jti", js(good_id));
    top.push("sub", js(good_sub));
    let mut vc = RawObj::default();
    vc.push("@context", js(credgen::BASE_CONTEXT));
    vc.push("type", js("VerifiableCredential"));
    let mut subject = RawObj::default();
    subject.push("degree", js("BSc"));

    // the good and the bad value of the duplicated member, as JSON text
    let mut why = "disagreement";
    let (good, bad): (String, String) = match target {
      "exp" | "nbf" | "iat" => {
        let g = if target == "exp" { exp_t } else { base_t };
        // without the value repeated inside vc only an out-of-range number is wrong; with it a different in-range number is wrong too
        let b = if counterpart && rng.bool() {
          g + *rng.pick(&[1i64, -1, 86_400, -1_000_000])
        } else {
          why = "date-out-of-range";
          *rng.pick(&[T_MIN - 1, T_MAX + 1, i64::MIN, i64::MAX, T_MAX + 86_400])
        };
        (g.to_string(), b.to_string())
      }
      "sub" | "vc.credentialSubject.id" => (js(good_sub), js("did:example:subject-other")),
      "jti" | "vc.id" => (js(good_id), js("https://example.edu/credentials/2")),
      "iss" | "vc.issuer" => (js(issuer), js("did:example:someone-else")),
      "vc.issuanceDate" => (js(&rfc3339(base_t)), js(&rfc3339(base_t + 1))),
      _ => (js(&rfc3339(exp_t)), js(&rfc3339(exp_t - 1))),
    };
    // the other side of the pair registered claim / value repeated inside vc
    if target.starts_with("vc.") || counterpart {
      match target {
        "exp" => vc.push("expirationDate", js(&rfc3339(exp_t))),
        "nbf" | "iat" => vc.push("issuanceDate", js(&rfc3339(base_t))),
        "sub" => subject.push("id", js(good_sub)),
        "jti" => vc.push("id", js(good_id)),
        "iss" => vc.push("issuer", js(issuer)),
        _ => {}
      }
    }
    let occurrences: Vec<String> = match pattern {
      "bad-good" => vec![bad.clone(), good.clone()],
      "good-bad" => vec![good.clone(), bad.clone()],
      "good-good" => vec![good.clone(), good.clone()],
      _ => vec![good.clone()],
    };
    let has_bad = pattern == "bad-good" || pattern == "good-bad";
    // a disagreeing occurrence needs its counterpart to disagree with; an out-of-range date is wrong by itself
    let judged = target.starts_with("vc.") || counterpart || (date_target && why == "date-out-of-range");
    let must_reject = has_bad && judged;
    let ambiguous = has_bad && !judged; // two different registered claims and nothing inside vc to compare with: not judged
    match target {
      "vc.credentialSubject.id" => subject.set_occurrences("id", &occurrences, apart),
      t if t.starts_with("vc.") => vc.set_occurrences(&t[3..], &occurrences, apart),
      t => top.set_occurrences(t, &occurrences, apart),
    }
    // for a vc target the counterpart digit moves vc in front of the registered claims instead
    let vc_first = target.starts_with("vc.") && counterpart;
    if rng.bool() {
      vc.push("credentialSubject", subject.text());
    } else {
      vc.0.insert(0, ("credentialSubject".to_string(), subject.text()));
    }
    if vc_first {
      top.0.insert(0, ("vc".to_string(), vc.text()));
    } else {
      // not after a trailing second occurrence when the occurrences are meant to be apart: keep vc in the middle then
      let at = if apart && occurrences.len() == 2 && !target.starts_with("vc.") { top.0.len() - 1 } else { top.0.len() };
      top.0.insert(at, ("vc".to_string(), vc.text()));
    }
    let text = top.text();
    let case = json!({"claims_text": text, "duplicated": target, "pattern": pattern, "apart": apart, "counterpart_present": counterpart, "must_reject": must_reject, "why": why});
    self.rep.distinct("nontrivial", &format!("dup|{}|{}|{}|{}|{}", target, pattern, apart, counterpart, why));
    self.rep.inc("raw_dup_cases");
    match self.back_credential(issuer, &text) {
      Err(p) => self.viol(&format!("verify_signature-panic@{}", p.file_only()), format!("{} at {}", p.msg, p.loc()), &case),
      Ok(Err(_)) => {
        if pattern == "single" {
          self.rep.inc("raw_control_rejected");
        } else {
          self.rep.inc("raw_dup_rejected");
        }
      }
      Ok(Ok((cred, _))) => {
        if pattern == "single" {
          self.rep.inc("raw_control_accepted");
        } else {
          self.rep.inc("raw_dup_accepted");
        }
        if must_reject {
          return self.viol(
            &format!("duplicated-member-silently-resolved:credential:{}", why),
            format!("claims set with two {} members ({}) accepted: {}", target, pattern, text),
            &case,
          );
        }
        // accepted with one value, or twice the same value: that value must be the one carried
        let got_sub = cred.credential_subject.iter().next().and_then(|s| s.id.as_ref().map(|u| u.to_string()));
        let mut wrong: Vec<String> = Vec::new();
        if !(ambiguous && target == "jti") && cred.id.as_ref().map(|u| u.to_string()).as_deref() != Some(good_id) {
          wrong.push(format!("id={:?}", cred.id));
        }
        if !(ambiguous && target == "sub") && got_sub.as_deref() != Some(good_sub) {
          wrong.push(format!("subject={:?}", got_sub));
        }
        if !(ambiguous && target == "iss") && cred.issuer.url().as_str() != issuer {
          wrong.push(format!("issuer={}", cred.issuer.url()));
        }
        if !(ambiguous && (target == "nbf" || target == "iat")) && cred.issuance_date.to_unix() != base_t {
          wrong.push(format!("issuance={}", cred.issuance_date));
        }
        if !(ambiguous && target == "exp") && cred.expiration_date.map(|t| t.to_unix()) != Some(exp_t) {
          wrong.push(format!("expiration={:?}", cred.expiration_date));
        }
        if !wrong.is_empty() {
          self.viol("raw-claims-accepted-with-other-values:credential", format!("accepted {} but reconstructed {}", text, wrong.join(",")), &case);
        }
      }
    }
  }

  /// The same for presentations: jti / iss against vp.id / vp.holder, and the numeric dates exp / nbf / iat.
  fn dup_presentation(&mut self, rng: &mut Rng, idx: u64) {
    self.rep.eval();
    let holder = "did:example:holder-t";
    let good_id = "https://example.edu/presentations/1";
    let base_t = 1_600_000_000i64 + rng.below(1000) as i64;
    let exp_t = base_t + 1000;
    let mut d = idx;
    let mut digit = |n: u64| {
      let r = d % n;
      d /= n;
      r
    };
    const TARGETS: [&str; 8] = ["exp", "nbf", "iat", "nbf+iat", "jti", "iss", "vp.id", "vp.holder"];
    let target = TARGETS[digit(8) as usize];
    let pattern = ["bad-good", "good-bad", "good-good", "single"][digit(4) as usize];
    let apart = digit(2) == 1;
    let counterpart = digit(2) == 1;
    let member = match target {
      "nbf+iat" => "nbf",
      "vp.id" => "id",
      "vp.holder" => "holder",
      t => t,
    };
    let date_target = matches!(member, "exp" | "nbf" | "iat");
    let mut top = RawObj::default();
    top.push("iss", js(holder));
    top.push("jti", js(good_id));
    top.push("exp", exp_t.to_string());
    match target {
      "iat" => top.push("iat", base_t.to_string()),
      "nbf+iat" => {
        // nbf is the claim the conversion uses; a valid iat next to it rescues nothing
        top.push("iat", (base_t - 500).to_string());
        top.push("nbf", base_t.to_string());
      }
      _ => top.push("nbf", base_t.to_string()),
    }
    let mut vp = RawObj::default();
    vp.push("@context", js(credgen::BASE_CONTEXT));
    vp.push("type", js("VerifiablePresentation"));
    vp.push("verifiableCredential", "[]");
    let mut why = "disagreement";
    let (good, bad): (String, String) = match member {
      "exp" | "nbf" | "iat" => {
        why = "date-out-of-range";
        let g = if member == "exp" { exp_t } else { base_t };
        (g.to_string(), rng.pick(&[T_MIN - 1, T_MAX + 1, i64::MIN, i64::MAX, T_MAX + 86_400]).to_string())
      }
      "jti" | "id" => (js(good_id), js("https://example.edu/presentations/2")),
      _ => (js(holder), js("did:example:holder-other")),
    };
    if target.starts_with("vp.") || counterpart {
      match target {
        "jti" => vp.push("id", js(good_id)),
        "iss" => vp.push("holder", js(holder)),
        _ => {}
      }
    }
    let occurrences: Vec<String> = match pattern {
      "bad-good" => vec![bad.clone(), good.clone()],
      "good-bad" => vec![good.clone(), bad.clone()],
      "good-good" => vec![good.clone(), good.clone()],
      _ => vec![good.clone()],
    };
    let has_bad = pattern == "bad-good" || pattern == "good-bad";
    let judged = target.starts_with("vp.") || date_target || counterpart;
    let must_reject = has_bad && judged;
    let ambiguous = has_bad && !judged;
    if target.starts_with("vp.") {
      vp.set_occurrences(member, &occurrences, apart);
    } else {
      top.set_occurrences(member, &occurrences, apart);
    }
    let vp_first = (target.starts_with("vp.") || date_target) && counterpart;
    if vp_first {
      top.0.insert(0, ("vp".to_string(), vp.text()));
    } else {
      let at = if apart && occurrences.len() == 2 && !target.starts_with("vp.") { top.0.len() - 1 } else { top.0.len() };
      top.0.insert(at, ("vp".to_string(), vp.text()));
    }
    let text = top.text();
    let case = json!({"claims_text": text, "duplicated": target, "pattern": pattern, "apart": apart, "counterpart_or_vp_first": counterpart, "must_reject": must_reject, "why": why});
    self.rep.distinct("nontrivial", &format!("pdup|{}|{}|{}|{}", target, pattern, apart, counterpart));
    self.rep.inc("raw_dup_cases");
    match self.back_presentation(holder, &text) {
      Err(p) => self.viol(&format!("presentation-validate-panic@{}", p.file_only()), format!("{} at {}", p.msg, p.loc()), &case),
      Ok(Err(_)) => {
        if pattern == "single" {
          self.rep.inc("raw_control_rejected");
        } else {
          self.rep.inc("raw_dup_rejected");
        }
      }
      Ok(Ok(back)) => {
        if pattern == "single" {
          self.rep.inc("raw_control_accepted");
        } else {
          self.rep.inc("raw_dup_accepted");
        }
        // the issuance claims are written in every one of these claims sets: an accepted presentation without issuance date has lost them
        if back.issuance.is_none() {
          return self.viol(
            "presentation-issuance-claim-silently-dropped",
            format!("claims set accepted with NO issuance date although it carries nbf/iat ({} {}): {}", target, pattern, text),
            &case,
          );
        }
        if must_reject {
          return self.viol(
            &format!("duplicated-member-silently-resolved:presentation:{}", why),
            format!("claims set with two {} members ({}) accepted: {}", target, pattern, text),
            &case,
          );
        }
        let mut wrong: Vec<String> = Vec::new();
        if !(ambiguous && target == "jti") && back.id.as_deref() != Some(good_id) {
          wrong.push(format!("id={:?}", back.id));
        }
        if !(ambiguous && target == "iss") && back.holder != holder {
          wrong.push(format!("holder={}", back.holder));
        }
        if back.issuance != Some(base_t) {
          wrong.push(format!("issuance={:?}", back.issuance));
        }
        if back.exp != Some(exp_t) {
          wrong.push(format!("expiration={:?}", back.exp));
        }
        if !wrong.is_empty() {
          self.viol("raw-claims-accepted-with-other-values:presentation", format!("accepted {} but reconstructed {}", text, wrong.join(",")), &case);
        }
      }
    }
  }

  /// Numeric date claims spelled as JSON numbers with a fraction or an exponent. Model: a number that denotes an integer within years
  /// 0000-9999 may be refused or accepted (then as exactly that second); a number outside the range must be refused whatever its
  /// spelling; a non-integer cannot be carried by a whole-second date, so accepting it means it was silently resolved to some other
  /// instant (it then also disagrees with any vc.issuanceDate / vc.expirationDate, which are whole seconds).
  fn nonint_credential(&mut self, rng: &mut Rng, idx: u64, nc: &NumCase) {
    self.rep.eval();
    let issuer = "did:example:issuer-t";
    let base_t = 1_500_000_000i64;
    const SLOTS: [&str; 6] = ["exp", "nbf", "iat", "exp+vc.expirationDate", "nbf+vc.issuanceDate", "nbf+iat"];
    let slot = SLOTS[(idx % 6) as usize];
    // the whole-second date a truncating / rounding reader would come up with, clamped into the representable range for the vc text
    let near = match nc.kind {
      NumKind::Integral(v) if in_range(v) => v,
      NumKind::Fraction { trunc, .. } if in_range(trunc) => {
        if rng.chance(1, 4) && in_range(trunc + 1) {
          trunc + 1
        } else {
          trunc
        }
      }
      NumKind::Fraction { trunc, .. } => trunc.clamp(T_MIN, T_MAX),
      _ => base_t,
    };
    let mut top = RawObj::default();
    top.push("iss", js(issuer));
    let mut vc = RawObj::default();
    vc.push("@context", js(credgen::BASE_CONTEXT));
    vc.push("type", js("VerifiableCredential"));
    vc.push("credentialSubject", "{\"degree\":\"BSc\"}");
    let on_exp = slot.starts_with("exp");
    match slot {
      "exp" | "exp+vc.expirationDate" => {
        top.push("nbf", T_MIN.to_string());
        top.push("exp", nc.text.clone());
        if slot != "exp" {
          vc.push("expirationDate", js(&rfc3339(near)));
        }
      }
      "nbf" | "nbf+vc.issuanceDate" | "nbf+iat" => {
        if slot == "nbf+iat" {
          top.push("iat", base_t.to_string());
        }
        top.push("nbf", nc.text.clone());
        if slot == "nbf+vc.issuanceDate" {
          vc.push("issuanceDate", js(&rfc3339(near)));
        }
      }
      _ => top.push("iat", nc.text.clone()),
    }
    if rng.bool() {
      top.push("vc", vc.text());
    } else {
      top.0.insert(0, ("vc".to_string(), vc.text()));
    }
    let with_vc_date = slot.contains("+vc.");
    let text = top.text();
    let case = json!({"claims_text": text, "number": nc.text, "known_about_number": format!("{:?}", nc.kind), "slot": slot});
    let kind_class = match nc.kind {
      NumKind::Integral(v) => format!("int:{}", in_range(v)),
      NumKind::Fraction { in_years, .. } => format!("frac:{}", in_years),
      NumKind::Huge => "huge".into(),
    };
    let spelling = if nc.text.contains(['e', 'E']) { "exp" } else if nc.text.contains('.') { "point" } else { "plain" };
    self.rep.distinct("nontrivial", &format!("num|{}|{}|{}|neg:{}", slot, kind_class, spelling, nc.text.starts_with('-')));
    self.rep.inc("numeric_spelling_cases");
    match self.back_credential(issuer, &text) {
      Err(p) => self.viol(&format!("verify_signature-panic@{}", p.file_only()), format!("{} at {}", p.msg, p.loc()), &case),
      Ok(Err(_)) => self.rep.inc("numeric_spelling_rejected"),
      Ok(Ok((cred, _))) => {
        self.rep.inc("numeric_spelling_accepted");
        let got = if on_exp { cred.expiration_date.map(|t| t.to_unix()) } else { Some(cred.issuance_date.to_unix()) };
        match nc.kind {
          NumKind::Integral(v) if in_range(v) => {
            if got != Some(v) {
              self.viol("numeric-date-altered:credential", format!("{} = {} accepted as {:?}", slot, nc.text, got), &case);
            }
          }
          NumKind::Integral(_) | NumKind::Huge => {
            self.viol("numeric-date-out-of-range-accepted:credential", format!("{} = {} accepted as {:?}", slot, nc.text, got), &case)
          }
          NumKind::Fraction { in_years, .. } => {
            let k = if !in_years { "out-of-range" } else if with_vc_date { "disagrees-with-vc" } else { "truncated" };
            self.viol(&format!("non-integer-date-accepted:credential:{}", k), format!("{} = {} accepted as {:?}", slot, nc.text, got), &case)
          }
        }
      }
    }
  }

  fn nonint_presentation(&mut self, rng: &mut Rng, idx: u64, nc: &NumCase) {
    self.rep.eval();
    let holder = "did:example:holder-t";
    let base_t = 1_500_000_000i64;
    const SLOTS: [&str; 4] = ["exp", "nbf", "iat", "nbf+iat"];
    let slot = SLOTS[(idx % 4) as usize];
    let mut top = RawObj::default();
    top.push("iss", js(holder));
    match slot {
      "exp" => top.push("exp", nc.text.clone()),
      "nbf" => top.push("nbf", nc.text.clone()),
      "iat" => top.push("iat", nc.text.clone()),
      _ => {
        top.push("iat", base_t.to_string());
        top.push("nbf", nc.text.clone());
      }
    }
    let vp = format!("{{\"@context\":{},\"type\":\"VerifiablePresentation\",\"verifiableCredential\":[]}}", js(credgen::BASE_CONTEXT));
    if rng.bool() {
      top.push("vp", vp);
    } else {
      top.0.insert(0, ("vp".to_string(), vp));
    }
    let text = top.text();
    let case = json!({"claims_text": text, "number": nc.text, "known_about_number": format!("{:?}", nc.kind), "slot": slot});
    let kind_class = match nc.kind {
      NumKind::Integral(v) => format!("int:{}", in_range(v)),
      NumKind::Fraction { in_years, .. } => format!("frac:{}", in_years),
      NumKind::Huge => "huge".into(),
    };
    let spelling = if nc.text.contains(['e', 'E']) { "exp" } else if nc.text.contains('.') { "point" } else { "plain" };
    self.rep.distinct("nontrivial", &format!("pnum|{}|{}|{}|neg:{}", slot, kind_class, spelling, nc.text.starts_with('-')));
    self.rep.inc("numeric_spelling_cases");
    match self.back_presentation(holder, &text) {
      Err(p) => self.viol(&format!("presentation-validate-panic@{}", p.file_only()), format!("{} at {}", p.msg, p.loc()), &case),
      Ok(Err(_)) => self.rep.inc("numeric_spelling_rejected"),
      Ok(Ok(back)) => {
        self.rep.inc("numeric_spelling_accepted");
        let got = if slot == "exp" { back.exp } else { back.issuance };
        if got.is_none() {
          // accepted, and the claim is simply gone
          let sig = if slot == "exp" { "presentation-expiry-claim-silently-dropped" } else { "presentation-issuance-claim-silently-dropped" };
          return self.viol(sig, format!("{} = {} ({:?}) accepted and the presentation came back WITHOUT that date: {}", slot, nc.text, nc.kind, text), &case);
        }
        match nc.kind {
          NumKind::Integral(v) if in_range(v) => {
            if got != Some(v) {
              self.viol("numeric-date-altered:presentation", format!("{} = {} accepted as {:?}", slot, nc.text, got), &case);
            }
          }
          NumKind::Integral(_) | NumKind::Huge => {
            self.viol("numeric-date-out-of-range-accepted:presentation", format!("{} = {} accepted as {:?}", slot, nc.text, got), &case)
          }
          NumKind::Fraction { in_years, .. } => {
            let k = if !in_years { "out-of-range" } else { "truncated" };
            self.viol(&format!("non-integer-date-accepted:presentation:{}", k), format!("{} = {} accepted as {:?}", slot, nc.text, got), &case)
          }
        }
      }
    }
  }

  fn credential_roundtrip(&mut self, rng: &mut Rng) {
    self.rep.eval();
    let did_issuer = rng.chance(5, 6);
    let issuer = if did_issuer { format!("did:example:issuer{}", rng.below(50)) } else { format!("https://issuer{}.example.edu/issuers/14", rng.below(50)) };
    let subject = match rng.below(4) {
      0 => None,
      1 => Some(format!("https://subjects.example/{}", rng.below(100))),
      _ => Some(format!("did:example:subject{}", rng.below(100))),
    };
    let issuance = match rng.below(6) {
      0 => T_MIN,
      1 => T_MAX - 1,
      _ => rng.range_i64(T_MIN, T_MAX),
    };
    let mut spec = gen_credential(rng, &issuer, subject.as_deref(), issuance);
    if rng.chance(1, 10) {
      spec.expiration = Some(T_MAX);
    }
    // an issuer object that carries nothing but its id is still an object
    if spec.issuer_props.is_none() && rng.chance(1, 10) {
      spec.issuer_props = Some(Map::new());
    }
    // extra properties whose names other data-model versions / profiles give a meaning to: here they are plain properties
    if rng.chance(1, 6) {
      let name = *rng.pick(&["validFrom", "validUntil", "name", "description", "issued", "expires", "holder", "sub", "iss", "nbf", "exp", "jti", "vc", "relatedResource", "confidenceMethod"]);
      let v = match rng.below(4) {
        0 => json!(credgen::rfc3339(spec.issuance)),
        1 => json!(credgen::rfc3339(spec.expiration.unwrap_or(spec.issuance + 1))),
        2 => json!(credgen::rfc3339(rng.range_i64(T_MIN, T_MAX))),
        _ => json!({"note": rng.below(100)}),
      };
      spec.properties.insert(name.to_string(), v);
    }
    let custom = gen_custom_claims(rng);
    let mut vc_json = spec.vc_json();
    // the single subject written as a one-element array: the library may refuse to convert it (the claims set has room for
    // one subject object only), but if it converts, the round trip must still give back an equal credential
    let subject_as_array = rng.chance(1, 12);
    if subject_as_array {
      let s = vc_json["credentialSubject"].take();
      vc_json["credentialSubject"] = json!([s]);
    }
    let case = json!({"credential": vc_json, "custom_claims": custom});
    let cred: Credential = match catch(|| Credential::from_json_value(vc_json.clone())) {
      Err(p) => return self.viol(&format!("credential-from-json-panic@{}", p.file_only()), p.msg.clone(), &case),
      Ok(Err(_)) => {
        self.rep.inc("generated_credential_rejected");
        return;
      }
      Ok(Ok(c)) => c,
    };
    let custom_obj: Option<Object> = if custom.is_empty() { None } else { Some(custom.clone().into_iter().collect()) };
    let claims_text = match catch(|| cred.serialize_jwt(custom_obj.clone())) {
      Err(p) => return self.viol(&format!("serialize_jwt-panic@{}", p.file_only()), format!("{} at {}", p.msg, p.loc()), &case),
      Ok(Err(_)) if subject_as_array => {
        self.rep.inc("serialize_jwt_refused_subject_array");
        return;
      }
      Ok(Err(e)) => return self.viol("serialize_jwt-refuses-single-subject-credential", format!("serialize_jwt failed: {}", e), &case),
      Ok(Ok(t)) => t,
    };
    self.rep.inc("credentials_serialized");
    if subject_as_array {
      self.rep.inc("credentials_serialized_subject_array");
    }
    let class = format!(
      "cred|iss:{}|sub:{}|id:{}|exp:{}|status:{}|schema:{}|refresh:{}|terms:{}|evidence:{}|nt:{:?}|props:{}|proof:{}|custom:{}|ctx1:{}|ty1:{}",
      if spec.issuer_props.is_some() { "obj" } else if did_issuer { "did" } else { "url" },
      spec.subject_id.is_some(), spec.id.is_some(), spec.expiration.is_some(), spec.status.is_some(), spec.schema.is_some(), spec.refresh.is_some(),
      spec.terms.is_some(), spec.evidence.is_some(), spec.non_transferable, !spec.properties.is_empty(), spec.proof.is_some(), !custom.is_empty(),
      spec.context_single, spec.types_single
    );
    self.rep.distinct("nontrivial", &class);
    let claims: Value = match serde_json::from_str(&claims_text) {
      Ok(v) => v,
      Err(e) => return self.viol("serialize_jwt-not-json", format!("claims text is not JSON: {}", e), &case),
    };
    let mut case = case;
    case["claims"] = claims.clone();
    if self.rep.want_sample() {
      self.rep.sample(case.clone());
    }
    // registered claims carried exactly once
    let iss_want = match &spec.issuer_props {
      None => json!(spec.issuer),
      Some(_) => vc_json["issuer"].clone(),
    };
    if claims.get("iss") != Some(&iss_want) {
      self.viol("claims-iss", format!("iss = {:?}, issuer = {}", claims.get("iss"), iss_want), &case);
    }
    if claims.get("sub") != spec.subject_id.as_ref().map(|s| json!(s)).as_ref() {
      self.viol("claims-sub", format!("sub = {:?}, subject id = {:?}", claims.get("sub"), spec.subject_id), &case);
    }
    if claims.get("jti") != spec.id.as_ref().map(|s| json!(s)).as_ref() {
      self.viol("claims-jti", format!("jti = {:?}, id = {:?}", claims.get("jti"), spec.id), &case);
    }
    if claims.get("nbf") != Some(&json!(spec.issuance)) {
      self.viol("claims-nbf", format!("nbf = {:?}, issuance = {}", claims.get("nbf"), spec.issuance), &case);
    }
    if claims.get("exp") != spec.expiration.map(|e| json!(e)).as_ref() {
      self.viol("claims-exp", format!("exp = {:?}, expiration = {:?}", claims.get("exp"), spec.expiration), &case);
    }
    let vc = claims.get("vc").cloned().unwrap_or(Value::Null);
    for dup in ["id", "issuer", "issuanceDate", "expirationDate"] {
      if vc.get(dup).is_some() {
        self.viol(&format!("vc-repeats-{}", dup), format!("vc repeats {} although it is carried by a registered claim", dup), &case);
      }
    }
    if vc.get("credentialSubject").and_then(|s| s.get("id")).is_some() {
      self.viol("vc-repeats-subject-id", "vc.credentialSubject repeats id although it is carried by sub".into(), &case);
    }
    for (k, v) in &custom {
      if claims.get(k) != Some(v) {
        self.viol("custom-claim-lost", format!("custom claim {} missing or altered", k), &case);
      }
    }
    // back conversion
    if did_issuer {
      self.rep.inc("credential_backconversions");
      match self.back_credential(&issuer, &claims_text) {
        Err(p) => self.viol(&format!("verify_signature-panic@{}", p.file_only()), format!("{} at {}", p.msg, p.loc()), &case),
        Ok(Err(e)) => self.viol("own-claims-rejected:credential", format!("claims produced by serialize_jwt were rejected: {}", e), &case),
        Ok(Ok((back, cc))) => {
          // decisive comparison on the JSON form (strings), not only on the library's own `==` (which goes through Url's PartialEq)
          if back != cred || serde_json::to_value(&back).ok() != serde_json::to_value(&cred).ok() {
            let mut c2 = case.clone();
            c2["reconstructed"] = serde_json::to_value(&back).unwrap_or(Value::Null);
            self.viol("credential-roundtrip-differs", "credential -> claims -> credential is not the identity".into(), &c2);
          }
          if cc.clone().filter(|o| !o.is_empty()) != custom_obj {
            self.viol("custom-claims-roundtrip-differs", format!("custom claims returned {:?}", cc), &case);
          }
        }
      }
    }
  }

  fn presentation_roundtrip(&mut self, rng: &mut Rng) {
    self.rep.eval();
    let holder = format!("did:example:holder{}", rng.below(50));
    let mut m = Map::new();
    let mut ctx = vec![json!(credgen::BASE_CONTEXT)];
    if rng.bool() {
      ctx.push(json!("https://example.com/ctx/v2"));
    }
    m.insert("@context".into(), if ctx.len() == 1 && rng.bool() { ctx[0].clone() } else { Value::Array(ctx) });
    m.insert("type".into(), if rng.bool() { json!("VerifiablePresentation") } else { json!(["VerifiablePresentation", "ExamplePresentation"]) });
    let id = if rng.bool() { Some(format!("https://example.edu/presentations/{}", rng.below(10_000))) } else { None };
    if let Some(id) = &id {
      m.insert("id".into(), json!(id));
    }
    m.insert("holder".into(), json!(holder));
    let ncred = rng.usize(3);
    if ncred > 0 {
      let creds: Vec<Value> = (0..ncred).map(|i| json!(format!("eyJhbGciOiJFZERTQSJ9.e30.c2ln{}", i))).collect();
      m.insert("verifiableCredential".into(), Value::Array(creds));
    }
    if rng.chance(1, 3) {
      m.insert("refreshService".into(), json!({"id":"https://example.com/refresh/1","type":"ManualRefreshService2018"}));
    }
    if rng.chance(1, 3) {
      m.insert("termsOfUse".into(), json!([{"type":"IssuerPolicy","id":"https://example.com/policies/1","profile":"x"}]));
    }
    if rng.chance(1, 3) {
      m.insert("extraProp".into(), json!({"a":[1,2,{"b":null}]}));
    }
    if rng.chance(1, 4) {
      m.insert("proof".into(), json!({"type":"ExampleProof2099","v":"z1"}));
    }
    let pjson = Value::Object(m);
    let exp = if rng.bool() { Some(rng.range_i64(T_MIN, T_MAX)) } else { None };
    let iat = if rng.bool() { Some(rng.range_i64(T_MIN, T_MAX)) } else { None };
    let aud = if rng.bool() { Some(format!("did:example:verifier{}", rng.below(9))) } else { None };
    let custom = gen_custom_claims(rng);
    let case = json!({"presentation": pjson, "exp": exp, "issuance": iat, "aud": aud, "custom_claims": custom});
    let pres: Presentation<Jwt> = match catch(|| Presentation::<Jwt>::from_json_value(pjson.clone())) {
      Err(p) => return self.viol(&format!("presentation-from-json-panic@{}", p.file_only()), p.msg.clone(), &case),
      Ok(Err(_)) => {
        self.rep.inc("generated_presentation_rejected");
        return;
      }
      Ok(Ok(p)) => p,
    };
    let custom_obj: Option<Object> = if custom.is_empty() { None } else { Some(custom.clone().into_iter().collect()) };
    let opts = JwtPresentationOptions {
      expiration_date: exp.map(|e| Timestamp::from_unix(e).unwrap()),
      issuance_date: iat.map(|e| Timestamp::from_unix(e).unwrap()),
      audience: aud.as_ref().map(|a| Url::parse(a).unwrap()),
      custom_claims: custom_obj.clone(),
    };
    let claims_text = match catch(|| pres.serialize_jwt(&opts)) {
      Err(p) => return self.viol(&format!("presentation-serialize_jwt-panic@{}", p.file_only()), p.msg.clone(), &case),
      Ok(Err(e)) => return self.viol("presentation-serialize_jwt-refused", format!("{}", e), &case),
      Ok(Ok(t)) => t,
    };
    self.rep.inc("presentations_serialized");
    self.rep.distinct("nontrivial", &format!("pres|id:{}|exp:{}|iat:{}|aud:{}|ncred:{}|custom:{}", id.is_some(), exp.is_some(), iat.is_some(), aud.is_some(), ncred, !custom.is_empty()));
    let claims: Value = serde_json::from_str(&claims_text).unwrap_or(Value::Null);
    let mut case = case;
    case["claims"] = claims.clone();
    if claims.get("iss") != Some(&json!(holder)) {
      self.viol("pres-claims-iss", format!("iss = {:?}", claims.get("iss")), &case);
    }
    if claims.get("jti") != id.as_ref().map(|s| json!(s)).as_ref() {
      self.viol("pres-claims-jti", format!("jti = {:?}", claims.get("jti")), &case);
    }
    if claims.get("exp") != exp.map(|e| json!(e)).as_ref() {
      self.viol("pres-claims-exp", format!("exp = {:?}", claims.get("exp")), &case);
    }
    let issued = claims.get("nbf").or_else(|| claims.get("iat")).cloned();
    if issued != iat.map(|e| json!(e)) {
      self.viol("pres-claims-issuance", format!("nbf/iat = {:?}, issuance = {:?}", issued, iat), &case);
    }
    if claims.get("aud") != aud.as_ref().map(|s| json!(s)).as_ref() {
      self.viol("pres-claims-aud", format!("aud = {:?}", claims.get("aud")), &case);
    }
    let vp = claims.get("vp").cloned().unwrap_or(Value::Null);
    for dup in ["id", "holder"] {
      if vp.get(dup).is_some() {
        self.viol(&format!("vp-repeats-{}", dup), format!("vp repeats {}", dup), &case);
      }
    }
    // back conversion through the presentation validator
    let hdr = header(&holder);
    let token = jwt_with_sig(&hdr, &serde_json::from_str::<Value>(&claims_text).unwrap(), &[0u8; 64]);
    // use the exact text produced by the library as the payload
    let token = {
      let parts: Vec<&str> = token.split('.').collect();
      format!("{}.{}.{}", parts[0], vh::b64::url_encode(claims_text.as_bytes()), parts[2])
    };
    let doc = doc_for(&holder);
    let vopts = JwtPresentationValidationOptions::new()
      .earliest_expiry_date(Timestamp::from_unix(T_MIN).unwrap())
      .latest_issuance_date(Timestamp::from_unix(T_MAX).unwrap());
    self.rep.inc("presentation_backconversions");
    let r = catch(|| {
      JwtPresentationValidator::with_signature_verifier(liar())
        .validate::<_, Jwt, Object>(&Jwt::new(token), &doc, &vopts)
        .map(|d| (d.presentation, d.aud, d.expiration_date, d.issuance_date, d.custom_claims))
        .map_err(|e| format!("{}", e))
    });
    match r {
      Err(p) => self.viol(&format!("presentation-validate-panic@{}", p.file_only()), format!("{} at {}", p.msg, p.loc()), &case),
      Ok(Err(e)) => self.viol("own-claims-rejected:presentation", format!("claims produced by serialize_jwt were rejected: {}", e), &case),
      Ok(Ok((back, baud, bexp, biat, bcustom))) => {
        if back != pres || serde_json::to_value(&back).ok() != serde_json::to_value(&pres).ok() {
          self.viol("presentation-roundtrip-differs", "presentation -> claims -> presentation is not the identity".into(), &case);
        }
        if baud.as_ref().map(|u| u.to_string()) != aud || bexp.map(|t| t.to_unix()) != exp || biat.map(|t| t.to_unix()) != iat || bcustom.clone().filter(|o| !o.is_empty()) != custom_obj {
          self.viol("presentation-registered-claims-roundtrip", format!("aud/exp/issuance/custom returned: {:?} {:?} {:?} {:?}", baud, bexp, biat, bcustom), &case);
        }
      }
    }
  }

  /// Tampered credential claim sets: each duplicated member absent / equal / different, numeric dates at the range ends.
  fn tampered_credential(&mut self, rng: &mut Rng, idx: u64) {
    self.rep.eval();
    let issuer = "did:example:issuer-t";
    let base_t = 1_600_000_000i64;
    let mut spec: CredSpec = CredSpec::minimal(issuer, Some("did:example:subject-t"), base_t);
    spec.id = Some("https://example.edu/credentials/1".into());
    spec.expiration = Some(base_t + 1000);
    let mut claims = spec.claims_json(&Map::new());
    let mut must_reject: Vec<&'static str> = Vec::new();
    let mut may_reject = false; // latitude: duplicate present while the registered claim is absent
    // ... but if such a set is accepted the duplicated value must not be silently dropped or replaced
    let mut carried_exp: Option<Option<i64>> = None;
    let mut carried_id: Option<String> = None;
    let mut carried_sub: Option<String> = None;
    let mut desc: Vec<String> = Vec::new();
    let mut vc = claims["vc"].as_object().unwrap().clone();
    // decode idx in mixed radix for the exhaustive part; random beyond
    let mut d = idx;
    let mut digit = |n: u64| {
      let r = d % n;
      d /= n;
      r
    };
    // issuer duplicate (URL and object forms)
    match digit(6) {
      1 => {
        vc.insert("issuer".into(), json!(issuer));
        desc.push("vc.issuer=equal".into());
      }
      2 => {
        vc.insert("issuer".into(), json!("did:example:someone-else"));
        desc.push("vc.issuer=different".into());
        must_reject.push("issuer");
      }
      3 => {
        // same id, but the duplicate is an object carrying more than the registered claim says
        vc.insert("issuer".into(), json!({"id": issuer, "name": "Example University"}));
        desc.push("vc.issuer=object-vs-url".into());
        must_reject.push("issuer");
      }
      4 => {
        claims.insert("iss".into(), json!({"id": issuer, "name": "Example University"}));
        vc.insert("issuer".into(), json!({"id": issuer, "name": "Another Name"}));
        desc.push("vc.issuer=object-differs-in-member".into());
        must_reject.push("issuer");
      }
      5 => {
        claims.insert("iss".into(), json!({"id": issuer, "name": "Example University"}));
        vc.insert("issuer".into(), json!({"id": issuer, "name": "Example University"}));
        desc.push("vc.issuer=object-equal".into());
      }
      _ => {}
    }
    // issuanceDate duplicate
    match digit(4) {
      3 => {
        // equals what `iat` says in the iat+nbf vector below, never what the decisive claim says
        vc.insert("issuanceDate".into(), json!(rfc3339(base_t - 500)));
        desc.push("vc.issuanceDate=equals-iat-not-nbf".into());
        must_reject.push("issuanceDate");
      }
      1 => {
        vc.insert("issuanceDate".into(), json!(rfc3339(base_t)));
        desc.push("vc.issuanceDate=equal".into());
      }
      2 => {
        vc.insert("issuanceDate".into(), json!(rfc3339(base_t + 1)));
        desc.push("vc.issuanceDate=different".into());
        must_reject.push("issuanceDate");
      }
      _ => {}
    }
    // expirationDate duplicate x exp present
    let exp_present = digit(2) == 0;
    if !exp_present {
      claims.remove("exp");
      desc.push("exp=absent".into());
    }
    match digit(3) {
      1 => {
        vc.insert("expirationDate".into(), json!(rfc3339(base_t + 1000)));
        desc.push("vc.expirationDate=equal".into());
        if !exp_present {
          may_reject = true;
          carried_exp = Some(Some(base_t + 1000));
        }
      }
      2 => {
        vc.insert("expirationDate".into(), json!(rfc3339(base_t + 999)));
        desc.push("vc.expirationDate=different".into());
        if exp_present {
          must_reject.push("expirationDate");
        } else {
          may_reject = true;
          carried_exp = Some(Some(base_t + 999));
        }
      }
      _ => {}
    }
    // id duplicate x jti present
    let jti_present = digit(2) == 0;
    if !jti_present {
      claims.remove("jti");
      desc.push("jti=absent".into());
    }
    match digit(3) {
      1 => {
        vc.insert("id".into(), json!("https://example.edu/credentials/1"));
        desc.push("vc.id=equal".into());
        if !jti_present {
          may_reject = true;
          carried_id = Some("https://example.edu/credentials/1".into());
        }
      }
      2 => {
        vc.insert("id".into(), json!("https://example.edu/credentials/2"));
        desc.push("vc.id=different".into());
        if jti_present {
          must_reject.push("id");
        } else {
          may_reject = true;
          carried_id = Some("https://example.edu/credentials/2".into());
        }
      }
      _ => {}
    }
    // subject id duplicate x sub present
    let sub_present = digit(2) == 0;
    if !sub_present {
      claims.remove("sub");
      desc.push("sub=absent".into());
    }
    match digit(3) {
      1 => {
        vc["credentialSubject"]["id"] = json!("did:example:subject-t");
        desc.push("vc.credentialSubject.id=equal".into());
        if !sub_present {
          may_reject = true;
          carried_sub = Some("did:example:subject-t".into());
        }
      }
      2 => {
        vc["credentialSubject"]["id"] = json!("did:example:subject-other");
        desc.push("vc.credentialSubject.id=different".into());
        if sub_present {
          must_reject.push("credentialSubject.id");
        } else {
          may_reject = true;
          carried_sub = Some("did:example:subject-other".into());
        }
      }
      _ => {}
    }
    // iat / nbf
    let mut expect_issuance: Option<i64> = Some(base_t);
    match digit(4) {
      1 => {
        claims.insert("iat".into(), json!(base_t - 500));
        desc.push("iat+nbf(differ)".into());
      }
      2 => {
        claims.remove("nbf");
        claims.insert("iat".into(), json!(base_t));
        desc.push("iat-only".into());
      }
      3 => {
        claims.remove("nbf");
        desc.push("neither-iat-nor-nbf".into());
        expect_issuance = None;
        may_reject = true;
      }
      _ => {}
    }
    // numeric date extremes (only on a claim that is present and used)
    const EXTREMES: [i64; 8] = [T_MIN - 1, T_MIN, T_MAX, T_MAX + 1, i64::MIN, i64::MAX, -62_167_219_201 - 86_400 * 400, 253_402_300_800 + 86_400];
    if rng.chance(1, 3) {
      let v = *rng.pick(&EXTREMES);
      let in_range = (T_MIN..=T_MAX).contains(&v);
      let which = rng.below(2);
      if which == 0 && exp_present && !vc.contains_key("expirationDate") {
        claims.insert("exp".into(), json!(v));
        desc.push(format!("exp={}", v));
        if !in_range {
          must_reject.push("exp-out-of-range");
        }
      } else if claims.contains_key("nbf") && !vc.contains_key("issuanceDate") {
        claims.insert("nbf".into(), json!(v));
        desc.push(format!("nbf={}", v));
        expect_issuance = Some(v);
        if !in_range {
          must_reject.push("nbf-out-of-range");
        }
      } else if claims.contains_key("iat") && !claims.contains_key("nbf") && !vc.contains_key("issuanceDate") {
        claims.insert("iat".into(), json!(v));
        desc.push(format!("iat={}", v));
        expect_issuance = Some(v);
        if !in_range {
          must_reject.push("iat-out-of-range");
        }
      }
    }
    claims.insert("vc".into(), Value::Object(vc));
    let claims_v = Value::Object(claims);
    let case = json!({"claims": claims_v, "tampering": desc, "must_reject_because": must_reject});
    self.rep.distinct("nontrivial", &format!("tamper|{}", desc.join(",").replace(|c: char| c.is_ascii_digit() || c == '-', "")));
    match self.back_credential(issuer, &claims_v.to_string()) {
      Err(p) => self.viol(&format!("verify_signature-panic@{}", p.file_only()), format!("{} at {}", p.msg, p.loc()), &case),
      Ok(Err(_)) => {
        self.rep.inc("tampered_rejected");
        if must_reject.is_empty() && !may_reject {
          self.rep.inc("consistent_claims_rejected");
        }
      }
      Ok(Ok((cred, _))) => {
        self.rep.inc("tampered_accepted");
        if let Some(why) = must_reject.first() {
          self.viol(&format!("inconsistent-claims-accepted:{}", why), format!("claims set accepted although {:?}", must_reject), &case);
        }
        let t = cred.issuance_date.to_unix();
        if !(T_MIN..=T_MAX).contains(&t) || cred.expiration_date.map(|e| !(T_MIN..=T_MAX).contains(&e.to_unix())).unwrap_or(false) {
          self.viol("accepted-date-out-of-range", "accepted credential carries a date outside 0000-9999".into(), &case);
        }
        // a duplicated value whose registered claim is absent may be refused, but not silently dropped
        if must_reject.is_empty() {
          if let Some(want) = &carried_exp {
            if cred.expiration_date.map(|e| e.to_unix()) != *want {
              self.viol("duplicate-without-registered-claim-silently-dropped:expirationDate", format!("accepted, but expiration is {:?} while vc.expirationDate says {:?}", cred.expiration_date, want), &case);
            }
          }
          if let Some(want) = &carried_id {
            if cred.id.as_ref().map(|u| u.to_string()).as_ref() != Some(want) {
              self.viol("duplicate-without-registered-claim-silently-dropped:id", format!("accepted, but id is {:?} while vc.id says {}", cred.id, want), &case);
            }
          }
          if let Some(want) = &carried_sub {
            let got = cred.credential_subject.iter().next().and_then(|s| s.id.as_ref().map(|u| u.to_string()));
            if got.as_ref() != Some(want) {
              self.viol("duplicate-without-registered-claim-silently-dropped:credentialSubject.id", format!("accepted, but subject id is {:?} while vc.credentialSubject.id says {}", got, want), &case);
            }
          }
        }
        if let Some(want) = expect_issuance {
          if must_reject.is_empty() && t != want {
            self.viol("issuance-date-source", format!("issuance date {} but nbf (else iat) says {}", t, want), &case);
          }
        }
      }
    }
  }

  fn tampered_presentation(&mut self, rng: &mut Rng, idx: u64) {
    self.rep.eval();
    let holder = "did:example:holder-t";
    let mut claims = Map::new();
    claims.insert("iss".into(), json!(holder));
    claims.insert("jti".into(), json!("https://example.edu/presentations/1"));
    let mut vp = Map::new();
    vp.insert("@context".into(), json!(credgen::BASE_CONTEXT));
    vp.insert("type".into(), json!("VerifiablePresentation"));
    vp.insert("verifiableCredential".into(), json!([]));
    let mut must_reject: Vec<&'static str> = Vec::new();
    let mut may_reject = false;
    let mut carried_id: Option<String> = None;
    let mut desc: Vec<String> = Vec::new();
    let mut d = idx;
    let mut digit = |n: u64| {
      let r = d % n;
      d /= n;
      r
    };
    let jti_present = digit(2) == 0;
    if !jti_present {
      claims.remove("jti");
      desc.push("jti=absent".into());
    }
    match digit(3) {
      1 => {
        vp.insert("id".into(), json!("https://example.edu/presentations/1"));
        desc.push("vp.id=equal".into());
        if !jti_present {
          may_reject = true;
          carried_id = Some("https://example.edu/presentations/1".into());
        }
      }
      2 => {
        vp.insert("id".into(), json!("https://example.edu/presentations/2"));
        desc.push("vp.id=different".into());
        if jti_present {
          must_reject.push("id");
        } else {
          may_reject = true;
          carried_id = Some("https://example.edu/presentations/2".into());
        }
      }
      _ => {}
    }
    match digit(3) {
      1 => {
        vp.insert("holder".into(), json!(holder));
        desc.push("vp.holder=equal".into());
      }
      2 => {
        vp.insert("holder".into(), json!("did:example:holder-other"));
        desc.push("vp.holder=different".into());
        must_reject.push("holder");
      }
      _ => {}
    }
    const EXTREMES: [i64; 6] = [T_MIN - 1, T_MIN, T_MAX, T_MAX + 1, i64::MIN, i64::MAX];
    match digit(5) {
      4 => {
        // both issuance claims present: nbf is the one the conversion uses, so an unrepresentable nbf is not rescued by a valid iat
        let v = *rng.pick(&[T_MIN - 1, T_MAX + 1, i64::MIN, i64::MAX]);
        claims.insert("nbf".into(), json!(v));
        claims.insert("iat".into(), json!(1_600_000_000i64 + rng.below(1000) as i64));
        desc.push(format!("nbf={}+iat=valid", v));
        must_reject.push("nbf-out-of-range");
      }
      1 => {
        let v = *rng.pick(&EXTREMES);
        claims.insert("exp".into(), json!(v));
        desc.push(format!("exp={}", v));
        if !(T_MIN..=T_MAX).contains(&v) {
          must_reject.push("exp-out-of-range");
        }
      }
      2 => {
        let v = *rng.pick(&EXTREMES);
        claims.insert("nbf".into(), json!(v));
        desc.push(format!("nbf={}", v));
        if !(T_MIN..=T_MAX).contains(&v) {
          must_reject.push("nbf-out-of-range");
        }
      }
      3 => {
        let v = *rng.pick(&EXTREMES);
        claims.insert("iat".into(), json!(v));
        desc.push(format!("iat={}", v));
        if !(T_MIN..=T_MAX).contains(&v) {
          must_reject.push("iat-out-of-range");
        }
      }
      _ => {}
    }
    claims.insert("vp".into(), Value::Object(vp));
    let claims_v = Value::Object(claims);
    let case = json!({"claims": claims_v, "tampering": desc, "must_reject_because": must_reject});
    self.rep.distinct("nontrivial", &format!("ptamper|{}", desc.join(",").replace(|c: char| c.is_ascii_digit() || c == '-', "")));
    let token = jwt_with_sig(&header(holder), &claims_v, &[0u8; 64]);
    let doc = doc_for(holder);
    let vopts = JwtPresentationValidationOptions::new()
      .earliest_expiry_date(Timestamp::from_unix(T_MIN).unwrap())
      .latest_issuance_date(Timestamp::from_unix(T_MAX).unwrap());
    let r = catch(|| {
      JwtPresentationValidator::with_signature_verifier(liar())
        .validate::<_, Jwt, Object>(&Jwt::new(token), &doc, &vopts)
        .ok()
        .map(|d| d.presentation.id.map(|u| u.to_string()))
    });
    let r = r.map(|o| {
      if let (Some(got), Some(want), true) = (&o, &carried_id, must_reject.is_empty()) {
        if got.as_ref() != Some(want) {
          self.viol("duplicate-without-registered-claim-silently-dropped:vp.id", format!("accepted, but presentation id is {:?} while vp.id says {}", got, want), &case);
        }
      }
      o.is_some()
    });
    match r {
      Err(p) => self.viol(&format!("presentation-validate-panic@{}", p.file_only()), format!("{} at {}", p.msg, p.loc()), &case),
      Ok(false) => {
        self.rep.inc("tampered_rejected");
        if must_reject.is_empty() && !may_reject {
          self.rep.inc("consistent_claims_rejected");
        }
      }
      Ok(true) => {
        self.rep.inc("tampered_accepted");
        if let Some(why) = must_reject.first() {
          self.viol(&format!("inconsistent-presentation-claims-accepted:{}", why), format!("claims set accepted although {:?}", must_reject), &case);
        }
      }
    }
  }

  /// The serialisation of `s` as parsed by `Url` (a plain String: never compare `Url` values with the library's `==`).
  fn url_norm(&mut self, s: &str) -> Option<String> {
    match catch(|| Url::parse(s).ok().map(|u| u.as_str().to_string())) {
      Ok(o) => o,
      Err(_) => None,
    }
  }

  /// Near-miss duplicates: a URL-valued member repeated inside vc / vp whose spelling is ALMOST the registered claim's (trailing
  /// slashes added / removed, letter case of scheme / host / path, default or other port, percent-encoding case, empty query /
  /// fragment, dot segments). Model: two spellings denote the same value iff their serialisations as parsed by Url are the same
  /// string; if the strings differ the duplicate disagrees with the registered claim and the claims set must be rejected. If they
  /// are the same string the set may be refused or accepted, then carrying exactly that string.
  fn nearmiss(&mut self, rng: &mut Rng, pair: &str, base: &str, kind: &str, class: &str, on_registered: bool) {
    let variant = match nm_variant(base, kind) {
      Some(v) => v,
      None => return,
    };
    self.rep.eval();
    self.rep.inc("nearmiss_cases");
    let (reg, dup) = if on_registered { (variant.clone(), base.to_string()) } else { (base.to_string(), variant.clone()) };
    let (nreg, ndup) = (self.url_norm(&reg), self.url_norm(&dup));
    let presentation = pair.contains("vp.");
    let t = 1_600_000_000i64 + rng.below(1000) as i64;
    let mut top = RawObj::default();
    let mut inner = RawObj::default();
    inner.push("@context", js(credgen::BASE_CONTEXT));
    let signer: String;
    if presentation {
      let holder = "did:example:holder-t";
      inner.push("type", js("VerifiablePresentation"));
      inner.push("verifiableCredential", "[]");
      match pair {
        "jti/vp.id" => {
          signer = holder.to_string();
          top.push("iss", js(holder));
          top.push("jti", js(&reg));
          inner.push("id", js(&dup));
          if rng.bool() {
            inner.push("holder", js(holder));
          }
        }
        _ => {
          signer = base.to_string();
          top.push("iss", js(&reg));
          top.push("jti", js("https://example.edu/presentations/1"));
          inner.push("holder", js(&dup));
        }
      }
      top.push("nbf", t.to_string());
      top.push("exp", (t + 1000).to_string());
    } else {
      let issuer = "did:example:issuer-t";
      inner.push("type", js("VerifiableCredential"));
      let mut subject = RawObj::default();
      subject.push("degree", js("BSc"));
      let (mut iss, mut jti, mut sub) = (js(issuer), js("https://example.edu/credentials/1"), js("did:example:subject-t"));
      signer = if pair.starts_with("iss/") { base.to_string() } else { issuer.to_string() };
      match pair {
        "jti/vc.id" => {
          jti = js(&reg);
          inner.push("id", js(&dup));
        }
        "sub/vc.credentialSubject.id" => {
          sub = js(&reg);
          subject.push("id", js(&dup));
        }
        "iss/vc.issuer" => {
          iss = js(&reg);
          inner.push("issuer", js(&dup));
        }
        _ => {
          // both sides in object form, equal in every other member
          iss = format!("{{\"id\":{},\"name\":\"Example University\"}}", js(&reg));
          inner.push("issuer", format!("{{\"id\":{},\"name\":\"Example University\"}}", js(&dup)));
        }
      }
      top.push("iss", iss);
      top.push(if rng.chance(1, 4) { "iat" } else { "nbf" }, t.to_string());
      if rng.bool() {
        top.push("exp", (t + 1000).to_string());
      }
      top.push("jti", jti);
      top.push("sub", sub);
      if rng.bool() {
        inner.push("credentialSubject", subject.text());
      } else {
        inner.0.insert(0, ("credentialSubject".to_string(), subject.text()));
      }
    }
    let inner_name = if presentation { "vp" } else { "vc" };
    if rng.bool() {
      top.push(inner_name, inner.text());
    } else {
      top.0.insert(0, (inner_name.to_string(), inner.text()));
    }
    let text = top.text();
    let differ = match (&nreg, &ndup) {
      (Some(a), Some(b)) => Some(a != b),
      _ => None,
    };
    // what is known by construction, independently of any parser: these spellings cannot denote the registered claim's value
    let surely_differs = base.contains('/')
      && !base.contains('?')
      && base != "https://example.edu"
      && matches!(kind, "different" | "slash+1" | "slash+2" | "slash+3" | "slash-1" | "empty-query" | "empty-fragment" | "other-port");
    let case = json!({"claims_text": text, "pair": pair, "registered_claim": reg, "repeated_value": dup, "variant": kind,
      "variant_on": if on_registered { "registered-claim" } else { "repeated-value" },
      "registered_as_serialised_by_Url": nreg, "repeated_as_serialised_by_Url": ndup, "must_reject": differ == Some(true)});
    self.rep.distinct("nontrivial", &format!("nearmiss|{}|{}|{}|{:?}", pair, kind, on_registered, differ));
    if differ == Some(false) && (surely_differs || kind == "different") {
      // the parser folds two spellings the harness holds to be different: not judged here (and visible in the counters)
      self.rep.inc("nearmiss_model_mismatch");
      return;
    }
    match differ {
      Some(true) => self.rep.inc("nearmiss_disagreeing"),
      Some(false) => self.rep.inc("nearmiss_same_after_serialisation"),
      None => self.rep.inc("nearmiss_unparsable"),
    }
    let what = if presentation { "presentation" } else { "credential" };
    // (id, subject id, issuer / holder) of what came back, as strings
    let got: Result<Result<(Option<String>, Option<String>, String), String>, vh::panicmon::PanicRec> = if presentation {
      self.back_presentation(&signer, &text).map(|r| r.map(|b| (b.id, None, b.holder)))
    } else {
      self.back_credential(&signer, &text).map(|r| {
        r.map(|(c, _)| {
          (
            c.id.as_ref().map(|u| u.as_str().to_string()),
            c.credential_subject.iter().next().and_then(|s| s.id.as_ref().map(|u| u.as_str().to_string())),
            c.issuer.url().as_str().to_string(),
          )
        })
      })
    };
    match got {
      Err(p) => self.viol(&format!("{}-nearmiss-panic@{}", what, p.file_only()), format!("{} at {}", p.msg, p.loc()), &case),
      Ok(Err(_)) => match differ {
        Some(true) => self.rep.inc("nearmiss_disagreeing_rejected"),
        Some(false) => self.rep.inc("nearmiss_same_rejected"),
        None => {}
      },
      Ok(Ok((id, sub, iss))) => match differ {
        Some(true) => self.viol(
          &format!("near-miss-duplicate-silently-resolved:{}:{}", what, class),
          format!("{}: registered claim {} and repeated value {} are different URLs ({}), yet the claims set was accepted (as id={:?} subject={:?} issuer/holder={}): {}", pair, reg, dup, kind, id, sub, iss, text),
          &case,
        ),
        Some(false) => {
          self.rep.inc("nearmiss_same_accepted");
          let want = nreg.clone().unwrap_or_default();
          let carried = match pair {
            "jti/vc.id" | "jti/vp.id" => id.clone().unwrap_or_default(),
            "sub/vc.credentialSubject.id" => sub.clone().unwrap_or_default(),
            _ => iss.clone(),
          };
          if carried != want {
            self.viol(
              &format!("near-miss-duplicate-carried-as-other-value:{}", what),
              format!("{}: {} and {} both serialise to {} but the {} came back with {}", pair, reg, dup, want, what, carried),
              &case,
            );
          }
        }
        None => {}
      },
    }
  }

  /// Round trip of a credential / presentation whose URL-valued members are written in the near-miss spellings: the registered claims
  /// must carry exactly the strings the value serialises to, and the way back must give the same JSON.
  fn nearmiss_roundtrip(&mut self, base: &str, kind: &str) {
    let variant = match nm_variant(base, kind) {
      Some(v) => v,
      None => return,
    };
    let norm = match self.url_norm(&variant) {
      Some(n) => n,
      None => return,
    };
    self.rep.eval();
    self.rep.inc("nearmiss_roundtrips");
    let issuer = "did:example:issuer-t";
    let vc_json = json!({"@context": credgen::BASE_CONTEXT, "type": "VerifiableCredential", "id": variant, "issuer": issuer,
      "issuanceDate": rfc3339(1_600_000_000), "credentialSubject": {"id": variant, "degree": "BSc"}});
    let case = json!({"credential": vc_json, "spelling": kind, "as_serialised_by_Url": norm});
    let cred: Credential = match catch(|| Credential::from_json_value(vc_json.clone())) {
      Ok(Ok(c)) => c,
      _ => return,
    };
    let text = match catch(|| cred.serialize_jwt(None)) {
      Ok(Ok(t)) => t,
      Ok(Err(e)) => return self.viol("serialize_jwt-refuses-single-subject-credential", format!("serialize_jwt failed: {}", e), &case),
      Err(p) => return self.viol(&format!("serialize_jwt-panic@{}", p.file_only()), format!("{} at {}", p.msg, p.loc()), &case),
    };
    let claims: Value = serde_json::from_str(&text).unwrap_or(Value::Null);
    if claims.get("jti") != Some(&json!(norm)) || claims.get("sub") != Some(&json!(norm)) {
      self.viol("claims-url-spelling-altered", format!("id / subject id {} carried as jti = {:?}, sub = {:?}", norm, claims.get("jti"), claims.get("sub")), &case);
    }
    match self.back_credential(issuer, &text) {
      Err(p) => self.viol(&format!("verify_signature-panic@{}", p.file_only()), format!("{} at {}", p.msg, p.loc()), &case),
      Ok(Err(e)) => self.viol("own-claims-rejected:credential", format!("claims produced by serialize_jwt were rejected: {}", e), &case),
      Ok(Ok((back, _))) => {
        if serde_json::to_value(&back).ok() != serde_json::to_value(&cred).ok() {
          self.viol("credential-roundtrip-differs", format!("credential with id {} -> claims -> credential differs in its JSON form", variant), &case);
        }
      }
    }
  }
}

/// The near-miss spellings (kind, class used in the signature).
const NM_KINDS: [(&str, &str); 19] = [
  ("equal", "control"),
  ("different", "control"),
  ("slash+1", "trailing-slash"),
  ("slash+2", "trailing-slash"),
  ("slash+3", "trailing-slash"),
  ("slash-1", "trailing-slash"),
  ("dot-end", "dot-segment"),
  ("dot-mid", "dot-segment"),
  ("dotdot", "dot-segment"),
  ("scheme-upper", "letter-case"),
  ("host-upper", "letter-case"),
  ("path-upper", "letter-case"),
  ("path-lower", "letter-case"),
  ("default-port", "port"),
  ("other-port", "port"),
  ("pct-case", "percent-encoding"),
  ("pct-encode", "percent-encoding"),
  ("empty-query", "empty-query-or-fragment"),
  ("empty-fragment", "empty-query-or-fragment"),
];

const NM_BASES: [&str; 7] = [
  "https://example.edu/credentials/3732",
  "http://example.edu/Things/a%7eb/",
  "https://example.edu",
  "https://example.edu/c?x=1",
  "did:example:ebfeb1f712ebc6f1c276e12ec21",
  "did:example:Abc/path/",
  "urn:uuid:3978344f-8596-4c3a-a978-8fcaba3903c5",
];

/// Bases for the pairs whose registered claim is the signer (it has to be a DID the harness document can be made for).
const NM_DID_BASES: [&str; 2] = ["did:example:issuer-t", "did:example:ebfeb1f712ebc6f1c276e12ec21"];

const NM_PAIRS: [&str; 6] = ["jti/vc.id", "sub/vc.credentialSubject.id", "iss/vc.issuer", "iss/vc.issuer(object)", "jti/vp.id", "iss/vp.holder"];

/// The `kind` spelling of `base`, or None where the kind does not apply to that base.
fn nm_variant(base: &str, kind: &str) -> Option<String> {
  let colon = base.find(':')?;
  let (scheme, rest) = (&base[..colon], &base[colon + 1..]);
  let hier = rest.starts_with("//");
  let (auth, tail) = if hier {
    let r = &rest[2..];
    let e = r.find(['/', '?', '#']).unwrap_or(r.len());
    (&r[..e], &r[e..])
  } else {
    ("", rest)
  };
  let rebuild = |scheme: &str, auth: &str, tail: &str| if hier { format!("{}://{}{}", scheme, auth, tail) } else { format!("{}:{}", scheme, tail) };
  let out = match kind {
    "equal" => base.to_string(),
    "different" => format!("{}-other", base),
    "slash+1" => format!("{}/", base),
    "slash+2" => format!("{}//", base),
    "slash+3" => format!("{}///", base),
    "slash-1" => base.strip_suffix('/')?.to_string(),
    "dot-end" => {
      if base.contains(['?', '#']) {
        return None;
      }
      if base.ends_with('/') { format!("{}.", base) } else { format!("{}/.", base) }
    }
    "dot-mid" if hier && tail.starts_with('/') => rebuild(scheme, auth, &format!("/.{}", tail)),
    "dotdot" if hier && tail.starts_with('/') => rebuild(scheme, auth, &format!("/zz/..{}", tail)),
    "scheme-upper" => rebuild(&scheme.to_uppercase(), auth, tail),
    "host-upper" if hier => rebuild(scheme, &auth.to_uppercase(), tail),
    "path-upper" => rebuild(scheme, auth, &tail.to_uppercase()),
    "path-lower" => rebuild(scheme, auth, &tail.to_lowercase()),
    "default-port" if hier => rebuild(scheme, &format!("{}:{}", auth, if scheme == "https" { 443 } else { 80 }), tail),
    "other-port" if hier => rebuild(scheme, &format!("{}:8443", auth), tail),
    "pct-case" => {
      let at = tail.find('%')?;
      let hex = tail.get(at + 1..at + 3)?;
      let flipped: String = hex.chars().map(|c| if c.is_ascii_lowercase() { c.to_ascii_uppercase() } else { c.to_ascii_lowercase() }).collect();
      rebuild(scheme, auth, &format!("{}%{}{}", &tail[..at], flipped, &tail[at + 3..]))
    }
    "pct-encode" => {
      let at = tail.rfind('e')?;
      rebuild(scheme, auth, &format!("{}%65{}", &tail[..at], &tail[at + 1..]))
    }
    "empty-query" if !base.contains(['?', '#']) => format!("{}?", base),
    "empty-fragment" if !base.contains('#') => format!("{}#", base),
    _ => return None,
  };
  if out == base && kind != "equal" {
    return None;
  }
  Some(out)
}

fn main() {
  let args = Args::parse();
  let scale = args.extra_u64("scale", 1000);
  let mut cx = Cx { rep: Report::new("C07") };
  cx.rep.rule(
    "credentials/presentations generated over every optional field (issuer URL/DID/object, subject id, id, expiry, status, schema, refresh \
     service, terms of use, evidence, nonTransferable, extra properties, proof, custom claims, one-or-many forms) -> serialize_jwt -> claims \
     shape checks -> back-conversion through the validators with an always-Ok verifier; tampered claim sets enumerated over each duplicated \
     member absent/equal/different x registered claim present/absent x iat/nbf combinations x numeric dates at the range ends; \
     claims sets written as raw text in which one member (registered claim, or value repeated inside vc/vp/credentialSubject) occurs twice \
     (bad-good / good-bad / equal / single control x adjacent or apart x counterpart present) and numeric dates spelled with a fraction or \
     an exponent (table + random spellings x exp/nbf/iat slots x vc date present), for credentials and presentations; \
     near-miss duplicates: each URL-valued duplicated pair (jti/vc.id, sub/vc.credentialSubject.id, iss/vc.issuer as string and object, \
     jti/vp.id, iss/vp.holder) x base URL x spelling variant (trailing slashes, letter case, ports, percent-encoding, empty query/fragment, \
     dot segments) x side, judged on the strings the two spellings serialise to. \
     distinct = field-presence class of the generated value resp. the tampering vector resp. (slot, kind of number, spelling)",
  );
  let mut rng = args.rng(7);
  let n = (if args.thorough { 12_000_000u64 } else { 6_000 } * scale / 1000 / args.nshards).max(30);
  for _ in 0..n {
    cx.credential_roundtrip(&mut rng);
  }
  for _ in 0..n / 3 {
    cx.presentation_roundtrip(&mut rng);
  }
  // tampered credential claims: 6*4*2*3*2*3*2*3*4 = 20736 vectors, all enumerated (x date extremes drawn at random)
  let reps = if args.thorough { 40 } else { 1 };
  let mut k = 0u64;
  for _ in 0..reps {
    for idx in 0..20736u64 {
      k += 1;
      if args.mine(k) && (scale >= 1000 || idx % (1000 / scale.max(1)) == 0) {
        cx.tampered_credential(&mut rng, idx);
      }
    }
    for idx in 0..90u64 {
      k += 1;
      if args.mine(k) {
        for _ in 0..4 {
          cx.tampered_presentation(&mut rng, idx);
        }
      }
    }
  }
  // Claims sets written as raw TEXT (own stream, so the workloads above are unchanged): one member occurring twice in one object
  // (11 targets x 4 patterns x adjacent/apart x counterpart = 176 credential vectors, 8 x 4 x 2 x 2 = 128 presentation vectors), and
  // numeric dates spelled with a fraction or an exponent (hand-written table x every slot, plus random spellings).
  let mut rng2 = args.rng(8);
  let small = scale < 1000;
  let reps2 = if args.thorough { 300 } else { 4 };
  let mut k2 = 0u64;
  for rep in 0..reps2 {
    if small && rep > 0 {
      break;
    }
    for idx in 0..176u64 {
      k2 += 1;
      if args.mine(k2) && (!small || k2 % 3 == 0) {
        cx.dup_credential(&mut rng2, idx);
      }
    }
    for idx in 0..128u64 {
      k2 += 1;
      if args.mine(k2) && (!small || k2 % 3 == 0) {
        cx.dup_presentation(&mut rng2, idx);
      }
    }
  }
  let table = num_table();
  for (i, nc) in table.iter().enumerate() {
    for slot in 0..6u64 {
      k2 += 1;
      if args.mine(k2) && (!small || (i as u64 + slot) % 5 == 0) {
        cx.nonint_credential(&mut rng2, slot, nc);
      }
    }
    for slot in 0..4u64 {
      k2 += 1;
      if args.mine(k2) && (!small || (i as u64 + slot) % 5 == 0) {
        cx.nonint_presentation(&mut rng2, slot, nc);
      }
    }
  }
  let nrand = (if args.thorough { 400_000u64 } else { 2_400 } * scale / 1000 / args.nshards).max(10);
  for i in 0..nrand {
    let nc = num_random(&mut rng2);
    if i % 5 < 3 {
      let slot = rng2.below(6);
      cx.nonint_credential(&mut rng2, slot, &nc);
    } else {
      cx.nonint_presentation(&mut rng2, i / 5, &nc);
    }
  }
  // Near-miss duplicates (own stream): every URL-valued duplicated pair x base URL x near-miss spelling x side carrying the spelling,
  // all enumerated; plus the round trip of values written in those spellings.
  let mut rng3 = args.rng(9);
  let reps3 = if args.thorough && !small { 8 } else { 1 };
  let mut k3 = 0u64;
  for _ in 0..reps3 {
    for pair in NM_PAIRS {
      let bases: &[&str] = if pair.starts_with("iss/") { &NM_DID_BASES } else { &NM_BASES };
      for base in bases {
        for (kind, class) in NM_KINDS {
          for on_registered in [false, true] {
            k3 += 1;
            if args.mine(k3) && (!small || (k3 / args.nshards.max(1)) % 4 == 0) {
              cx.nearmiss(&mut rng3, pair, base, kind, class, on_registered);
            }
          }
        }
      }
    }
    for base in NM_BASES {
      for (kind, _) in NM_KINDS {
        k3 += 1;
        if args.mine(k3) && (!small || (k3 / args.nshards.max(1)) % 4 == 0) {
          cx.nearmiss_roundtrip(base, kind);
        }
      }
    }
  }
  cx.rep.finish();
}
