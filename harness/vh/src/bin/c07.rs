//! C07 — Credential/presentation <-> JWT claims conversion is lossless and consistent.
#[path = "../shared/credgen.rs"]
mod credgen;

use credgen::{gen_credential, gen_custom_claims, jwt_with_sig, method_json, rfc3339, CredSpec, T_MAX, T_MIN};
use identity_core::common::{Object, Timestamp, Url};
use identity_core::convert::FromJson;
use identity_credential::credential::{Credential, Jwt};
use identity_credential::presentation::{JwtPresentationOptions, Presentation};
use identity_credential::validator::{JwtCredentialValidator, JwtPresentationValidationOptions, JwtPresentationValidator};
use identity_document::document::CoreDocument;
use identity_document::verifiable::JwsVerificationOptions;
use identity_jose::jwk::Jwk;
use identity_jose::jws::{JwsVerifierFn, SignatureVerificationError, VerificationInput};
use serde_json::{json, Map, Value};
use vh::keys::Key;
use vh::panicmon::catch;
use vh::{Args, Report, Rng};

fn liar() -> JwsVerifierFn<impl Fn(VerificationInput, &Jwk) -> Result<(), SignatureVerificationError>> {
  JwsVerifierFn::from(|_input: VerificationInput, _key: &Jwk| Ok(()))
}

fn doc_for(did: &str) -> CoreDocument {
  let key = Key::ed(7);
  let j = json!({"id": did, "verificationMethod": [method_json(&format!("{}#k", did), did, &key)]});
  serde_json::from_value(j).expect("harness document")
}

fn header(did: &str) -> Value {
  json!({"alg":"EdDSA","kid":format!("{}#k", did),"typ":"JWT"})
}

struct Cx {
  rep: Report,
}

impl Cx {
  fn viol(&mut self, sig: &str, desc: String, case: &Value) {
    self.rep.violation(sig, &desc, case.clone());
  }

  /// Back-conversion of a claims JSON text through the only public path.
  fn back_credential(&mut self, did: &str, claims_text: &str) -> Result<Result<(Credential, Option<Object>), String>, vh::panicmon::PanicRec> {
    let hdr = header(did);
    let token = format!(
      "{}.{}.{}",
      vh::b64::url_encode(hdr.to_string().as_bytes()),
      vh::b64::url_encode(claims_text.as_bytes()),
      vh::b64::url_encode(&[0u8; 64])
    );
    let doc = doc_for(did);
    catch(|| {
      let v = JwtCredentialValidator::with_signature_verifier(liar());
      v.verify_signature::<_, Object>(&Jwt::new(token), &[doc], &JwsVerificationOptions::default())
        .map(|d| (d.credential, d.custom_claims))
        .map_err(|e| format!("{} / {:?}", e, e))
    })
  }

  fn credential_roundtrip(&mut self, rng: &mut Rng) {
    self.rep.eval();
    let did_issuer = rng.chance(5, 6);
    let issuer = if did_issuer { format!("did:example:issuer{}", rng.below(50)) } else { format!("https://issuer{}.example.edu/issuers/14", rng.below(50)) };
    let subject = match rng.below(4) {
      0 => None,
      1 => Some(format!("https://subjects.example/{}", rng.below(100))),
      _ => Some(format!("did:example:subject{}", rng.below(100))),
    };
    let issuance = match rng.below(6) {
      0 => T_MIN,
      1 => T_MAX - 1,
      _ => rng.range_i64(T_MIN, T_MAX),
    };
    let mut spec = gen_credential(rng, &issuer, subject.as_deref(), issuance);
    if rng.chance(1, 10) {
      spec.expiration = Some(T_MAX);
    }
    // an issuer object that carries nothing but its id is still an object
    if spec.issuer_props.is_none() && rng.chance(1, 10) {
      spec.issuer_props = Some(Map::new());
    }
    // extra properties whose names other data-model versions / profiles give a meaning to: here they are plain properties
    if rng.chance(1, 6) {
      let name = *rng.pick(&["validFrom", "validUntil", "name", "description", "issued", "expires", "holder", "sub", "iss", "nbf", "exp", "jti", "vc", "relatedResource", "confidenceMethod"]);
      let v = match rng.below(4) {
        0 => json!(credgen::rfc3339(spec.issuance)),
        1 => json!(credgen::rfc3339(spec.expiration.unwrap_or(spec.issuance + 1))),
        2 => json!(credgen::rfc3339(rng.range_i64(T_MIN, T_MAX))),
        _ => json!({"note": rng.below(100)}),
      };
      spec.properties.insert(name.to_string(), v);
    }
    let custom = gen_custom_claims(rng);
    let mut vc_json = spec.vc_json();
    // the single subject written as a one-element array: the library may refuse to convert it (the claims set has room for
    // one subject object only), but if it converts, the round trip must still give back an equal credential
    let subject_as_array = rng.chance(1, 12);
    if subject_as_array {
      let s = vc_json["credentialSubject"].take();
      vc_json["credentialSubject"] = json!([s]);
    }
    let case = json!({"credential": vc_json, "custom_claims": custom});
    let cred: Credential = match catch(|| Credential::from_json_value(vc_json.clone())) {
      Err(p) => return self.viol(&format!("credential-from-json-panic@{}", p.file_only()), p.msg.clone(), &case),
      Ok(Err(_)) => {
        self.rep.inc("generated_credential_rejected");
        return;
      }
      Ok(Ok(c)) => c,
    };
    let custom_obj: Option<Object> = if custom.is_empty() { None } else { Some(custom.clone().into_iter().collect()) };
    let claims_text = match catch(|| cred.serialize_jwt(custom_obj.clone())) {
      Err(p) => return self.viol(&format!("serialize_jwt-panic@{}", p.file_only()), format!("{} at {}", p.msg, p.loc()), &case),
      Ok(Err(_)) if subject_as_array => {
        self.rep.inc("serialize_jwt_refused_subject_array");
        return;
      }
      Ok(Err(e)) => return self.viol("serialize_jwt-refuses-single-subject-credential", format!("serialize_jwt failed: {}", e), &case),
      Ok(Ok(t)) => t,
    };
    self.rep.inc("credentials_serialized");
    if subject_as_array {
      self.rep.inc("credentials_serialized_subject_array");
    }
    let class = format!(
      "cred|iss:{}|sub:{}|id:{}|exp:{}|status:{}|schema:{}|refresh:{}|terms:{}|evidence:{}|nt:{:?}|props:{}|proof:{}|custom:{}|ctx1:{}|ty1:{}",
      if spec.issuer_props.is_some() { "obj" } else if did_issuer { "did" } else { "url" },
      spec.subject_id.is_some(), spec.id.is_some(), spec.expiration.is_some(), spec.status.is_some(), spec.schema.is_some(), spec.refresh.is_some(),
      spec.terms.is_some(), spec.evidence.is_some(), spec.non_transferable, !spec.properties.is_empty(), spec.proof.is_some(), !custom.is_empty(),
      spec.context_single, spec.types_single
    );
    self.rep.distinct("nontrivial", &class);
    let claims: Value = match serde_json::from_str(&claims_text) {
      Ok(v) => v,
      Err(e) => return self.viol("serialize_jwt-not-json", format!("claims text is not JSON: {}", e), &case),
    };
    let mut case = case;
    case["claims"] = claims.clone();
    if self.rep.want_sample() {
      self.rep.sample(case.clone());
    }
    // registered claims carried exactly once
    let iss_want = match &spec.issuer_props {
      None => json!(spec.issuer),
      Some(_) => vc_json["issuer"].clone(),
    };
    if claims.get("iss") != Some(&iss_want) {
      self.viol("claims-iss", format!("iss = {:?}, issuer = {}", claims.get("iss"), iss_want), &case);
    }
    if claims.get("sub") != spec.subject_id.as_ref().map(|s| json!(s)).as_ref() {
      self.viol("claims-sub", format!("sub = {:?}, subject id = {:?}", claims.get("sub"), spec.subject_id), &case);
    }
    if claims.get("jti") != spec.id.as_ref().map(|s| json!(s)).as_ref() {
      self.viol("claims-jti", format!("jti = {:?}, id = {:?}", claims.get("jti"), spec.id), &case);
    }
    if claims.get("nbf") != Some(&json!(spec.issuance)) {
      self.viol("claims-nbf", format!("nbf = {:?}, issuance = {}", claims.get("nbf"), spec.issuance), &case);
    }
    if claims.get("exp") != spec.expiration.map(|e| json!(e)).as_ref() {
      self.viol("claims-exp", format!("exp = {:?}, expiration = {:?}", claims.get("exp"), spec.expiration), &case);
    }
    let vc = claims.get("vc").cloned().unwrap_or(Value::Null);
    for dup in ["id", "issuer", "issuanceDate", "expirationDate"] {
      if vc.get(dup).is_some() {
        self.viol(&format!("vc-repeats-{}", dup), format!("vc repeats {} although it is carried by a registered claim", dup), &case);
      }
    }
    if vc.get("credentialSubject").and_then(|s| s.get("id")).is_some() {
      self.viol("vc-repeats-subject-id", "vc.credentialSubject repeats id although it is carried by sub".into(), &case);
    }
    for (k, v) in &custom {
      if claims.get(k) != Some(v) {
        self.viol("custom-claim-lost", format!("custom claim {} missing or altered", k), &case);
      }
    }
    // back conversion
    if did_issuer {
      self.rep.inc("credential_backconversions");
      match self.back_credential(&issuer, &claims_text) {
        Err(p) => self.viol(&format!("verify_signature-panic@{}", p.file_only()), format!("{} at {}", p.msg, p.loc()), &case),
        Ok(Err(e)) => self.viol("own-claims-rejected:credential", format!("claims produced by serialize_jwt were rejected: {}", e), &case),
        Ok(Ok((back, cc))) => {
          if back != cred {
            let mut c2 = case.clone();
            c2["reconstructed"] = serde_json::to_value(&back).unwrap_or(Value::Null);
            self.viol("credential-roundtrip-differs", "credential -> claims -> credential is not the identity".into(), &c2);
          }
          if cc.clone().filter(|o| !o.is_empty()) != custom_obj {
            self.viol("custom-claims-roundtrip-differs", format!("custom claims returned {:?}", cc), &case);
          }
        }
      }
    }
  }

  fn presentation_roundtrip(&mut self, rng: &mut Rng) {
    self.rep.eval();
    let holder = format!("did:example:holder{}", rng.below(50));
    let mut m = Map::new();
    let mut ctx = vec![json!(credgen::BASE_CONTEXT)];
    if rng.bool() {
      ctx.push(json!("https://example.com/ctx/v2"));
    }
    m.insert("@context".into(), if ctx.len() == 1 && rng.bool() { ctx[0].clone() } else { Value::Array(ctx) });
    m.insert("type".into(), if rng.bool() { json!("VerifiablePresentation") } else { json!(["VerifiablePresentation", "ExamplePresentation"]) });
    let id = if rng.bool() { Some(format!("https://example.edu/presentations/{}", rng.below(10_000))) } else { None };
    if let Some(id) = &id {
      m.insert("id".into(), json!(id));
    }
    m.insert("holder".into(), json!(holder));
    let ncred = rng.usize(3);
    if ncred > 0 {
      let creds: Vec<Value> = (0..ncred).map(|i| json!(format!("eyJhbGciOiJFZERTQSJ9.e30.c2ln{}", i))).collect();
      m.insert("verifiableCredential".into(), Value::Array(creds));
    }
    if rng.chance(1, 3) {
      m.insert("refreshService".into(), json!({"id":"https://example.com/refresh/1","type":"ManualRefreshService2018"}));
    }
    if rng.chance(1, 3) {
      m.insert("termsOfUse".into(), json!([{"type":"IssuerPolicy","id":"https://example.com/policies/1","profile":"x"}]));
    }
    if rng.chance(1, 3) {
      m.insert("extraProp".into(), json!({"a":[1,2,{"b":null}]}));
    }
    if rng.chance(1, 4) {
      m.insert("proof".into(), json!({"type":"ExampleProof2099","v":"z1"}));
    }
    let pjson = Value::Object(m);
    let exp = if rng.bool() { Some(rng.range_i64(T_MIN, T_MAX)) } else { None };
    let iat = if rng.bool() { Some(rng.range_i64(T_MIN, T_MAX)) } else { None };
    let aud = if rng.bool() { Some(format!("did:example:verifier{}", rng.below(9))) } else { None };
    let custom = gen_custom_claims(rng);
    let case = json!({"presentation": pjson, "exp": exp, "issuance": iat, "aud": aud, "custom_claims": custom});
    let pres: Presentation<Jwt> = match catch(|| Presentation::<Jwt>::from_json_value(pjson.clone())) {
      Err(p) => return self.viol(&format!("presentation-from-json-panic@{}", p.file_only()), p.msg.clone(), &case),
      Ok(Err(_)) => {
        self.rep.inc("generated_presentation_rejected");
        return;
      }
      Ok(Ok(p)) => p,
    };
    let custom_obj: Option<Object> = if custom.is_empty() { None } else { Some(custom.clone().into_iter().collect()) };
    let opts = JwtPresentationOptions {
      expiration_date: exp.map(|e| Timestamp::from_unix(e).unwrap()),
      issuance_date: iat.map(|e| Timestamp::from_unix(e).unwrap()),
      audience: aud.as_ref().map(|a| Url::parse(a).unwrap()),
      custom_claims: custom_obj.clone(),
    };
    let claims_text = match catch(|| pres.serialize_jwt(&opts)) {
      Err(p) => return self.viol(&format!("presentation-serialize_jwt-panic@{}", p.file_only()), p.msg.clone(), &case),
      Ok(Err(e)) => return self.viol("presentation-serialize_jwt-refused", format!("{}", e), &case),
      Ok(Ok(t)) => t,
    };
    self.rep.inc("presentations_serialized");
    self.rep.distinct("nontrivial", &format!("pres|id:{}|exp:{}|iat:{}|aud:{}|ncred:{}|custom:{}", id.is_some(), exp.is_some(), iat.is_some(), aud.is_some(), ncred, !custom.is_empty()));
    let claims: Value = serde_json::from_str(&claims_text).unwrap_or(Value::Null);
    let mut case = case;
    case["claims"] = claims.clone();
    if claims.get("iss") != Some(&json!(holder)) {
      self.viol("pres-claims-iss", format!("iss = {:?}", claims.get("iss")), &case);
    }
    if claims.get("jti") != id.as_ref().map(|s| json!(s)).as_ref() {
      self.viol("pres-claims-jti", format!("jti = {:?}", claims.get("jti")), &case);
    }
    if claims.get("exp") != exp.map(|e| json!(e)).as_ref() {
      self.viol("pres-claims-exp", format!("exp = {:?}", claims.get("exp")), &case);
    }
    let issued = claims.get("nbf").or_else(|| claims.get("iat")).cloned();
    if issued != iat.map(|e| json!(e)) {
      self.viol("pres-claims-issuance", format!("nbf/iat = {:?}, issuance = {:?}", issued, iat), &case);
    }
    if claims.get("aud") != aud.as_ref().map(|s| json!(s)).as_ref() {
      self.viol("pres-claims-aud", format!("aud = {:?}", claims.get("aud")), &case);
    }
    let vp = claims.get("vp").cloned().unwrap_or(Value::Null);
    for dup in ["id", "holder"] {
      if vp.get(dup).is_some() {
        self.viol(&format!("vp-repeats-{}", dup), format!("vp repeats {}", dup), &case);
      }
    }
    // back conversion through the presentation validator
    let hdr = header(&holder);
    let token = jwt_with_sig(&hdr, &serde_json::from_str::<Value>(&claims_text).unwrap(), &[0u8; 64]);
    // use the exact text produced by the library as the payload
    let token = {
      let parts: Vec<&str> = token.split('.').collect();
      format!("{}.{}.{}", parts[0], vh::b64::url_encode(claims_text.as_bytes()), parts[2])
    };
    let doc = doc_for(&holder);
    let vopts = JwtPresentationValidationOptions::new()
      .earliest_expiry_date(Timestamp::from_unix(T_MIN).unwrap())
      .latest_issuance_date(Timestamp::from_unix(T_MAX).unwrap());
    self.rep.inc("presentation_backconversions");
    let r = catch(|| {
      JwtPresentationValidator::with_signature_verifier(liar())
        .validate::<_, Jwt, Object>(&Jwt::new(token), &doc, &vopts)
        .map(|d| (d.presentation, d.aud, d.expiration_date, d.issuance_date, d.custom_claims))
        .map_err(|e| format!("{}", e))
    });
    match r {
      Err(p) => self.viol(&format!("presentation-validate-panic@{}", p.file_only()), format!("{} at {}", p.msg, p.loc()), &case),
      Ok(Err(e)) => self.viol("own-claims-rejected:presentation", format!("claims produced by serialize_jwt were rejected: {}", e), &case),
      Ok(Ok((back, baud, bexp, biat, bcustom))) => {
        if back != pres {
          self.viol("presentation-roundtrip-differs", "presentation -> claims -> presentation is not the identity".into(), &case);
        }
        if baud.as_ref().map(|u| u.to_string()) != aud || bexp.map(|t| t.to_unix()) != exp || biat.map(|t| t.to_unix()) != iat || bcustom.clone().filter(|o| !o.is_empty()) != custom_obj {
          self.viol("presentation-registered-claims-roundtrip", format!("aud/exp/issuance/custom returned: {:?} {:?} {:?} {:?}", baud, bexp, biat, bcustom), &case);
        }
      }
    }
  }

  /// Tampered credential claim sets: each duplicated member absent / equal / different, numeric dates at the range ends.
  fn tampered_credential(&mut self, rng: &mut Rng, idx: u64) {
    self.rep.eval();
    let issuer = "did:example:issuer-t";
    let base_t = 1_600_000_000i64;
    let mut spec: CredSpec = CredSpec::minimal(issuer, Some("did:example:subject-t"), base_t);
    spec.id = Some("https://example.edu/credentials/1".into());
    spec.expiration = Some(base_t + 1000);
    let mut claims = spec.claims_json(&Map::new());
    let mut must_reject: Vec<&'static str> = Vec::new();
    let mut may_reject = false; // latitude: duplicate present while the registered claim is absent
    // ... but if such a set is accepted the duplicated value must not be silently dropped or replaced
    let mut carried_exp: Option<Option<i64>> = None;
    let mut carried_id: Option<String> = None;
    let mut carried_sub: Option<String> = None;
    let mut desc: Vec<String> = Vec::new();
    let mut vc = claims["vc"].as_object().unwrap().clone();
    // decode idx in mixed radix for the exhaustive part; random beyond
    let mut d = idx;
    let mut digit = |n: u64| {
      let r = d % n;
      d /= n;
      r
    };
    // issuer duplicate (URL and object forms)
    match digit(6) {
      1 => {
        vc.insert("issuer".into(), json!(issuer));
        desc.push("vc.issuer=equal".into());
      }
      2 => {
        vc.insert("issuer".into(), json!("did:example:someone-else"));
        desc.push("vc.issuer=different".into());
        must_reject.push("issuer");
      }
      3 => {
        // same id, but the duplicate is an object carrying more than the registered claim says
        vc.insert("issuer".into(), json!({"id": issuer, "name": "Example University"}));
        desc.push("vc.issuer=object-vs-url".into());
        must_reject.push("issuer");
      }
      4 => {
        claims.insert("iss".into(), json!({"id": issuer, "name": "Example University"}));
        vc.insert("issuer".into(), json!({"id": issuer, "name": "Another Name"}));
        desc.push("vc.issuer=object-differs-in-member".into());
        must_reject.push("issuer");
      }
      5 => {
        claims.insert("iss".into(), json!({"id": issuer, "name": "Example University"}));
        vc.insert("issuer".into(), json!({"id": issuer, "name": "Example University"}));
        desc.push("vc.issuer=object-equal".into());
      }
      _ => {}
    }
    // issuanceDate duplicate
    match digit(4) {
      3 => {
        // equals what `iat` says in the iat+nbf vector below, never what the decisive claim says
        vc.insert("issuanceDate".into(), json!(rfc3339(base_t - 500)));
        desc.push("vc.issuanceDate=equals-iat-not-nbf".into());
        must_reject.push("issuanceDate");
      }
      1 => {
        vc.insert("issuanceDate".into(), json!(rfc3339(base_t)));
        desc.push("vc.issuanceDate=equal".into());
      }
      2 => {
        vc.insert("issuanceDate".into(), json!(rfc3339(base_t + 1)));
        desc.push("vc.issuanceDate=different".into());
        must_reject.push("issuanceDate");
      }
      _ => {}
    }
    // expirationDate duplicate x exp present
    let exp_present = digit(2) == 0;
    if !exp_present {
      claims.remove("exp");
      desc.push("exp=absent".into());
    }
    match digit(3) {
      1 => {
        vc.insert("expirationDate".into(), json!(rfc3339(base_t + 1000)));
        desc.push("vc.expirationDate=equal".into());
        if !exp_present {
          may_reject = true;
          carried_exp = Some(Some(base_t + 1000));
        }
      }
      2 => {
        vc.insert("expirationDate".into(), json!(rfc3339(base_t + 999)));
        desc.push("vc.expirationDate=different".into());
        if exp_present {
          must_reject.push("expirationDate");
        } else {
          may_reject = true;
          carried_exp = Some(Some(base_t + 999));
        }
      }
      _ => {}
    }
    // id duplicate x jti present
    let jti_present = digit(2) == 0;
    if !jti_present {
      claims.remove("jti");
      desc.push("jti=absent".into());
    }
    match digit(3) {
      1 => {
        vc.insert("id".into(), json!("https://example.edu/credentials/1"));
        desc.push("vc.id=equal".into());
        if !jti_present {
          may_reject = true;
          carried_id = Some("https://example.edu/credentials/1".into());
        }
      }
      2 => {
        vc.insert("id".into(), json!("https://example.edu/credentials/2"));
        desc.push("vc.id=different".into());
        if jti_present {
          must_reject.push("id");
        } else {
          may_reject = true;
          carried_id = Some("https://example.edu/credentials/2".into());
        }
      }
      _ => {}
    }
    // subject id duplicate x sub present
    let sub_present = digit(2) == 0;
    if !sub_present {
      claims.remove("sub");
      desc.push("sub=absent".into());
    }
    match digit(3) {
      1 => {
        vc["credentialSubject"]["id"] = json!("did:example:subject-t");
        desc.push("vc.credentialSubject.id=equal".into());
        if !sub_present {
          may_reject = true;
          carried_sub = Some("did:example:subject-t".into());
        }
      }
      2 => {
        vc["credentialSubject"]["id"] = json!("did:example:subject-other");
        desc.push("vc.credentialSubject.id=different".into());
        if sub_present {
          must_reject.push("credentialSubject.id");
        } else {
          may_reject = true;
          carried_sub = Some("did:example:subject-other".into());
        }
      }
      _ => {}
    }
    // iat / nbf
    let mut expect_issuance: Option<i64> = Some(base_t);
    match digit(4) {
      1 => {
        claims.insert("iat".into(), json!(base_t - 500));
        desc.push("iat+nbf(differ)".into());
      }
      2 => {
        claims.remove("nbf");
        claims.insert("iat".into(), json!(base_t));
        desc.push("iat-only".into());
      }
      3 => {
        claims.remove("nbf");
        desc.push("neither-iat-nor-nbf".into());
        expect_issuance = None;
        may_reject = true;
      }
      _ => {}
    }
    // numeric date extremes (only on a claim that is present and used)
    const EXTREMES: [i64; 8] = [T_MIN - 1, T_MIN, T_MAX, T_MAX + 1, i64::MIN, i64::MAX, -62_167_219_201 - 86_400 * 400, 253_402_300_800 + 86_400];
    if rng.chance(1, 3) {
      let v = *rng.pick(&EXTREMES);
      let in_range = (T_MIN..=T_MAX).contains(&v);
      let which = rng.below(2);
      if which == 0 && exp_present && !vc.contains_key("expirationDate") {
        claims.insert("exp".into(), json!(v));
        desc.push(format!("exp={}", v));
        if !in_range {
          must_reject.push("exp-out-of-range");
        }
      } else if claims.contains_key("nbf") && !vc.contains_key("issuanceDate") {
        claims.insert("nbf".into(), json!(v));
        desc.push(format!("nbf={}", v));
        expect_issuance = Some(v);
        if !in_range {
          must_reject.push("nbf-out-of-range");
        }
      } else if claims.contains_key("iat") && !claims.contains_key("nbf") && !vc.contains_key("issuanceDate") {
        claims.insert("iat".into(), json!(v));
        desc.push(format!("iat={}", v));
        expect_issuance = Some(v);
        if !in_range {
          must_reject.push("iat-out-of-range");
        }
      }
    }
    claims.insert("vc".into(), Value::Object(vc));
    let claims_v = Value::Object(claims);
    let case = json!({"claims": claims_v, "tampering": desc, "must_reject_because": must_reject});
    self.rep.distinct("nontrivial", &format!("tamper|{}", desc.join(",").replace(|c: char| c.is_ascii_digit() || c == '-', "")));
    match self.back_credential(issuer, &claims_v.to_string()) {
      Err(p) => self.viol(&format!("verify_signature-panic@{}", p.file_only()), format!("{} at {}", p.msg, p.loc()), &case),
      Ok(Err(_)) => {
        self.rep.inc("tampered_rejected");
        if must_reject.is_empty() && !may_reject {
          self.rep.inc("consistent_claims_rejected");
        }
      }
      Ok(Ok((cred, _))) => {
        self.rep.inc("tampered_accepted");
        if let Some(why) = must_reject.first() {
          self.viol(&format!("inconsistent-claims-accepted:{}", why), format!("claims set accepted although {:?}", must_reject), &case);
        }
        let t = cred.issuance_date.to_unix();
        if !(T_MIN..=T_MAX).contains(&t) || cred.expiration_date.map(|e| !(T_MIN..=T_MAX).contains(&e.to_unix())).unwrap_or(false) {
          self.viol("accepted-date-out-of-range", "accepted credential carries a date outside 0000-9999".into(), &case);
        }
        // a duplicated value whose registered claim is absent may be refused, but not silently dropped
        if must_reject.is_empty() {
          if let Some(want) = &carried_exp {
            if cred.expiration_date.map(|e| e.to_unix()) != *want {
              self.viol("duplicate-without-registered-claim-silently-dropped:expirationDate", format!("accepted, but expiration is {:?} while vc.expirationDate says {:?}", cred.expiration_date, want), &case);
            }
          }
          if let Some(want) = &carried_id {
            if cred.id.as_ref().map(|u| u.to_string()).as_ref() != Some(want) {
              self.viol("duplicate-without-registered-claim-silently-dropped:id", format!("accepted, but id is {:?} while vc.id says {}", cred.id, want), &case);
            }
          }
          if let Some(want) = &carried_sub {
            let got = cred.credential_subject.iter().next().and_then(|s| s.id.as_ref().map(|u| u.to_string()));
            if got.as_ref() != Some(want) {
              self.viol("duplicate-without-registered-claim-silently-dropped:credentialSubject.id", format!("accepted, but subject id is {:?} while vc.credentialSubject.id says {}", got, want), &case);
            }
          }
        }
        if let Some(want) = expect_issuance {
          if must_reject.is_empty() && t != want {
            self.viol("issuance-date-source", format!("issuance date {} but nbf (else iat) says {}", t, want), &case);
          }
        }
      }
    }
  }

  fn tampered_presentation(&mut self, rng: &mut Rng, idx: u64) {
    self.rep.eval();
    let holder = "did:example:holder-t";
    let mut claims = Map::new();
    claims.insert("iss".into(), json!(holder));
    claims.insert("jti".into(), json!("https://example.edu/presentations/1"));
    let mut vp = Map::new();
    vp.insert("@context".into(), json!(credgen::BASE_CONTEXT));
    vp.insert("type".into(), json!("VerifiablePresentation"));
    vp.insert("verifiableCredential".into(), json!([]));
    let mut must_reject: Vec<&'static str> = Vec::new();
    let mut may_reject = false;
    let mut carried_id: Option<String> = None;
    let mut desc: Vec<String> = Vec::new();
    let mut d = idx;
    let mut digit = |n: u64| {
      let r = d % n;
      d /= n;
      r
    };
    let jti_present = digit(2) == 0;
    if !jti_present {
      claims.remove("jti");
      desc.push("jti=absent".into());
    }
    match digit(3) {
      1 => {
        vp.insert("id".into(), json!("https://example.edu/presentations/1"));
        desc.push("vp.id=equal".into());
        if !jti_present {
          may_reject = true;
          carried_id = Some("https://example.edu/presentations/1".into());
        }
      }
      2 => {
        vp.insert("id".into(), json!("https://example.edu/presentations/2"));
        desc.push("vp.id=different".into());
        if jti_present {
          must_reject.push("id");
        } else {
          may_reject = true;
          carried_id = Some("https://example.edu/presentations/2".into());
        }
      }
      _ => {}
    }
    match digit(3) {
      1 => {
        vp.insert("holder".into(), json!(holder));
        desc.push("vp.holder=equal".into());
      }
      2 => {
        vp.insert("holder".into(), json!("did:example:holder-other"));
        desc.push("vp.holder=different".into());
        must_reject.push("holder");
      }
      _ => {}
    }
    const EXTREMES: [i64; 6] = [T_MIN - 1, T_MIN, T_MAX, T_MAX + 1, i64::MIN, i64::MAX];
    match digit(5) {
      4 => {
        // both issuance claims present: nbf is the one the conversion uses, so an unrepresentable nbf is not rescued by a valid iat
        let v = *rng.pick(&[T_MIN - 1, T_MAX + 1, i64::MIN, i64::MAX]);
        claims.insert("nbf".into(), json!(v));
        claims.insert("iat".into(), json!(1_600_000_000i64 + rng.below(1000) as i64));
        desc.push(format!("nbf={}+iat=valid", v));
        must_reject.push("nbf-out-of-range");
      }
      1 => {
        let v = *rng.pick(&EXTREMES);
        claims.insert("exp".into(), json!(v));
        desc.push(format!("exp={}", v));
        if !(T_MIN..=T_MAX).contains(&v) {
          must_reject.push("exp-out-of-range");
        }
      }
      2 => {
        let v = *rng.pick(&EXTREMES);
        claims.insert("nbf".into(), json!(v));
        desc.push(format!("nbf={}", v));
        if !(T_MIN..=T_MAX).contains(&v) {
          must_reject.push("nbf-out-of-range");
        }
      }
      3 => {
        let v = *rng.pick(&EXTREMES);
        claims.insert("iat".into(), json!(v));
        desc.push(format!("iat={}", v));
        if !(T_MIN..=T_MAX).contains(&v) {
          must_reject.push("iat-out-of-range");
        }
      }
      _ => {}
    }
    claims.insert("vp".into(), Value::Object(vp));
    let claims_v = Value::Object(claims);
    let case = json!({"claims": claims_v, "tampering": desc, "must_reject_because": must_reject});
    self.rep.distinct("nontrivial", &format!("ptamper|{}", desc.join(",").replace(|c: char| c.is_ascii_digit() || c == '-', "")));
    let token = jwt_with_sig(&header(holder), &claims_v, &[0u8; 64]);
    let doc = doc_for(holder);
    let vopts = JwtPresentationValidationOptions::new()
      .earliest_expiry_date(Timestamp::from_unix(T_MIN).unwrap())
      .latest_issuance_date(Timestamp::from_unix(T_MAX).unwrap());
    let r = catch(|| {
      JwtPresentationValidator::with_signature_verifier(liar())
        .validate::<_, Jwt, Object>(&Jwt::new(token), &doc, &vopts)
        .ok()
        .map(|d| d.presentation.id.map(|u| u.to_string()))
    });
    let r = r.map(|o| {
      if let (Some(got), Some(want), true) = (&o, &carried_id, must_reject.is_empty()) {
        if got.as_ref() != Some(want) {
          self.viol("duplicate-without-registered-claim-silently-dropped:vp.id", format!("accepted, but presentation id is {:?} while vp.id says {}", got, want), &case);
        }
      }
      o.is_some()
    });
    match r {
      Err(p) => self.viol(&format!("presentation-validate-panic@{}", p.file_only()), format!("{} at {}", p.msg, p.loc()), &case),
      Ok(false) => {
        self.rep.inc("tampered_rejected");
        if must_reject.is_empty() && !may_reject {
          self.rep.inc("consistent_claims_rejected");
        }
      }
      Ok(true) => {
        self.rep.inc("tampered_accepted");
        if let Some(why) = must_reject.first() {
          self.viol(&format!("inconsistent-presentation-claims-accepted:{}", why), format!("claims set accepted although {:?}", must_reject), &case);
        }
      }
    }
  }
}

fn main() {
  let args = Args::parse();
  let scale = args.extra_u64("scale", 1000);
  let mut cx = Cx { rep: Report::new("C07") };
  cx.rep.rule(
    "credentials/presentations generated over every optional field (issuer URL/DID/object, subject id, id, expiry, status, schema, refresh \
     service, terms of use, evidence, nonTransferable, extra properties, proof, custom claims, one-or-many forms) -> serialize_jwt -> claims \
     shape checks -> back-conversion through the validators with an always-Ok verifier; tampered claim sets enumerated over each duplicated \
     member absent/equal/different x registered claim present/absent x iat/nbf combinations x numeric dates at the range ends. \
     distinct = field-presence class of the generated value resp. the tampering vector",
  );
  let mut rng = args.rng(7);
  let n = (if args.thorough { 12_000_000u64 } else { 6_000 } * scale / 1000 / args.nshards).max(30);
  for _ in 0..n {
    cx.credential_roundtrip(&mut rng);
  }
  for _ in 0..n / 3 {
    cx.presentation_roundtrip(&mut rng);
  }
  // tampered credential claims: 6*4*2*3*2*3*2*3*4 = 20736 vectors, all enumerated (x date extremes drawn at random)
  let reps = if args.thorough { 40 } else { 1 };
  let mut k = 0u64;
  for _ in 0..reps {
    for idx in 0..20736u64 {
      k += 1;
      if args.mine(k) && (scale >= 1000 || idx % (1000 / scale.max(1)) == 0) {
        cx.tampered_credential(&mut rng, idx);
      }
    }
    for idx in 0..90u64 {
      k += 1;
      if args.mine(k) {
        for _ in 0..4 {
          cx.tampered_presentation(&mut rng, idx);
        }
      }
    }
  }
  cx.rep.finish();
}
