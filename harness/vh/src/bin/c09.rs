//! C09 — Storage-backed method generation/purge is all-or-nothing under storage faults.
//!
//! Events: `FaultyJwk` / `FaultyIds` wrap the real in-memory stores, log every call
//! `(op, occurrence#, injected?)` and inject faults (error returned, effect NOT performed).
//! Oracle: before/after snapshots of document (as sets), key store and key-id store.
//! Workload: exhaustive fault-plan enumeration (call universe discovered by running) over a grid of
//! documents/targets, plus seeded random generate/purge histories with random fault masks.
//! The grid also covers: key stores whose generated public JWK carries no / a custom `kid` (the API allows both),
//! purge targets that did not come from generate_method (JWK methods the stores do not or only half know,
//! non-JWK methods with decodable / undecodable / custom key material — the empty fault set is a fault set too),
//! and documents that hold a method / service / reference of ANOTHER DID with the target's fragment.
use std::collections::{BTreeMap, BTreeSet};
use std::future::Future;
use std::pin::Pin;
use std::sync::{Arc, Mutex};
use std::task::{Context, Poll};

use async_trait::async_trait;
use crypto::signatures::ed25519 as ed;
use futures::executor::block_on;
use identity_core::common::Object;
use identity_core::convert::FromJson;
use identity_did::CoreDID;
use identity_document::document::CoreDocument;
use identity_document::service::Service;
use identity_document::verifiable::JwsVerificationOptions;
use identity_eddsa_verifier::EdDSAJwsVerifier;
use identity_iota_core::{IotaDID, IotaDocument};
use identity_storage::{
  JwkDocumentExt, JwkGenOutput, JwkMemStore, JwkStorage, JwkStorageDocumentError, JwsSignatureOptions, KeyId, KeyIdMemstore,
  KeyIdStorage, KeyIdStorageError, KeyIdStorageErrorKind, KeyIdStorageResult, KeyStorageError, KeyStorageErrorKind,
  KeyStorageResult, KeyType, MethodDigest, Storage,
};
use identity_verification::jose::jwk::Jwk;
use identity_verification::jose::jws::JwsAlgorithm;
use identity_verification::{MethodData, MethodRelationship, MethodScope, VerificationMethod};
use serde_json::{json, Value};
use vh::panicmon::catch;
use vh::{Args, Report, Rng};

// ====================================================================================================
// Fault-injecting stores
// ====================================================================================================

#[derive(Clone, Copy, Debug, PartialEq, Eq, PartialOrd, Ord, Hash)]
enum Op {
  KGenerate,
  KInsert,
  KSign,
  KDelete,
  KExists,
  IInsert,
  IGet,
  IDelete,
}

impl Op {
  fn name(self) -> &'static str {
    match self {
      Op::KGenerate => "key.generate",
      Op::KInsert => "key.insert",
      Op::KSign => "key.sign",
      Op::KDelete => "key.delete",
      Op::KExists => "key.exists",
      Op::IInsert => "keyid.insert_key_id",
      Op::IGet => "keyid.get_key_id",
      Op::IDelete => "keyid.delete_key_id",
    }
  }
}

type Call = (Op, u32);
type Log = Vec<(Op, u32, bool)>;

fn call_name(c: &Call) -> String {
  format!("{}#{}", c.0.name(), c.1)
}

#[derive(Clone, Debug)]
enum Plan {
  /// pass-through, nothing logged
  Off,
  /// the listed call occurrences fail
  Set(BTreeSet<Call>),
  /// the n-th intercepted call (any op) fails iff bit n is set
  Mask(u64),
}

struct Ctl {
  plan: Plan,
  occ: BTreeMap<Op, u32>,
  seq: u32,
  log: Log,
  /// every key id the key store ever handed out
  issued: BTreeSet<String>,
  /// every digest ever presented to the key-id store
  digests: BTreeMap<Vec<u8>, MethodDigest>,
  yield_k_delete: bool,
  yield_i_delete: bool,
  err_variant: u8,
  kid_mode: KidMode,
}

/// What the key store does with the `kid` member of the public JWK it returns from `generate`
/// (the JwkStorage contract leaves it to the implementation; generate_method documents both cases).
#[derive(Clone, Debug, PartialEq, Eq)]
enum KidMode {
  /// whatever the in-memory store sets (the key's thumbprint)
  Keep,
  /// no kid member at all
  Strip,
  /// this text
  Set(String),
}

impl KidMode {
  fn class(&self) -> &'static str {
    match self {
      KidMode::Keep => "keep",
      KidMode::Strip => "strip",
      KidMode::Set(_) => "set",
    }
  }
}

impl Ctl {
  fn enter(&mut self, op: Op) -> bool {
    if let Plan::Off = self.plan {
      return false;
    }
    let o = self.occ.entry(op).or_insert(0);
    *o += 1;
    let occ = *o;
    let inj = match &self.plan {
      Plan::Set(s) => s.contains(&(op, occ)),
      Plan::Mask(m) => self.seq < 64 && (m >> self.seq) & 1 == 1,
      Plan::Off => false,
    };
    self.seq += 1;
    self.log.push((op, occ, inj));
    inj
  }
  fn see_digest(&mut self, d: &MethodDigest) {
    self.digests.entry(d.pack()).or_insert_with(|| d.clone());
  }
}

type SharedCtl = Arc<Mutex<Ctl>>;

struct YieldOnce(bool);
impl Future for YieldOnce {
  type Output = ();
  fn poll(mut self: Pin<&mut Self>, cx: &mut Context<'_>) -> Poll<()> {
    if self.0 {
      Poll::Ready(())
    } else {
      self.0 = true;
      cx.waker().wake_by_ref();
      Poll::Pending
    }
  }
}

struct FaultyJwk {
  inner: JwkMemStore,
  ctl: SharedCtl,
}

struct FaultyIds {
  inner: KeyIdMemstore,
  ctl: SharedCtl,
}

fn kerr(v: u8) -> KeyStorageError {
  // any failure kind counts, including the kinds a backend uses for "no such entry" (a store that lost sight of an entry is a fault too)
  KeyStorageError::new(match v % 5 {
    0 => KeyStorageErrorKind::RetryableIOFailure,
    1 => KeyStorageErrorKind::Unavailable,
    2 => KeyStorageErrorKind::Unauthenticated,
    3 => KeyStorageErrorKind::KeyNotFound,
    _ => KeyStorageErrorKind::Unspecified,
  })
  .with_custom_message("injected fault")
}

fn ierr(v: u8) -> KeyIdStorageError {
  KeyIdStorageError::new(match v % 5 {
    0 => KeyIdStorageErrorKind::RetryableIOFailure,
    1 => KeyIdStorageErrorKind::Unavailable,
    2 => KeyIdStorageErrorKind::Unspecified,
    3 => KeyIdStorageErrorKind::KeyIdNotFound,
    _ => KeyIdStorageErrorKind::KeyIdAlreadyExists,
  })
  .with_custom_message("injected fault")
}

#[async_trait]
impl JwkStorage for FaultyJwk {
  async fn generate(&self, key_type: KeyType, alg: JwsAlgorithm) -> KeyStorageResult<JwkGenOutput> {
    let (inj, v) = {
      let mut c = self.ctl.lock().unwrap();
      (c.enter(Op::KGenerate), c.err_variant)
    };
    if inj {
      return Err(kerr(v));
    }
    let out = self.inner.generate(key_type, alg).await?;
    let mode = {
      let mut c = self.ctl.lock().unwrap();
      c.issued.insert(out.key_id.as_str().to_owned());
      c.kid_mode.clone()
    };
    let out = match mode {
      KidMode::Keep => out,
      KidMode::Strip => {
        // same public key and alg, no kid
        let mut jwk = match out.jwk.try_okp_params() {
          Ok(p) => Jwk::from_params(p.clone()),
          Err(_) => panic!("harness: memstore generated a non-OKP key"),
        };
        if let Some(a) = out.jwk.alg() {
          jwk.set_alg(a.to_owned());
        }
        JwkGenOutput::new(out.key_id, jwk)
      }
      KidMode::Set(k) => {
        let mut jwk = out.jwk;
        jwk.set_kid(k);
        JwkGenOutput::new(out.key_id, jwk)
      }
    };
    Ok(out)
  }

  async fn insert(&self, jwk: Jwk) -> KeyStorageResult<KeyId> {
    let (inj, v) = {
      let mut c = self.ctl.lock().unwrap();
      (c.enter(Op::KInsert), c.err_variant)
    };
    if inj {
      return Err(kerr(v));
    }
    let kid = self.inner.insert(jwk).await?;
    self.ctl.lock().unwrap().issued.insert(kid.as_str().to_owned());
    Ok(kid)
  }

  async fn sign(&self, key_id: &KeyId, data: &[u8], public_key: &Jwk) -> KeyStorageResult<Vec<u8>> {
    let (inj, v) = {
      let mut c = self.ctl.lock().unwrap();
      (c.enter(Op::KSign), c.err_variant)
    };
    if inj {
      return Err(kerr(v));
    }
    self.inner.sign(key_id, data, public_key).await
  }

  async fn delete(&self, key_id: &KeyId) -> KeyStorageResult<()> {
    let (inj, v, y) = {
      let mut c = self.ctl.lock().unwrap();
      (c.enter(Op::KDelete), c.err_variant, c.yield_k_delete)
    };
    if y {
      YieldOnce(false).await;
    }
    if inj {
      return Err(kerr(v));
    }
    self.inner.delete(key_id).await
  }

  async fn exists(&self, key_id: &KeyId) -> KeyStorageResult<bool> {
    let (inj, v) = {
      let mut c = self.ctl.lock().unwrap();
      (c.enter(Op::KExists), c.err_variant)
    };
    if inj {
      return Err(kerr(v));
    }
    self.inner.exists(key_id).await
  }
}

#[async_trait]
impl KeyIdStorage for FaultyIds {
  async fn insert_key_id(&self, method_digest: MethodDigest, key_id: KeyId) -> KeyIdStorageResult<()> {
    let (inj, v) = {
      let mut c = self.ctl.lock().unwrap();
      c.see_digest(&method_digest);
      (c.enter(Op::IInsert), c.err_variant)
    };
    if inj {
      return Err(ierr(v));
    }
    self.inner.insert_key_id(method_digest, key_id).await
  }

  async fn get_key_id(&self, method_digest: &MethodDigest) -> KeyIdStorageResult<KeyId> {
    let (inj, v) = {
      let mut c = self.ctl.lock().unwrap();
      c.see_digest(method_digest);
      (c.enter(Op::IGet), c.err_variant)
    };
    if inj {
      return Err(ierr(v));
    }
    self.inner.get_key_id(method_digest).await
  }

  async fn delete_key_id(&self, method_digest: &MethodDigest) -> KeyIdStorageResult<()> {
    let (inj, v, y) = {
      let mut c = self.ctl.lock().unwrap();
      c.see_digest(method_digest);
      (c.enter(Op::IDelete), c.err_variant, c.yield_i_delete)
    };
    if y {
      YieldOnce(false).await;
    }
    if inj {
      return Err(ierr(v));
    }
    self.inner.delete_key_id(method_digest).await
  }
}

type Store = Storage<FaultyJwk, FaultyIds>;

struct Env {
  st: Store,
  ctl: SharedCtl,
}

impl Env {
  fn new() -> Env {
    let ctl = Arc::new(Mutex::new(Ctl {
      plan: Plan::Off,
      occ: BTreeMap::new(),
      seq: 0,
      log: Vec::new(),
      issued: BTreeSet::new(),
      digests: BTreeMap::new(),
      yield_k_delete: false,
      yield_i_delete: false,
      err_variant: 0,
      kid_mode: KidMode::Keep,
    }));
    let st = Storage::new(
      FaultyJwk { inner: JwkMemStore::new(), ctl: ctl.clone() },
      FaultyIds { inner: KeyIdMemstore::new(), ctl: ctl.clone() },
    );
    Env { st, ctl }
  }
  fn arm(&self, plan: Plan) {
    let mut c = self.ctl.lock().unwrap();
    c.plan = plan;
    c.occ.clear();
    c.seq = 0;
    c.log.clear();
  }
  fn disarm(&self) -> Log {
    let mut c = self.ctl.lock().unwrap();
    c.plan = Plan::Off;
    std::mem::take(&mut c.log)
  }
  fn set_yield(&self, k: bool, i: bool) {
    let mut c = self.ctl.lock().unwrap();
    c.yield_k_delete = k;
    c.yield_i_delete = i;
  }
  fn set_err_variant(&self, v: u8) {
    self.ctl.lock().unwrap().err_variant = v;
  }
  fn set_kid_mode(&self, m: KidMode) {
    self.ctl.lock().unwrap().kid_mode = m;
  }
  /// Observes both stores through the *inner* (never failing, never logged) stores.
  fn snap(&self) -> StoreSnap {
    let (issued, digests): (Vec<String>, Vec<(Vec<u8>, MethodDigest)>) = {
      let c = self.ctl.lock().unwrap();
      (c.issued.iter().cloned().collect(), c.digests.iter().map(|(k, v)| (k.clone(), v.clone())).collect())
    };
    let ks = &self.st.key_storage().inner;
    let is = &self.st.key_id_storage().inner;
    let mut keys = BTreeMap::new();
    for k in issued {
      let e = block_on(ks.exists(&KeyId::new(k.clone()))).expect("memstore exists cannot fail");
      keys.insert(k, e);
    }
    let mut ids = BTreeMap::new();
    for (p, d) in digests {
      let v = block_on(is.get_key_id(&d)).ok().map(|k| k.as_str().to_owned());
      ids.insert(p, v);
    }
    StoreSnap { keys, key_count: block_on(ks.count()), ids, id_count: block_on(is.count()) }
  }
}

#[derive(Clone, Debug, PartialEq, Eq)]
struct StoreSnap {
  keys: BTreeMap<String, bool>,
  key_count: usize,
  ids: BTreeMap<Vec<u8>, Option<String>>,
  id_count: usize,
}

// ====================================================================================================
// Document abstraction and set model
// ====================================================================================================

const RELS: [(MethodRelationship, &str); 5] = [
  (MethodRelationship::Authentication, "authentication"),
  (MethodRelationship::AssertionMethod, "assertionMethod"),
  (MethodRelationship::KeyAgreement, "keyAgreement"),
  (MethodRelationship::CapabilityDelegation, "capabilityDelegation"),
  (MethodRelationship::CapabilityInvocation, "capabilityInvocation"),
];
const VM: &str = "verificationMethod";

fn scope_key(s: MethodScope) -> &'static str {
  match s {
    MethodScope::VerificationMethod => VM,
    MethodScope::VerificationRelationship(r) => RELS.iter().find(|(x, _)| *x == r).map(|(_, k)| *k).unwrap_or("?"),
  }
}

fn all_scopes() -> Vec<MethodScope> {
  let mut v = vec![MethodScope::VerificationMethod];
  v.extend(RELS.iter().map(|(r, _)| MethodScope::VerificationRelationship(*r)));
  v
}

trait Doc: Clone + Send + JwkDocumentExt {
  const NAME: &'static str;
  /// DIDs other than the document's own: [same method, other id], [other method / network, same id]
  const FOREIGN: [&'static str; 2];
  fn empty() -> Self;
  fn core(&self) -> &CoreDocument;
  /// whatever the document type carries besides the core document
  fn extra(&self) -> Value;
  /// same document with the core part replaced by `core` (JSON) — used to plant dangling references
  fn with_core_json(&self, core: Value) -> Option<Self>;
  fn add_method(&mut self, m: VerificationMethod, scope: MethodScope) -> bool;
  fn add_service(&mut self, s: Service) -> bool;
  fn attach(&mut self, frag: &str, rel: MethodRelationship) -> bool;
  fn detach(&mut self, frag: &str, rel: MethodRelationship) -> bool;
  fn did(&self) -> String {
    self.core().id().to_string()
  }
}

impl Doc for CoreDocument {
  const NAME: &'static str = "CoreDocument";
  const FOREIGN: [&'static str; 2] = ["did:bar:9oTherwPQGyvXCoihZq1BrbUjBRh2LuNxWiiqMkfAuSZr", "did:baz:Hyx62wPQGyvXCoihZq1BrbUjBRh2LuNxWiiqMkfAuSZr"];
  fn empty() -> Self {
    CoreDocument::builder(Object::new())
      .id(CoreDID::parse("did:bar:Hyx62wPQGyvXCoihZq1BrbUjBRh2LuNxWiiqMkfAuSZr").expect("did"))
      .build()
      .expect("empty core document")
  }
  fn core(&self) -> &CoreDocument {
    self
  }
  fn extra(&self) -> Value {
    Value::Null
  }
  fn with_core_json(&self, core: Value) -> Option<Self> {
    CoreDocument::from_json_value(core).ok()
  }
  fn add_method(&mut self, m: VerificationMethod, scope: MethodScope) -> bool {
    self.insert_method(m, scope).is_ok()
  }
  fn add_service(&mut self, s: Service) -> bool {
    self.insert_service(s).is_ok()
  }
  fn attach(&mut self, frag: &str, rel: MethodRelationship) -> bool {
    self.attach_method_relationship(frag, rel).unwrap_or(false)
  }
  fn detach(&mut self, frag: &str, rel: MethodRelationship) -> bool {
    self.detach_method_relationship(frag, rel).unwrap_or(false)
  }
}

impl Doc for IotaDocument {
  const NAME: &'static str = "IotaDocument";
  const FOREIGN: [&'static str; 2] = [
    "did:iota:rms:0x1111111111111111111111111111111111111111111111111111111111111111",
    "did:iota:smr:0xaabbccddeeff00112233445566778899aabbccddeeff00112233445566778899",
  ];
  fn empty() -> Self {
    IotaDocument::new_with_id(
      IotaDID::parse("did:iota:rms:0xaabbccddeeff00112233445566778899aabbccddeeff00112233445566778899").expect("iota did"),
    )
  }
  fn core(&self) -> &CoreDocument {
    self.core_document()
  }
  fn extra(&self) -> Value {
    serde_json::to_value(&self.metadata).expect("metadata to json")
  }
  fn with_core_json(&self, core: Value) -> Option<Self> {
    let mut v = serde_json::to_value(self).ok()?;
    v.as_object_mut()?.insert("doc".into(), core);
    IotaDocument::from_json_value(v).ok()
  }
  fn add_method(&mut self, m: VerificationMethod, scope: MethodScope) -> bool {
    self.insert_method(m, scope).is_ok()
  }
  fn add_service(&mut self, s: Service) -> bool {
    self.insert_service(s).is_ok()
  }
  fn attach(&mut self, frag: &str, rel: MethodRelationship) -> bool {
    self.attach_method_relationship(frag, rel).unwrap_or(false)
  }
  fn detach(&mut self, frag: &str, rel: MethodRelationship) -> bool {
    self.detach_method_relationship(frag, rel).unwrap_or(false)
  }
}

/// The document as sets: re-insertion at another position is not an observable loss.
#[derive(Clone, Debug, PartialEq, Eq)]
struct DocModel {
  /// (method id, scope key, method content)
  methods: BTreeSet<(String, String, String)>,
  /// (relationship key, referenced id)
  refs: BTreeSet<(String, String)>,
  /// (service id, content)
  services: BTreeSet<(String, String)>,
  /// every other member of the document (+ metadata) as text
  rest: String,
}

fn model_of<D: Doc>(doc: &D) -> DocModel {
  let v = serde_json::to_value(doc.core()).expect("document to json");
  let mut m = DocModel { methods: BTreeSet::new(), refs: BTreeSet::new(), services: BTreeSet::new(), rest: String::new() };
  let mut rest: BTreeMap<String, Value> = BTreeMap::new();
  let id_of = |e: &Value| e.get("id").and_then(|i| i.as_str()).unwrap_or("<no id>").to_owned();
  for (k, val) in v.as_object().expect("document is an object") {
    if k == VM {
      for e in val.as_array().into_iter().flatten() {
        m.methods.insert((id_of(e), VM.to_owned(), e.to_string()));
      }
    } else if RELS.iter().any(|(_, rk)| rk == k) {
      for e in val.as_array().into_iter().flatten() {
        match e.as_str() {
          Some(s) => {
            m.refs.insert((k.clone(), s.to_owned()));
          }
          None => {
            m.methods.insert((id_of(e), k.clone(), e.to_string()));
          }
        }
      }
    } else if k == "service" {
      for e in val.as_array().into_iter().flatten() {
        m.services.insert((id_of(e), e.to_string()));
      }
    } else {
      rest.insert(k.clone(), val.clone());
    }
  }
  rest.insert("<extra>".into(), doc.extra());
  m.rest = serde_json::to_string(&rest).expect("rest");
  m
}

#[derive(Clone, Debug)]
struct Snap {
  doc: DocModel,
  st: StoreSnap,
}

fn snap<D: Doc>(doc: &D, env: &Env) -> Snap {
  Snap { doc: model_of(doc), st: env.snap() }
}

/// Everything that differs between two snapshots. `is_target(id)` says whether a method id / reference id
/// belongs to the method the operation is about.
#[derive(Default, Debug)]
struct Diff {
  tags: BTreeSet<String>,
  new_methods: Vec<(String, String)>,
  lost_methods: Vec<(String, String)>,
  dropped_refs: Vec<(String, String)>,
  added_refs: Vec<(String, String)>,
  new_keys: Vec<String>,
  lost_keys: Vec<String>,
  new_ids: Vec<(Vec<u8>, String)>,
  lost_ids: Vec<(Vec<u8>, String)>,
}

fn diff(pre: &Snap, post: &Snap, is_target: &dyn Fn(&str) -> bool) -> Diff {
  let mut d = Diff::default();
  let t = |id: &str| if is_target(id) { "" } else { "other-" };
  // methods, grouped by id
  let ids: BTreeSet<&String> = pre.doc.methods.iter().chain(post.doc.methods.iter()).map(|(i, _, _)| i).collect();
  for id in ids {
    let a: Vec<(&String, &String)> = pre.doc.methods.iter().filter(|(i, _, _)| i == id).map(|(_, s, c)| (s, c)).collect();
    let b: Vec<(&String, &String)> = post.doc.methods.iter().filter(|(i, _, _)| i == id).map(|(_, s, c)| (s, c)).collect();
    if a == b {
      continue;
    }
    if b.is_empty() {
      d.tags.insert(format!("{}method-missing", t(id)));
      d.lost_methods.extend(a.iter().map(|(s, _)| (id.clone(), (*s).clone())));
    } else if a.is_empty() {
      d.tags.insert(format!("{}method-left", t(id)));
      d.new_methods.extend(b.iter().map(|(s, _)| (id.clone(), (*s).clone())));
    } else {
      let scopes_a: Vec<&String> = a.iter().map(|(s, _)| *s).collect();
      let scopes_b: Vec<&String> = b.iter().map(|(s, _)| *s).collect();
      if scopes_a != scopes_b {
        d.tags.insert(format!("{}method-scope-changed", t(id)));
      } else {
        d.tags.insert(format!("{}method-content-changed", t(id)));
      }
    }
  }
  for r in pre.doc.refs.difference(&post.doc.refs) {
    d.tags.insert(format!("{}refs-dropped", t(&r.1)));
    d.dropped_refs.push(r.clone());
  }
  for r in post.doc.refs.difference(&pre.doc.refs) {
    d.tags.insert(format!("{}refs-added", t(&r.1)));
    d.added_refs.push(r.clone());
  }
  if pre.doc.services != post.doc.services {
    d.tags.insert("services-changed".into());
  }
  if pre.doc.rest != post.doc.rest {
    d.tags.insert("properties-changed".into());
  }
  // key store
  let kids: BTreeSet<&String> = pre.st.keys.keys().chain(post.st.keys.keys()).collect();
  for k in kids {
    let a = pre.st.keys.get(k).copied().unwrap_or(false);
    let b = post.st.keys.get(k).copied().unwrap_or(false);
    if a && !b {
      d.tags.insert("key-lost".into());
      d.lost_keys.push(k.clone());
    } else if !a && b {
      d.tags.insert("key-left".into());
      d.new_keys.push(k.clone());
    }
  }
  let expect_keys = pre.st.key_count as i64 + d.new_keys.len() as i64 - d.lost_keys.len() as i64;
  if post.st.key_count as i64 != expect_keys {
    d.tags.insert("key-count-unexplained".into());
  }
  // key-id store
  let dg: BTreeSet<&Vec<u8>> = pre.st.ids.keys().chain(post.st.ids.keys()).collect();
  for g in dg {
    let a = pre.st.ids.get(g).cloned().flatten();
    let b = post.st.ids.get(g).cloned().flatten();
    match (a, b) {
      (Some(x), None) => {
        d.tags.insert("keyid-lost".into());
        d.lost_ids.push((g.clone(), x));
      }
      (None, Some(y)) => {
        d.tags.insert("keyid-left".into());
        d.new_ids.push((g.clone(), y));
      }
      (Some(x), Some(y)) if x != y => {
        d.tags.insert("keyid-changed".into());
      }
      _ => {}
    }
  }
  let expect_ids = pre.st.id_count as i64 + d.new_ids.len() as i64 - d.lost_ids.len() as i64;
  if post.st.id_count as i64 != expect_ids {
    d.tags.insert("keyid-count-unexplained".into());
  }
  d
}

// ====================================================================================================
// Oracles
// ====================================================================================================

#[derive(Clone, Copy, Debug, PartialEq, Eq)]
enum Kind {
  Ok,
  ErrClean,
  ErrUndo,
  Violation,
}

struct Outcome {
  kind: Kind,
  log: Log,
  frag: Option<String>,
}

fn fired(log: &Log) -> Vec<Call> {
  log.iter().filter(|(_, _, i)| *i).map(|(o, n, _)| (*o, *n)).collect()
}

fn log_json(log: &Log) -> Value {
  Value::Array(log.iter().map(|(o, n, i)| json!(format!("{}#{}{}", o.name(), n, if *i { " FAULT" } else { "" }))).collect())
}

fn plan_json(plan: &Plan) -> Value {
  match plan {
    Plan::Off => json!("none"),
    Plan::Set(s) => Value::Array(s.iter().map(|c| json!(call_name(c))).collect()),
    Plan::Mask(m) => json!(format!("nth-call-mask:{:#b}", m)),
  }
}

fn doc_refs_json(m: &DocModel) -> Value {
  json!({
    "methods": m.methods.iter().map(|(i, s, _)| format!("{} in {}", i, s)).collect::<Vec<_>>(),
    "references": m.refs.iter().map(|(r, i)| format!("{} -> {}", r, i)).collect::<Vec<_>>(),
  })
}

fn is_undo(e: &JwkStorageDocumentError) -> bool {
  matches!(e, JwkStorageDocumentError::UndoOperationFailed { .. })
}

/// Independent Ed25519 check of a compact JWS against the method's public JWK.
fn own_verify(jwk: &Jwk, jws: &str, payload: &[u8]) -> bool {
  let parts: Vec<&str> = jws.split('.').collect();
  if parts.len() != 3 {
    return false;
  }
  let Some(sig) = vh::b64::url_decode(parts[2]) else { return false };
  let Ok(sig): Result<[u8; 64], _> = sig.try_into() else { return false };
  let Some(pl) = vh::b64::url_decode(parts[1]) else { return false };
  if pl != payload {
    return false;
  }
  let Ok(okp) = jwk.try_okp_params() else { return false };
  let Some(x) = vh::b64::url_decode(&okp.x) else { return false };
  let Ok(x): Result<[u8; 32], _> = x.try_into() else { return false };
  let Ok(pk) = ed::PublicKey::try_from_bytes(x) else { return false };
  pk.verify(&ed::Signature::from_bytes(sig), format!("{}.{}", parts[0], parts[1]).as_bytes())
}

struct Cx {
  rep: Report,
}

/// Static description of a case (for signatures, classes and witnesses).
struct Meta {
  origin: &'static str,
  class: String,
  /// appended to a violation signature (e.g. ":dangling-ref-start"), empty normally
  sig_suffix: &'static str,
  /// the document holds (or may hold) methods of other DIDs with the same fragment: a fragment-only query is
  /// ambiguous there by design, so the oracle addresses the new method by its full DID URL
  full_query: bool,
  detail: Value,
}

const DANGLING_SUFFIX: &str = ":dangling-ref-start";

impl Cx {
  fn viol(&mut self, op: &str, outcome: &str, tags: &BTreeSet<String>, meta: &Meta, doc_name: &str, desc: String, case: Value) {
    // The dangling-reference start class has one root cause for every way an Ok result is unusable
    // (insert_method accepts an id already held by a reference): one signature, symptoms in the description.
    let sig = if meta.sig_suffix == DANGLING_SUFFIX && outcome == "ok" {
      format!("{}-{}:method-unusable{}", op, outcome, meta.sig_suffix)
    } else {
      format!("{}-{}:{}{}", op, outcome, tags.iter().cloned().collect::<Vec<_>>().join("+"), meta.sig_suffix)
    };
    let mut case = case;
    if let Some(o) = case.as_object_mut() {
      o.insert("doc_type".into(), json!(doc_name));
      o.insert("origin".into(), json!(meta.origin));
      o.insert("class".into(), json!(meta.class));
      o.insert("detail".into(), meta.detail.clone());
    }
    self.rep.violation(&sig, &desc, case);
  }

  fn class(&mut self, doc_name: &str, op: &str, meta: &Meta, log: &Log, kind: Kind) {
    let f: Vec<String> = fired(log).iter().map(call_name).collect();
    let calls: Vec<String> = log.iter().map(|(o, n, _)| call_name(&(*o, *n))).collect();
    self.rep.distinct(
      "nontrivial",
      &format!("{}|{}|{}|{}|fired={}|calls={}|{:?}", doc_name, op, meta.origin, meta.class, f.join(","), calls.join(","), kind),
    );
    self.rep.count("faults_fired", f.len() as u64);
    self.rep.count("storage_calls_logged", log.len() as u64);
  }

  // -------------------------------------------------------------------------------------------------
  // generate_method
  // -------------------------------------------------------------------------------------------------
  fn run_generate<D: Doc>(&mut self, env: &Env, doc: &mut D, scope: MethodScope, fragment: Option<&str>, plan: Plan, meta: &Meta) -> Outcome {
    self.run_generate_kt(env, doc, &JwkMemStore::ED25519_KEY_TYPE, JwsAlgorithm::EdDSA, scope, fragment, plan, meta)
  }

  /// generate_method with arbitrary (key type, algorithm) arguments: the store itself may refuse them (a REAL failure of
  /// `key.generate`, no fault injected) — the oracle is the same: Err (other than a reported failed undo) => nothing changed.
  #[allow(clippy::too_many_arguments)]
  fn run_generate_kt<D: Doc>(
    &mut self,
    env: &Env,
    doc: &mut D,
    key_type: &KeyType,
    alg: JwsAlgorithm,
    scope: MethodScope,
    fragment: Option<&str>,
    plan: Plan,
    meta: &Meta,
  ) -> Outcome {
    self.rep.eval();
    self.rep.inc("generate_runs");
    let did = doc.did();
    let pre = snap(doc, env);
    let pre_ids: BTreeSet<String> = pre.doc.methods.iter().map(|(i, _, _)| i.clone()).collect();
    let want_id: Option<String> = fragment.map(|f| format!("{}#{}", did, f.trim_start_matches('#')));
    env.arm(plan.clone());
    let res = catch(|| block_on(doc.generate_method(&env.st, key_type.clone(), alg.clone(), fragment, scope)));
    let log = env.disarm();
    let kid_mode = env.ctl.lock().unwrap().kid_mode.clone();
    let base = json!({"op":"generate_method","key_type":key_type.as_str(),"alg":alg.to_string(),"scope":scope_key(scope),"fragment":fragment,"plan":plan_json(&plan),"calls":log_json(&log),
      "key_store_sets_kid": match &kid_mode { KidMode::Keep => json!("thumbprint (in-memory store default)"), KidMode::Strip => json!("no kid member"), KidMode::Set(k) => json!(k) }});
    let res = match res {
      Ok(r) => r,
      Err(p) => {
        let sig = format!("generate-panic@{}", p.file_only());
        let mut case = base;
        case["panic"] = json!(format!("{} at {}", p.msg, p.loc()));
        case["doc_type"] = json!(D::NAME);
        self.rep.violation(&sig, &format!("generate_method panicked: {} at {}", p.msg, p.loc()), case);
        return Outcome { kind: Kind::Violation, log, frag: None };
      }
    };
    let post = snap(doc, env);
    let is_target = |id: &str| match &want_id {
      Some(w) => id == w,
      None => !pre_ids.contains(id),
    };
    let d = diff(&pre, &post, &is_target);
    self.rep.inc("oracle_checks");
    let nfired = fired(&log).len();
    let mut out = Outcome { kind: Kind::Ok, log: log.clone(), frag: None };
    match res {
      Err(e) if is_undo(&e) => {
        self.rep.inc("generate_err_undo_reported");
        out.kind = Kind::ErrUndo;
        if nfired == 0 {
          let mut tags = BTreeSet::new();
          tags.insert("undo-failure-reported-without-any-fault".to_string());
          let mut case = base;
          case["error"] = json!(format!("{e:?}"));
          self.viol("generate", "err", &tags, meta, D::NAME, format!("generate_method reported UndoOperationFailed although no storage call failed: {e}"), case);
          out.kind = Kind::Violation;
        }
      }
      Err(e) => {
        if d.tags.is_empty() {
          self.rep.inc("generate_err_clean");
          if nfired == 0 && meta.class.starts_with("fresh") {
            self.rep.inc("generate_err_without_fault_on_fresh_fragment");
          }
          out.kind = Kind::ErrClean;
        } else {
          let mut case = base;
          case["error"] = json!(format!("{e}"));
          case["diff"] = json!(format!("{d:?}"));
          case["before"] = doc_refs_json(&pre.doc);
          case["after"] = doc_refs_json(&post.doc);
          let desc = format!(
            "{}::generate_method(key_type={:?}, alg={}, scope={}, fragment={:?}) with failing [{}] returned Err({}) (not UndoOperationFailed) but state changed: {} (key store count {} -> {}, key-id store count {} -> {})",
            D::NAME,
            key_type.as_str(),
            alg,
            scope_key(scope),
            fragment,
            if nfired == 0 { "nothing injected: the store itself refused".to_string() } else { fired(&log).iter().map(call_name).collect::<Vec<_>>().join(", ") },
            e,
            d.tags.iter().cloned().collect::<Vec<_>>().join(", "),
            pre.st.key_count,
            post.st.key_count,
            pre.st.id_count,
            post.st.id_count
          );
          // a failure nobody injected (the shipped store refused the arguments / the state) is its own root-cause family
          self.viol("generate", if nfired == 0 { "err-without-injected-fault" } else { "err" }, &d.tags, meta, D::NAME, desc, case);
          out.kind = Kind::Violation;
        }
      }
      Ok(frag) => {
        let mut bad: BTreeSet<String> = BTreeSet::new();
        let allowed = ["method-left", "key-left", "keyid-left"];
        for tg in &d.tags {
          if !allowed.contains(&tg.as_str()) {
            bad.insert(tg.clone());
          }
        }
        let new_id = format!("{}#{}", did, frag);
        // exactly one new method, with the announced id, in the requested scope
        if d.new_methods.len() != 1 || d.new_methods[0].0 != new_id || want_id.as_ref().map(|w| *w != new_id).unwrap_or(false) {
          bad.insert("method-not-added-as-announced".into());
        } else if d.new_methods[0].1 != scope_key(scope) {
          bad.insert("method-in-wrong-scope".into());
        }
        if d.new_keys.len() != 1 {
          bad.insert(if d.new_keys.is_empty() { "no-key-stored".to_string() } else { "extra-keys-stored".to_string() });
        }
        if d.new_ids.len() != 1 {
          bad.insert(if d.new_ids.is_empty() { "no-keyid-recorded".to_string() } else { "extra-keyids-recorded".to_string() });
        }
        // the method resolves in the requested scope, its digest maps to the new key, which exists
        // Query form: the returned fragment itself, except that a fragment starting with "did" is queried as
        // "#fragment" here and checked separately below (DIDUrlQuery takes a bare string starting with the DID
        // scheme for a full DID URL — a different root cause with its own signature).
        let did_prefixed = frag.starts_with("did");
        let q: String = if meta.full_query {
          new_id.clone()
        } else if did_prefixed {
          format!("#{frag}")
        } else {
          frag.clone()
        };
        let did_prefixed = did_prefixed && !meta.full_query;
        let resolved: Option<VerificationMethod> = catch(|| doc.core().resolve_method(q.as_str(), Some(scope)).cloned()).ok().flatten();
        match &resolved {
          None => {
            bad.insert("method-does-not-resolve-in-scope".into());
          }
          Some(m) => {
            match catch(|| MethodDigest::new(m)) {
              Ok(Ok(dg)) => {
                let kid = block_on(env.st.key_id_storage().inner.get_key_id(&dg)).ok();
                match kid {
                  None => {
                    bad.insert("keyid-not-recorded-for-method".into());
                  }
                  Some(k) => {
                    if !block_on(env.st.key_storage().inner.exists(&k)).unwrap_or(false) {
                      bad.insert("recorded-key-does-not-exist".into());
                    }
                    if d.new_keys.len() == 1 && d.new_keys[0] != k.as_str() {
                      bad.insert("keyid-points-to-other-key".into());
                    }
                  }
                }
              }
              _ => {
                bad.insert("method-digest-fails".into());
              }
            }
            // signing with it works (fault-free)
            let payload: &[u8] = b"c09 payload";
            let jws = catch(|| block_on(doc.create_jws(&env.st, q.as_str(), payload, &JwsSignatureOptions::default())));
            match jws {
              Ok(Ok(jws)) => {
                let lib_ok = catch(|| {
                  doc
                    .core()
                    .verify_jws(jws.as_str(), None, &EdDSAJwsVerifier::default(), &JwsVerificationOptions::default())
                    .map(|dec| dec.claims.as_ref() == payload)
                    .unwrap_or(false)
                })
                .unwrap_or(false);
                let own_ok = match m.data() {
                  MethodData::PublicKeyJwk(jwk) => own_verify(jwk, jws.as_str(), payload),
                  _ => false,
                };
                if !own_ok {
                  bad.insert("signature-does-not-verify".into());
                } else if !lib_ok {
                  bad.insert("verify_jws-rejects-own-signature".into());
                } else {
                  self.rep.inc("generate_sign_verified");
                }
              }
              _ => {
                bad.insert("signing-fails".into());
              }
            }
          }
        }
        if bad.is_empty() && did_prefixed {
          // everything is in place; is the *returned* fragment usable as the `fragment` argument of the API?
          self.rep.inc("did_prefixed_fragment_cases");
          let bare_resolves = catch(|| doc.core().resolve_method(frag.as_str(), Some(scope)).is_some()).unwrap_or(false);
          let bare_signs = matches!(
            catch(|| block_on(doc.create_jws(&env.st, frag.as_str(), b"c09 payload", &JwsSignatureOptions::default()))),
            Ok(Ok(_))
          );
          if !bare_resolves || !bare_signs {
            let mut case = base.clone();
            case["returned_fragment"] = json!(frag);
            case["doc_type"] = json!(D::NAME);
            case["resolve_method(returned_fragment)"] = json!(bare_resolves);
            case["create_jws(returned_fragment)"] = json!(bare_signs);
            case["resolve_method('#'+returned_fragment)"] = json!(true);
            self.rep.violation(
              "generate-ok:returned-did-prefixed-fragment-unusable-as-query",
              &format!(
                "{}::generate_method(scope={}, fragment={:?}) returned Ok({:?}); method, key and key id are in place, but resolve_method({:?}) -> {} and create_jws(storage, {:?}, ..) -> {} (\"#{}\" works): a bare fragment starting with \"did\" is parsed as a full DID URL by DIDUrlQuery",
                D::NAME, scope_key(scope), fragment, frag, frag, if bare_resolves { "Some" } else { "None" }, frag, if bare_signs { "Ok" } else { "Err(MethodNotFound)" }, frag
              ),
              case,
            );
            out.kind = Kind::Violation;
          }
        }
        if out.kind == Kind::Violation {
          // reported above
        } else if bad.is_empty() {
          self.rep.inc("generate_ok");
          out.frag = Some(frag);
        } else {
          let mut case = base;
          case["returned_fragment"] = json!(frag);
          case["diff"] = json!(format!("{d:?}"));
          case["before"] = doc_refs_json(&pre.doc);
          case["after"] = doc_refs_json(&post.doc);
          let desc = format!(
            "{}::generate_method(scope={}, fragment={:?}) with failing [{}] returned Ok({:?}) but: {}",
            D::NAME,
            scope_key(scope),
            fragment,
            fired(&log).iter().map(call_name).collect::<Vec<_>>().join(", "),
            frag,
            bad.iter().cloned().collect::<Vec<_>>().join(", ")
          );
          self.viol("generate", "ok", &bad, meta, D::NAME, desc, case);
          out.kind = Kind::Violation;
        }
      }
    }
    self.class(D::NAME, "generate", meta, &log, out.kind);
    out
  }

  // -------------------------------------------------------------------------------------------------
  // purge_method
  // -------------------------------------------------------------------------------------------------
  fn run_purge<D: Doc>(&mut self, env: &Env, doc: &mut D, frag: &str, plan: Plan, meta: &Meta) -> Outcome {
    self.rep.eval();
    self.rep.inc("purge_runs");
    let did = doc.did();
    let target_id = format!("{}#{}", did, frag);
    let url = match identity_did::DIDUrl::parse(&target_id) {
      Ok(u) => u,
      Err(_) => panic!("harness: bad target id {target_id}"),
    };
    // what the target is before the call: method present? its digest / key id?
    let pre_method: Option<VerificationMethod> = doc.core().resolve_method(&url, None).cloned();
    let pre_digest: Option<MethodDigest> = pre_method.as_ref().and_then(|m| MethodDigest::new(m).ok());
    let pre_kid: Option<String> =
      pre_digest.as_ref().and_then(|dg| block_on(env.st.key_id_storage().inner.get_key_id(dg)).ok()).map(|k| k.as_str().to_owned());
    if let Some(dg) = &pre_digest {
      env.ctl.lock().unwrap().see_digest(dg);
    }
    if pre_method.is_some() && pre_digest.is_none() {
      self.rep.inc("purge_target_undigestable");
    }
    let pre = snap(doc, env);
    let nrefs = pre.doc.refs.iter().filter(|(_, i)| *i == target_id).count();
    env.arm(plan.clone());
    let res = catch(|| block_on(doc.purge_method(&env.st, &url)));
    let log = env.disarm();
    let base = json!({"op":"purge_method","target":target_id,"target_references":nrefs,"plan":plan_json(&plan),"calls":log_json(&log)});
    let res = match res {
      Ok(r) => r,
      Err(p) => {
        let sig = format!("purge-panic@{}", p.file_only());
        let mut case = base;
        case["panic"] = json!(format!("{} at {}", p.msg, p.loc()));
        case["doc_type"] = json!(D::NAME);
        self.rep.violation(&sig, &format!("purge_method panicked: {} at {}", p.msg, p.loc()), case);
        return Outcome { kind: Kind::Violation, log, frag: None };
      }
    };
    let post = snap(doc, env);
    let is_target = |id: &str| id == target_id;
    let d = diff(&pre, &post, &is_target);
    self.rep.inc("oracle_checks");
    let nfired = fired(&log).len();
    let mut out = Outcome { kind: Kind::Ok, log: log.clone(), frag: None };
    match res {
      Err(e) if is_undo(&e) => {
        self.rep.inc("purge_err_undo_reported");
        out.kind = Kind::ErrUndo;
        if nfired == 0 {
          let mut tags = BTreeSet::new();
          tags.insert("undo-failure-reported-without-any-fault".to_string());
          let mut case = base;
          case["error"] = json!(format!("{e:?}"));
          self.viol("purge", "err", &tags, meta, D::NAME, format!("purge_method reported UndoOperationFailed although no storage call failed: {e}"), case);
          out.kind = Kind::Violation;
        }
      }
      Err(e) => {
        if d.tags.is_empty() {
          self.rep.inc("purge_err_clean");
          if nfired == 0 && pre_method.is_some() && pre_kid.is_some() {
            self.rep.inc("purge_err_without_fault_on_backed_method");
          }
          out.kind = Kind::ErrClean;
        } else {
          let mut case = base;
          case["error"] = json!(format!("{e}"));
          case["dropped_references"] = json!(d.dropped_refs.iter().map(|(r, i)| format!("{} -> {}", r, i)).collect::<Vec<_>>());
          case["diff"] = json!(format!("{d:?}"));
          case["before"] = doc_refs_json(&pre.doc);
          case["after"] = doc_refs_json(&post.doc);
          let desc = format!(
            "{}::purge_method({}) [target has {} reference(s)] with failing [{}] returned Err({}) (not UndoOperationFailed) but state changed: {}{}",
            D::NAME,
            target_id,
            nrefs,
            fired(&log).iter().map(call_name).collect::<Vec<_>>().join(", "),
            e,
            d.tags.iter().cloned().collect::<Vec<_>>().join(", "),
            if d.dropped_refs.is_empty() { String::new() } else { format!(" — dropped {:?}", d.dropped_refs) }
          );
          self.viol("purge", "err", &d.tags, meta, D::NAME, desc, case);
          out.kind = Kind::Violation;
        }
      }
      Ok(()) => {
        let mut bad: BTreeSet<String> = BTreeSet::new();
        let allowed = ["method-missing", "refs-dropped", "key-lost", "keyid-lost"];
        for tg in &d.tags {
          if !allowed.contains(&tg.as_str()) {
            bad.insert(tg.clone());
          }
        }
        if pre_method.is_none() {
          bad.insert("ok-for-absent-method".into());
        }
        if post.doc.methods.iter().any(|(i, _, _)| *i == target_id) || doc.core().resolve_method(&url, None).is_some() {
          bad.insert("method-left".into());
        }
        if post.doc.refs.iter().any(|(_, i)| *i == target_id) {
          bad.insert("reference-left".into());
        }
        if let Some(k) = &pre_kid {
          if post.st.keys.get(k).copied().unwrap_or(false) {
            bad.insert("key-left".into());
          }
          if d.lost_keys.iter().any(|x| x != k) {
            bad.insert("other-key-lost".into());
          }
        }
        if let Some(dg) = &pre_digest {
          if post.st.ids.get(&dg.pack()).cloned().flatten().is_some() {
            bad.insert("keyid-left".into());
          }
          if d.lost_ids.iter().any(|(p, _)| *p != dg.pack()) {
            bad.insert("other-keyid-lost".into());
          }
        }
        if bad.is_empty() {
          self.rep.inc("purge_ok");
        } else {
          let mut case = base;
          case["diff"] = json!(format!("{d:?}"));
          case["before"] = doc_refs_json(&pre.doc);
          case["after"] = doc_refs_json(&post.doc);
          let desc = format!(
            "{}::purge_method({}) with failing [{}] returned Ok but: {}",
            D::NAME,
            target_id,
            fired(&log).iter().map(call_name).collect::<Vec<_>>().join(", "),
            bad.iter().cloned().collect::<Vec<_>>().join(", ")
          );
          self.viol("purge", "ok", &bad, meta, D::NAME, desc, case);
          out.kind = Kind::Violation;
        }
      }
    }
    self.class(D::NAME, "purge", meta, &log, out.kind);
    out
  }
}

// ====================================================================================================
// Scenario construction (set-up never goes through the operations under test)
// ====================================================================================================

/// Creates a key in the store, a JWK method for it in `doc` and the digest → key id entry.
fn install_method<D: Doc>(doc: &mut D, env: &Env, frag: &str, scope: MethodScope) -> bool {
  let out = match block_on(env.st.key_storage().generate(JwkMemStore::ED25519_KEY_TYPE, JwsAlgorithm::EdDSA)) {
    Ok(o) => o,
    Err(_) => return false,
  };
  let Ok(m) = VerificationMethod::new_from_jwk(doc.core().id().clone(), out.jwk, Some(frag)) else { return false };
  let Ok(dg) = MethodDigest::new(&m) else { return false };
  if !doc.add_method(m, scope) {
    return false;
  }
  block_on(env.st.key_id_storage().insert_key_id(dg, out.key_id)).is_ok()
}

/// Other content the operation must leave alone: a general method "m0" with two references, an embedded
/// method "e0", a non-JWK method "root" without storage backing and a service "svc".
fn populate<D: Doc>(doc: &mut D, env: &Env) -> bool {
  let did = doc.did();
  let mut ok = install_method(doc, env, "m0", MethodScope::VerificationMethod);
  ok &= doc.attach("m0", MethodRelationship::Authentication);
  ok &= doc.attach("m0", MethodRelationship::CapabilityInvocation);
  ok &= install_method(doc, env, "e0", MethodScope::VerificationRelationship(MethodRelationship::AssertionMethod));
  let root = VerificationMethod::from_json(&format!(
    r#"{{"id":"{did}#root","controller":"{did}","type":"Ed25519VerificationKey2018","publicKeyMultibase":"zHyx62wPQGyvXCoihZq1BrbUjBRh2LuNxWiiqMkfAuSZr"}}"#
  ));
  match root {
    Ok(m) => ok &= doc.add_method(m, MethodScope::VerificationMethod),
    Err(_) => ok = false,
  }
  ok &= doc.attach("root", MethodRelationship::KeyAgreement);
  match Service::from_json(&format!(r#"{{"id":"{did}#svc","type":"LinkedDomains","serviceEndpoint":"https://example.com/"}}"#)) {
    Ok(s) => ok &= doc.add_service(s),
    Err(_) => ok = false,
  }
  ok
}

/// Plants references `rels -> did#frag` that point at no method (accepted by the deserialiser).
fn plant_dangling<D: Doc>(doc: &D, frag: &str, rels: &[&str]) -> Option<D> {
  let mut v = serde_json::to_value(doc.core()).ok()?;
  let id = format!("{}#{}", doc.did(), frag);
  let o = v.as_object_mut()?;
  for r in rels {
    let e = o.entry(r.to_string()).or_insert_with(|| Value::Array(Vec::new()));
    e.as_array_mut()?.push(Value::String(id.clone()));
  }
  doc.with_core_json(v)
}

/// A method / service / reference of ANOTHER DID carrying the same fragment as the method the operation is about.
/// `did:other#f` and `did:me#f` are different DID URLs; such documents are legal and deserialise.
#[derive(Clone, Copy, Debug, PartialEq, Eq)]
enum Namesake {
  None,
  /// foreign general-purpose method placed before every own method
  GeneralBefore,
  /// ... after every own method
  GeneralAfter,
  /// foreign method embedded in keyAgreement
  Embedded,
  /// foreign service
  Service,
  /// bare reference to the foreign method from authentication
  Reference,
}

const NAMESAKES: [Namesake; 5] = [Namesake::GeneralBefore, Namesake::GeneralAfter, Namesake::Embedded, Namesake::Service, Namesake::Reference];

impl Namesake {
  fn name(self) -> &'static str {
    match self {
      Namesake::None => "none",
      Namesake::GeneralBefore => "foreign-general-before",
      Namesake::GeneralAfter => "foreign-general-after",
      Namesake::Embedded => "foreign-embedded",
      Namesake::Service => "foreign-service",
      Namesake::Reference => "foreign-reference",
    }
  }
}

/// Splices the foreign namesake into the document through JSON (never through insert_method / the operations
/// under test).
fn plant_foreign<D: Doc>(doc: &D, frag: &str, kind: Namesake, which: usize) -> Option<D> {
  if kind == Namesake::None {
    return Some(doc.clone());
  }
  let foreign = D::FOREIGN[which % 2];
  let fid = format!("{}#{}", foreign, frag);
  let method = json!({
    "id": fid, "controller": foreign, "type": "JsonWebKey2020",
    "publicKeyJwk": {"kty":"OKP","alg":"EdDSA","crv":"Ed25519","x":"11qYAYKxCrfVS_7TyWQHOg7hcvPapiMlrwIaaPcHURo"}
  });
  let mut v = serde_json::to_value(doc.core()).ok()?;
  let o = v.as_object_mut()?;
  let (member, element, front) = match kind {
    Namesake::GeneralBefore => (VM, method, true),
    Namesake::GeneralAfter => (VM, method, false),
    Namesake::Embedded => ("keyAgreement", method, false),
    Namesake::Service => ("service", json!({"id": fid, "type": "LinkedDomains", "serviceEndpoint": "https://foreign.example/"}), false),
    Namesake::Reference => ("authentication", json!(fid), false),
    Namesake::None => unreachable!(),
  };
  let arr = o.entry(member.to_string()).or_insert_with(|| Value::Array(Vec::new())).as_array_mut()?;
  if front {
    arr.insert(0, element);
  } else {
    arr.push(element);
  }
  doc.with_core_json(v)
}

/// How the purge target relates to the stores. Only `Backed` is what generate_method produces; the others are
/// methods that reached the document some other way (JSON, builder, insert_method) or stores that lost an entry.
#[derive(Clone, Copy, Debug, PartialEq, Eq)]
enum Backing {
  Backed,
  /// JWK method, its key is in the key store, the key-id store has no entry for it
  JwkNoKeyId,
  /// JWK method, key id recorded, the key itself is not in the key store
  JwkNoKey,
  /// publicKeyMultibase method (digestable) with a recorded key id and stored key
  MultibaseBacked,
  /// publicKeyMultibase method (digestable) the stores know nothing about
  MultibaseUnbacked,
  /// publicKeyMultibase that does not decode: no method digest can be computed
  MultibaseBad,
  /// publicKeyBase58 that does not decode
  Base58Bad,
  /// custom key material (blockchainAccountId): no method digest can be computed
  Custom,
}

const UNUSUAL_BACKINGS: [Backing; 7] =
  [Backing::JwkNoKeyId, Backing::JwkNoKey, Backing::MultibaseBacked, Backing::MultibaseUnbacked, Backing::MultibaseBad, Backing::Base58Bad, Backing::Custom];

impl Backing {
  fn name(self) -> &'static str {
    match self {
      Backing::Backed => "backed",
      Backing::JwkNoKeyId => "jwk-without-keyid",
      Backing::JwkNoKey => "jwk-keyid-without-key",
      Backing::MultibaseBacked => "multibase-backed",
      Backing::MultibaseUnbacked => "multibase-unbacked",
      Backing::MultibaseBad => "multibase-undecodable",
      Backing::Base58Bad => "base58-undecodable",
      Backing::Custom => "custom-material",
    }
  }
  fn class(self) -> &'static str {
    match self {
      Backing::Backed => "backed",
      Backing::JwkNoKeyId | Backing::JwkNoKey | Backing::MultibaseUnbacked => "halfbacked",
      Backing::MultibaseBacked => "nonjwk-backed",
      Backing::MultibaseBad | Backing::Base58Bad | Backing::Custom => "undigestable",
    }
  }
  fn sig_suffix(self) -> &'static str {
    match self.class() {
      "backed" => "",
      "undigestable" => ":undigestable-target",
      _ => ":target-not-from-generate",
    }
  }
}

const MB_GOOD: &str = r#""publicKeyMultibase":"z6MkiTBz1ymuepAQ4HEHYSF1H8quG5GLVVQR3djdX3mDooWp""#;
const ED2018: &str = "Ed25519VerificationKey2018";

/// Puts the purge target `did#frag` into `doc` (and whatever `backing` says into the stores).
fn install_target<D: Doc>(doc: &mut D, env: &Env, frag: &str, scope: MethodScope, backing: Backing) -> bool {
  let did = doc.did();
  let parse = |material: &str, ty: &str| -> Option<VerificationMethod> {
    VerificationMethod::from_json(&format!(r#"{{"id":"{did}#{frag}","controller":"{did}","type":"{ty}",{material}}}"#)).ok()
  };
  match backing {
    Backing::Backed => install_method(doc, env, frag, scope),
    Backing::JwkNoKeyId | Backing::JwkNoKey => {
      let Ok(out) = block_on(env.st.key_storage().generate(JwkMemStore::ED25519_KEY_TYPE, JwsAlgorithm::EdDSA)) else { return false };
      let Ok(m) = VerificationMethod::new_from_jwk(doc.core().id().clone(), out.jwk, Some(frag)) else { return false };
      let Ok(dg) = MethodDigest::new(&m) else { return false };
      if !doc.add_method(m, scope) {
        return false;
      }
      if backing == Backing::JwkNoKey {
        block_on(env.st.key_id_storage().insert_key_id(dg, out.key_id.clone())).is_ok()
          && block_on(env.st.key_storage().inner.delete(&out.key_id)).is_ok()
      } else {
        true
      }
    }
    Backing::MultibaseBacked => {
      let Some(m) = parse(MB_GOOD, ED2018) else { return false };
      let Ok(dg) = MethodDigest::new(&m) else { return false };
      if !doc.add_method(m, scope) {
        return false;
      }
      let Ok(out) = block_on(env.st.key_storage().generate(JwkMemStore::ED25519_KEY_TYPE, JwsAlgorithm::EdDSA)) else { return false };
      block_on(env.st.key_id_storage().insert_key_id(dg, out.key_id)).is_ok()
    }
    Backing::MultibaseUnbacked => parse(MB_GOOD, ED2018).map(|m| doc.add_method(m, scope)).unwrap_or(false),
    Backing::MultibaseBad => parse(r#""publicKeyMultibase":"z0OIl""#, ED2018).map(|m| doc.add_method(m, scope)).unwrap_or(false),
    Backing::Base58Bad => parse(r#""publicKeyBase58":"0OIl""#, ED2018).map(|m| doc.add_method(m, scope)).unwrap_or(false),
    Backing::Custom => parse(r#""blockchainAccountId":"eip155:1:0xab16a96d359ec26a11e2c2b3d8f8b8942d5bfcdb""#, "EcdsaSecp256k1RecoveryMethod2020")
      .map(|m| doc.add_method(m, scope))
      .unwrap_or(false),
  }
}

/// Runs `run` for every subset of the call universe, growing the universe with every call occurrence
/// observed (so that the calls of undo paths get enumerated too). Returns (plans run, universe).
fn enumerate_plans(mut run: impl FnMut(&BTreeSet<Call>) -> Log) -> (u64, Vec<Call>) {
  const MAX_UNIVERSE: usize = 7;
  let mut universe: Vec<Call> = Vec::new();
  let mut done: BTreeSet<BTreeSet<Call>> = BTreeSet::new();
  let mut n_run = 0u64;
  loop {
    let n = universe.len().min(MAX_UNIVERSE);
    let mut newcalls: BTreeSet<Call> = BTreeSet::new();
    for bits in 0u32..(1u32 << n) {
      let plan: BTreeSet<Call> = (0..n).filter(|i| (bits >> i) & 1 == 1).map(|i| universe[i]).collect();
      if !done.insert(plan.clone()) {
        continue;
      }
      n_run += 1;
      for (op, occ, _) in run(&plan) {
        if !universe.contains(&(op, occ)) {
          newcalls.insert((op, occ));
        }
      }
    }
    if newcalls.is_empty() {
      break;
    }
    universe.extend(newcalls);
    if universe.len() > MAX_UNIVERSE {
      universe.truncate(MAX_UNIVERSE);
    }
    if n == MAX_UNIVERSE {
      break;
    }
  }
  (n_run, universe)
}

#[derive(Clone, Debug)]
enum GenClass {
  FreshEmpty,
  FreshPopulated,
  /// fragment equals that of an existing general method / embedded method / service
  Clash(&'static str),
  /// start document holds references to did#fragment with no such method
  Dangling(Vec<&'static str>),
  /// populated start document that also holds a method / service / reference of another DID with the fragment
  Foreign(Namesake, usize),
}

#[derive(Clone, Debug)]
enum Scenario {
  Generate { scope: MethodScope, fragment: Option<&'static str>, class: GenClass, yield_delete: bool, kid: KidMode },
  Purge { target: PurgeTarget, populated: bool, yield_mode: u8, backing: Backing, namesake: Namesake },
}

#[derive(Clone, Debug)]
enum PurgeTarget {
  Embedded(MethodRelationship),
  /// general-purpose with references from the relationships in the bit set
  General(u8),
  /// no such method in the document
  Absent,
}

fn frag_kind(f: Option<&str>) -> &'static str {
  match f {
    None => "kid",
    Some(f) if f.starts_with('#') => "hash",
    Some(f) if f.starts_with("did") => "didprefixed",
    Some(_) => "plain",
  }
}

fn scenario_kind(s: &Scenario) -> String {
  match s {
    Scenario::Generate { class, fragment, kid, .. } => format!(
      "gen|{}|{}|{}",
      match class {
        GenClass::FreshEmpty => "fresh-empty",
        GenClass::FreshPopulated => "fresh-populated",
        GenClass::Clash(_) => "clash",
        GenClass::Dangling(_) => "dangling",
        GenClass::Foreign(..) => "foreign",
      },
      frag_kind(*fragment),
      kid.class()
    ),
    Scenario::Purge { target, backing, namesake, .. } => format!(
      "purge|{}|{}|{}",
      match target {
        PurgeTarget::Embedded(_) => "embedded".to_string(),
        PurgeTarget::General(b) => format!("general{}", b.count_ones().min(2)),
        PurgeTarget::Absent => "absent".to_string(),
      },
      backing.class(),
      if *namesake == Namesake::None { "alone" } else { "foreign" }
    ),
  }
}

fn scenarios(thorough: bool) -> Vec<Scenario> {
  let mut v = Vec::new();
  for scope in all_scopes() {
    for fragment in [Some("key-1"), Some("#key-2"), None, Some("did-key-3")] {
      for class in [GenClass::FreshEmpty, GenClass::FreshPopulated] {
        for yield_delete in [false, true] {
          if yield_delete && !thorough && fragment != Some("key-1") {
            continue;
          }
          v.push(Scenario::Generate { scope, fragment, class: class.clone(), yield_delete, kid: KidMode::Keep });
        }
      }
    }
    for (cl, frag) in [(GenClass::Clash("general"), "m0"), (GenClass::Clash("embedded"), "e0"), (GenClass::Clash("service"), "svc"), (GenClass::Clash("nonjwk"), "#root")] {
      v.push(Scenario::Generate { scope, fragment: Some(frag), class: cl, yield_delete: false, kid: KidMode::Keep });
    }
    for rels in [vec!["authentication"], vec!["keyAgreement", "capabilityInvocation"], RELS.iter().map(|(_, k)| *k).collect::<Vec<_>>()] {
      v.push(Scenario::Generate { scope, fragment: Some("dang"), class: GenClass::Dangling(rels), yield_delete: false, kid: KidMode::Keep });
    }
    // key stores that set no kid / their own kid on the generated public JWK, with and without an explicit fragment
    for class in [GenClass::FreshEmpty, GenClass::FreshPopulated] {
      for (fragment, kid) in [
        (None, KidMode::Strip),
        (Some("key-1"), KidMode::Strip),
        (Some("#key-2"), KidMode::Strip),
        (None, KidMode::Set("store-kid".into())),
        (None, KidMode::Set("#hash-kid".into())),
        (None, KidMode::Set("kid with space".into())),
        (None, KidMode::Set("kid%zz".into())),
        // kid equal to the fragment of an existing general method / embedded method / service (populated start only)
        (None, KidMode::Set("m0".into())),
        (None, KidMode::Set("e0".into())),
        (None, KidMode::Set("svc".into())),
        (Some("key-1"), KidMode::Set("store-kid".into())),
        (Some("key-1"), KidMode::Set("m0".into())),
      ] {
        for yield_delete in [false, true] {
          if yield_delete && !thorough && kid != KidMode::Strip {
            continue;
          }
          v.push(Scenario::Generate { scope, fragment, class: class.clone(), yield_delete, kid: kid.clone() });
        }
      }
    }
    // the fragment is already used by a method / service / reference of ANOTHER DID in the document
    for (i, ns) in NAMESAKES.iter().enumerate() {
      for fragment in [Some("key-1"), Some("#key-2")] {
        v.push(Scenario::Generate { scope, fragment, class: GenClass::Foreign(*ns, i), yield_delete: false, kid: KidMode::Keep });
      }
      v.push(Scenario::Generate { scope, fragment: None, class: GenClass::Foreign(*ns, i + 1), yield_delete: false, kid: KidMode::Set("key-1".into()) });
    }
  }
  for populated in [false, true] {
    for yield_mode in 0u8..3 {
      for (r, _) in RELS {
        v.push(Scenario::Purge { target: PurgeTarget::Embedded(r), populated, yield_mode, backing: Backing::Backed, namesake: Namesake::None });
      }
      for bits in 0u8..32 {
        v.push(Scenario::Purge { target: PurgeTarget::General(bits), populated, yield_mode, backing: Backing::Backed, namesake: Namesake::None });
      }
      v.push(Scenario::Purge { target: PurgeTarget::Absent, populated, yield_mode, backing: Backing::Backed, namesake: Namesake::None });
    }
  }
  let shapes = || {
    let mut t: Vec<PurgeTarget> = RELS.iter().map(|(r, _)| PurgeTarget::Embedded(*r)).collect();
    t.extend((0u8..32).map(PurgeTarget::General));
    t
  };
  // targets that did not come from generate_method / stores that only half know the target
  for backing in UNUSUAL_BACKINGS {
    for populated in [false, true] {
      for yield_mode in 0u8..(if thorough { 3 } else { 1 }) {
        for target in shapes() {
          v.push(Scenario::Purge { target, populated, yield_mode, backing, namesake: Namesake::None });
        }
      }
    }
  }
  // a method / service / reference of another DID carries the target's fragment
  for namesake in NAMESAKES {
    for populated in [false, true] {
      for yield_mode in 0u8..(if thorough { 3 } else { 1 }) {
        for target in shapes() {
          v.push(Scenario::Purge { target, populated, yield_mode, backing: Backing::Backed, namesake });
        }
      }
    }
    for backing in [Backing::JwkNoKeyId, Backing::JwkNoKey, Backing::MultibaseBacked, Backing::MultibaseBad, Backing::Custom] {
      for target in [PurgeTarget::Embedded(MethodRelationship::Authentication), PurgeTarget::Embedded(MethodRelationship::KeyAgreement), PurgeTarget::General(0), PurgeTarget::General(0b00101), PurgeTarget::General(31)] {
        v.push(Scenario::Purge { target, populated: true, yield_mode: 0, backing, namesake });
      }
    }
    v.push(Scenario::Purge { target: PurgeTarget::Absent, populated: true, yield_mode: 0, backing: Backing::Backed, namesake });
  }
  v
}

fn run_scenario<D: Doc>(cx: &mut Cx, sc: &Scenario, idx: u64) {
  match sc {
    Scenario::Generate { scope, fragment, class, yield_delete, kid } => {
      let (class_name, mut suffix): (String, &'static str) = match class {
        GenClass::FreshEmpty => ("fresh-empty".into(), ""),
        GenClass::FreshPopulated => ("fresh-populated".into(), ""),
        GenClass::Clash(w) => (format!("clash-{w}"), ""),
        GenClass::Dangling(r) => (format!("dangling-ref-start[{}]", r.len()), DANGLING_SUFFIX),
        GenClass::Foreign(ns, w) => (format!("{}{}", ns.name(), w % 2), ":foreign-namesake"),
      };
      if suffix.is_empty() {
        suffix = match kid {
          KidMode::Keep => "",
          KidMode::Strip => ":store-jwk-without-kid",
          KidMode::Set(_) => ":store-chosen-kid",
        };
      }
      // the fragment the new method will carry if the call succeeds (for planting a foreign namesake)
      let expect_frag: String = match (fragment, kid) {
        (Some(f), _) => f.trim_start_matches('#').to_owned(),
        (None, KidMode::Set(k)) => k.trim_start_matches('#').to_owned(),
        (None, _) => "key-1".to_owned(),
      };
      let kid_text = match kid {
        KidMode::Keep => "keep".to_string(),
        KidMode::Strip => "strip".to_string(),
        KidMode::Set(k) => format!("set:{k}"),
      };
      let meta = Meta {
        origin: "exhaustive",
        class: format!("{}|{}|frag={}|y{}|kid={}", class_name, scope_key(*scope), frag_kind(*fragment), *yield_delete as u8, kid_text),
        sig_suffix: suffix,
        full_query: matches!(class, GenClass::Foreign(..)),
        detail: json!({"scenario": idx, "start_document": class_name, "key_store_kid": kid_text, "dangling_in": match class { GenClass::Dangling(r) => json!(r), _ => Value::Null }}),
      };
      let mut setup_failed = false;
      let (n, universe) = enumerate_plans(|plan| {
        let env = Env::new();
        env.set_err_variant((idx % 5) as u8);
        let mut doc = D::empty();
        let mut ok = true;
        match class {
          GenClass::FreshEmpty => {}
          GenClass::FreshPopulated | GenClass::Clash(_) => ok &= populate(&mut doc, &env),
          GenClass::Dangling(rels) => {
            ok &= populate(&mut doc, &env);
            match plant_dangling(&doc, fragment.unwrap_or("dang"), rels) {
              Some(d) => doc = d,
              None => ok = false,
            }
          }
          GenClass::Foreign(ns, which) => {
            ok &= populate(&mut doc, &env);
            match plant_foreign(&doc, &expect_frag, *ns, *which) {
              Some(d) => doc = d,
              None => ok = false,
            }
          }
        }
        if !ok {
          setup_failed = true;
          return Vec::new();
        }
        env.set_yield(*yield_delete, false);
        env.set_kid_mode(kid.clone());
        let o = cx.run_generate(&env, &mut doc, *scope, *fragment, Plan::Set(plan.clone()), &meta);
        env.set_kid_mode(KidMode::Keep);
        let nf = fired(&o.log).len();
        if nf < plan.len() {
          cx.rep.inc("plans_with_unfired_fault");
        }
        // vacuity counters for the new start classes
        let tag = match (class, kid) {
          (GenClass::Foreign(..), _) => Some("foreign_namesake"),
          (_, KidMode::Strip) if fragment.is_none() => Some("kidless_nofragment"),
          (_, KidMode::Strip) => Some("kidless_fragment"),
          (_, KidMode::Set(_)) => Some("store_kid"),
          _ => None,
        };
        if let Some(tag) = tag {
          match o.kind {
            Kind::Ok => cx.rep.inc(&format!("generate_ok:{tag}")),
            Kind::ErrClean => cx.rep.inc(&format!("generate_err_clean:{tag}")),
            Kind::ErrUndo => cx.rep.inc(&format!("generate_err_undo:{tag}")),
            Kind::Violation => {}
          }
        }
        o.log
      });
      cx.rep.count("plans_run", n);
      cx.rep.count("generate_plans_run", n);
      if setup_failed {
        cx.rep.inc("setup_failed");
      }
      cx.rep.distinct("generate_universe", &universe.iter().map(call_name).collect::<Vec<_>>().join(","));
    }
    Scenario::Purge { target, populated, yield_mode, backing, namesake } => {
      let tname = match target {
        PurgeTarget::Embedded(r) => format!("embedded:{}", scope_key(MethodScope::VerificationRelationship(*r))),
        PurgeTarget::General(b) => format!("general:refs={}:{:05b}", b.count_ones(), b),
        PurgeTarget::Absent => "absent".into(),
      };
      let meta = Meta {
        origin: "exhaustive",
        class: format!("{}|pop{}|y{}|{}|{}", tname, *populated as u8, yield_mode, backing.name(), namesake.name()),
        sig_suffix: if *namesake != Namesake::None { ":foreign-namesake" } else { backing.sig_suffix() },
        full_query: *namesake != Namesake::None,
        detail: json!({"scenario": idx, "target": tname, "populated_document": populated, "yield_mode": yield_mode,
          "target_backing": backing.name(), "foreign_namesake": namesake.name(), "foreign_did": if *namesake != Namesake::None { json!(D::FOREIGN[(idx as usize / 2) % 2]) } else { Value::Null }}),
      };
      let mut setup_failed = false;
      let (n, universe) = enumerate_plans(|plan| {
        let env = Env::new();
        env.set_err_variant((idx % 5) as u8);
        let mut doc = D::empty();
        let mut ok = true;
        if *populated {
          ok &= populate(&mut doc, &env);
        }
        match target {
          PurgeTarget::Embedded(r) => ok &= install_target(&mut doc, &env, "tgt", MethodScope::VerificationRelationship(*r), *backing),
          PurgeTarget::General(bits) => {
            ok &= install_target(&mut doc, &env, "tgt", MethodScope::VerificationMethod, *backing);
            for (i, (r, _)) in RELS.iter().enumerate() {
              if (bits >> i) & 1 == 1 {
                ok &= doc.attach("tgt", *r);
              }
            }
          }
          PurgeTarget::Absent => {}
        }
        if ok && *namesake != Namesake::None {
          match plant_foreign(&doc, "tgt", *namesake, idx as usize / 2) {
            Some(d) => doc = d,
            None => ok = false,
          }
        }
        if !ok {
          setup_failed = true;
          return Vec::new();
        }
        env.set_yield(*yield_mode == 1, *yield_mode == 2);
        let o = cx.run_purge(&env, &mut doc, "tgt", Plan::Set(plan.clone()), &meta);
        if fired(&o.log).len() < plan.len() {
          cx.rep.inc("plans_with_unfired_fault");
        }
        let tag = if *namesake != Namesake::None { Some("foreign_namesake") } else if *backing != Backing::Backed { Some(backing.class()) } else { None };
        if let Some(tag) = tag {
          match o.kind {
            Kind::Ok => cx.rep.inc(&format!("purge_ok:{tag}")),
            Kind::ErrClean => cx.rep.inc(&format!("purge_err_clean:{tag}")),
            Kind::ErrUndo => cx.rep.inc(&format!("purge_err_undo:{tag}")),
            Kind::Violation => {}
          }
        }
        o.log
      });
      cx.rep.count("plans_run", n);
      cx.rep.count("purge_plans_run", n);
      if setup_failed {
        cx.rep.inc("setup_failed");
      }
      cx.rep.distinct("purge_universe", &universe.iter().map(call_name).collect::<Vec<_>>().join(","));
    }
  }
}

// ====================================================================================================
// Seeded random histories: generate / purge / attach steps on one document + storage, random fault masks
// ====================================================================================================

fn history<D: Doc>(cx: &mut Cx, rng: &mut Rng, hid: u64) {
  let env = Env::new();
  env.set_err_variant(rng.below(5) as u8);
  let mut doc = D::empty();
  if rng.bool() && !populate(&mut doc, &env) {
    cx.rep.inc("setup_failed");
    return;
  }
  // methods that did not come from generate_method (possible purge targets): (fragment, backing)
  let mut statics: Vec<(String, Backing)> = Vec::new();
  if rng.chance(1, 3) {
    let mut ok = true;
    for (i, backing) in UNUSUAL_BACKINGS.iter().enumerate() {
      if !rng.chance(2, 3) {
        continue;
      }
      let frag = format!("u{i}");
      let general = rng.chance(2, 3);
      let scope = if general { MethodScope::VerificationMethod } else { MethodScope::VerificationRelationship(RELS[rng.usize(5)].0) };
      ok &= install_target(&mut doc, &env, &frag, scope, *backing);
      if general {
        for (r, _) in RELS {
          if rng.chance(2, 5) {
            ok &= doc.attach(&frag, r);
          }
        }
      }
      statics.push((frag, *backing));
    }
    if !ok {
      cx.rep.inc("setup_failed");
      return;
    }
    cx.rep.inc("histories_with_foreign_origin_methods");
  }
  // methods / services / references of other DIDs carrying fragments this history is going to use
  let mut foreign = false;
  if rng.chance(1, 3) {
    let n = 1 + rng.usize(6);
    for _ in 0..n {
      let frag = match rng.below(8) {
        0 if !statics.is_empty() => rng.pick(&statics).0.clone(),
        1 => "m0".to_string(),
        _ => format!("h{}", rng.usize(12)),
      };
      let kind = *rng.pick(&NAMESAKES);
      // a second namesake of the same (DID, fragment) may be refused by the deserialiser: keep the document then
      if let Some(d) = plant_foreign(&doc, &frag, kind, rng.usize(2)) {
        doc = d;
        foreign = true;
      }
    }
    if foreign {
      cx.rep.inc("histories_with_foreign_namesakes");
    }
  }
  cx.rep.inc("histories");
  // (fragment, general-purpose?) of the storage-backed methods created in this history, creation order
  let mut live: Vec<(String, bool)> = Vec::new();
  let max_extra = if rng.chance(1, 8) { 40 } else { 12 };
  let steps = 4 + rng.usize(max_extra);
  let scopes = all_scopes();
  for step in 0..steps {
    let density = *rng.pick(&[0u64, 1, 1, 2, 3]);
    let mut mask = 0u64;
    for i in 0..12 {
      if rng.below(4) < density {
        mask |= 1 << i;
      }
    }
    env.set_yield(rng.chance(1, 4), rng.chance(1, 8));
    let choice = rng.below(10);
    if choice < 5 {
      let scope = *rng.pick(&scopes);
      let fk = rng.below(20);
      let given: Option<String> = if fk < 10 {
        Some(format!("h{}", step))
      } else if fk < 17 {
        None
      } else if !live.is_empty() {
        Some(rng.pick(&live).0.clone())
      } else {
        Some("svc".into())
      };
      let kid = match rng.below(20) {
        0 | 1 => KidMode::Strip,
        2 | 3 => KidMode::Set(format!("k{step}")),
        4 => KidMode::Set(if live.is_empty() { "m0".to_string() } else { rng.pick(&live).0.clone() }),
        5 => KidMode::Set(format!("h{}", rng.usize(12))),
        _ => KidMode::Keep,
      };
      let clash = given.as_ref().map(|g| live.iter().any(|(f, _)| f == g) || doc.core().resolve_method(format!("#{g}").as_str(), None).is_some() || g == "svc").unwrap_or(false);
      let meta = Meta {
        origin: "history",
        class: format!("{}|{}|{}|kid={}{}", if clash || kid.class() == "set" { "maybe-clash" } else { "fresh" }, scope_key(scope), given.is_some(), kid.class(), if foreign { "|foreign" } else { "" }),
        sig_suffix: if foreign {
          ":foreign-namesake"
        } else {
          match kid {
            KidMode::Keep => "",
            KidMode::Strip => ":store-jwk-without-kid",
            KidMode::Set(_) => ":store-chosen-kid",
          }
        },
        full_query: foreign,
        detail: json!({"history": hid, "step": step, "live_methods": live.len(), "document_has_foreign_namesakes": foreign}),
      };
      env.set_kid_mode(kid);
      let o = cx.run_generate(&env, &mut doc, scope, given.as_deref(), Plan::Mask(mask), &meta);
      env.set_kid_mode(KidMode::Keep);
      cx.rep.inc("history_steps");
      match o.kind {
        Kind::Ok => {
          if let Some(f) = o.frag {
            live.push((f, scope == MethodScope::VerificationMethod));
          }
        }
        Kind::ErrClean => {}
        Kind::ErrUndo | Kind::Violation => return,
      }
    } else if choice < 8 {
      // target: a storage-backed method of this history, a method of foreign origin, or nothing at all
      let pick_static = !statics.is_empty() && rng.chance(1, 4);
      let (frag, idx, sidx) = if pick_static {
        let i = rng.usize(statics.len());
        (statics[i].0.clone(), None, Some(i))
      } else if live.is_empty() || rng.chance(1, 10) {
        ("nope".to_string(), None, None)
      } else {
        let i = rng.usize(live.len());
        (live[i].0.clone(), Some(i), None)
      };
      let backing = sidx.map(|i| statics[i].1).unwrap_or(Backing::Backed);
      let meta = Meta {
        origin: "history",
        class: format!(
          "{}{}",
          match (idx, sidx) {
            (Some(i), _) => if live[i].1 { "general".to_string() } else { "embedded".to_string() },
            (_, Some(_)) => format!("foreign-origin:{}", backing.name()),
            _ => "absent".to_string(),
          },
          if foreign { "|foreign" } else { "" }
        ),
        sig_suffix: if foreign { ":foreign-namesake" } else { backing.sig_suffix() },
        full_query: foreign,
        detail: json!({"history": hid, "step": step, "live_methods": live.len(), "target_backing": backing.name(), "document_has_foreign_namesakes": foreign}),
      };
      let o = cx.run_purge(&env, &mut doc, &frag, Plan::Mask(mask), &meta);
      cx.rep.inc("history_steps");
      match o.kind {
        Kind::Ok => {
          if let Some(i) = idx {
            live.remove(i);
          }
          if let Some(i) = sidx {
            statics.remove(i);
          }
        }
        Kind::ErrClean => {}
        Kind::ErrUndo | Kind::Violation => return,
      }
    } else {
      // fault-free set-up step: attach / detach a relationship on a general-purpose method
      let gens: Vec<&(String, bool)> = live.iter().filter(|(_, g)| *g).collect();
      if !gens.is_empty() {
        let f = gens[rng.usize(gens.len())].0.clone();
        let (r, _) = RELS[rng.usize(5)];
        // by full id: a fragment-only query is ambiguous next to foreign namesakes
        let q = format!("{}#{}", doc.did(), f);
        if rng.chance(3, 4) {
          doc.attach(&q, r);
        } else {
          doc.detach(&q, r);
        }
      }
    }
  }
}

// ====================================================================================================
// REAL failures (nothing injected): argument grid over the (wrapped, pass-through) in-memory stores
// ====================================================================================================

/// Key types handed to generate_method: the ones the shipped store advertises, near misses and unknown ones.
const KEY_TYPES: [&str; 8] = ["Ed25519", "BLS12381G2", "ed25519", "", "X25519", "secp256k1", "Ed25519 ", "P-256"];

#[derive(Clone, Debug)]
struct ArgScenario {
  key_type: &'static str,
  alg: JwsAlgorithm,
  scope: MethodScope,
  fragment: Option<&'static str>,
  populated: bool,
}

fn arg_scenarios() -> Vec<ArgScenario> {
  let mut v = Vec::new();
  for key_type in KEY_TYPES {
    for alg in JwsAlgorithm::ALL {
      for scope in all_scopes() {
        // fresh fragment, fragment from the kid, fragment of an existing general method / service (populated start)
        for fragment in [None, Some("key-1"), Some("#m0"), Some("svc")] {
          for populated in [false, true] {
            v.push(ArgScenario { key_type, alg: alg.clone(), scope, fragment, populated });
          }
        }
      }
    }
  }
  v
}

fn arg_scenario_kind(a: &ArgScenario) -> String {
  format!("{}|{}", a.key_type, if a.alg == JwsAlgorithm::EdDSA { "EdDSA" } else { "other" })
}

fn run_arg_scenario<D: Doc>(cx: &mut Cx, a: &ArgScenario, idx: u64) {
  let meta = Meta {
    origin: "arg-grid",
    class: format!(
      "args|kt={}|alg={}|{}|frag={}|pop{}",
      a.key_type,
      a.alg,
      if a.scope == MethodScope::VerificationMethod { "general" } else { "embedded" },
      a.fragment.unwrap_or("<kid>"),
      a.populated as u8
    ),
    sig_suffix: "",
    full_query: false,
    detail: json!({"arg_scenario": idx, "key_type": a.key_type, "alg": a.alg.to_string(), "populated_document": a.populated}),
  };
  let kt = KeyType::new(a.key_type);
  let mut setup_failed = false;
  let (n, _universe) = enumerate_plans(|plan| {
    let env = Env::new();
    env.set_err_variant((idx % 5) as u8);
    let mut doc = D::empty();
    if a.populated && !populate(&mut doc, &env) {
      setup_failed = true;
      return Vec::new();
    }
    let o = cx.run_generate_kt(&env, &mut doc, &kt, a.alg.clone(), a.scope, a.fragment, Plan::Set(plan.clone()), &meta);
    cx.rep.inc("arg_grid_runs");
    let nf = fired(&o.log).len();
    match o.kind {
      Kind::Ok => cx.rep.inc("arg_grid_ok"),
      Kind::ErrClean if nf == 0 => {
        cx.rep.inc("real_failure_checked_clean");
        // input classes known to the harness from the call's arguments alone
        if a.key_type == "Ed25519" && a.alg != JwsAlgorithm::EdDSA {
          cx.rep.inc("real_failure_checked_clean:supported_key_type_other_alg");
        } else if a.key_type == "Ed25519" {
          cx.rep.inc("real_failure_checked_clean:fragment_in_use");
        } else {
          cx.rep.inc("real_failure_checked_clean:other_key_type");
        }
      }
      Kind::ErrClean => cx.rep.inc("arg_grid_err_clean_with_fault"),
      Kind::ErrUndo => cx.rep.inc("arg_grid_err_undo"),
      Kind::Violation => {}
    }
    o.log
  });
  cx.rep.count("plans_run", n);
  cx.rep.count("arg_grid_plans_run", n);
  if setup_failed {
    cx.rep.inc("setup_failed");
  }
}

// ====================================================================================================
// REAL failures on the SHIPPED stores, unwrapped: Storage<JwkMemStore, KeyIdMemstore>, multi-step histories
// ====================================================================================================

type MemStorage = Storage<JwkMemStore, KeyIdMemstore>;

/// What the harness knows about one storage-backed method it has seen come into being.
struct Known {
  frag: String,
  general: bool,
  kid: KeyId,
  digest: MethodDigest,
  jwk: Jwk,
}

#[derive(Clone, Debug, PartialEq, Eq)]
struct ShippedSnap {
  doc: DocModel,
  key_count: usize,
  id_count: usize,
  /// per known method: key exists, recorded key id, the key signs verifiably under the method's public JWK
  known: Vec<(bool, Option<String>, bool)>,
}

fn raw_verify(jwk: &Jwk, msg: &[u8], sig: &[u8]) -> bool {
  let Ok(sig): Result<[u8; 64], _> = sig.try_into() else { return false };
  let Ok(okp) = jwk.try_okp_params() else { return false };
  let Some(x) = vh::b64::url_decode(&okp.x) else { return false };
  let Ok(x): Result<[u8; 32], _> = x.try_into() else { return false };
  let Ok(pk) = ed::PublicKey::try_from_bytes(x) else { return false };
  pk.verify(&ed::Signature::from_bytes(sig), msg)
}

fn shipped_snap<D: Doc>(doc: &D, st: &MemStorage, known: &[Known]) -> ShippedSnap {
  let msg: &[u8] = b"c09 shipped-store probe";
  let known = known
    .iter()
    .map(|k| {
      let exists = block_on(st.key_storage().exists(&k.kid)).unwrap_or(false);
      let rec = block_on(st.key_id_storage().get_key_id(&k.digest)).ok().map(|x| x.as_str().to_owned());
      let signs = match catch(|| block_on(st.key_storage().sign(&k.kid, msg, &k.jwk))) {
        Ok(Ok(sig)) => raw_verify(&k.jwk, msg, &sig),
        _ => false,
      };
      (exists, rec, signs)
    })
    .collect();
  ShippedSnap { doc: model_of(doc), key_count: block_on(st.key_storage().count()), id_count: block_on(st.key_id_storage().count()), known }
}

fn shipped_diff(pre: &ShippedSnap, post: &ShippedSnap) -> BTreeSet<String> {
  let mut t = BTreeSet::new();
  if pre.doc.methods != post.doc.methods {
    t.insert("document-methods-changed".to_string());
  }
  if pre.doc.refs != post.doc.refs {
    t.insert("document-references-changed".to_string());
  }
  if pre.doc.services != post.doc.services || pre.doc.rest != post.doc.rest {
    t.insert("document-other-changed".to_string());
  }
  if pre.key_count != post.key_count {
    t.insert(if post.key_count > pre.key_count { "key-store-grew" } else { "key-store-shrank" }.to_string());
  }
  if pre.id_count != post.id_count {
    t.insert(if post.id_count > pre.id_count { "keyid-store-grew" } else { "keyid-store-shrank" }.to_string());
  }
  for (a, b) in pre.known.iter().zip(post.known.iter()) {
    if a.0 != b.0 {
      t.insert("known-key-existence-changed".to_string());
    }
    if a.1 != b.1 {
      t.insert("known-keyid-changed".to_string());
    }
    if a.2 != b.2 {
      t.insert("known-key-signing-changed".to_string());
    }
  }
  t
}

/// Set-up through the stores' own API, never through the operations under test.
fn shipped_install<D: Doc>(doc: &mut D, st: &MemStorage, frag: &str, scope: MethodScope) -> Option<Known> {
  let out = block_on(st.key_storage().generate(JwkMemStore::ED25519_KEY_TYPE, JwsAlgorithm::EdDSA)).ok()?;
  let m = VerificationMethod::new_from_jwk(doc.core().id().clone(), out.jwk.clone(), Some(frag)).ok()?;
  let dg = MethodDigest::new(&m).ok()?;
  if !doc.add_method(m, scope) {
    return None;
  }
  block_on(st.key_id_storage().insert_key_id(dg.clone(), out.key_id.clone())).ok()?;
  Some(Known { frag: frag.to_owned(), general: scope == MethodScope::VerificationMethod, kid: out.key_id, digest: dg, jwk: out.jwk })
}

fn shipped_history<D: Doc>(cx: &mut Cx, rng: &mut Rng, hid: u64) {
  let st: MemStorage = Storage::new(JwkMemStore::new(), KeyIdMemstore::new());
  let mut doc = D::empty();
  let did = doc.did();
  let mut known: Vec<Known> = Vec::new();
  // live[i] = index into `known` of a method that is (as far as the harness has been told) in place
  let mut live: Vec<usize> = Vec::new();
  let mut has_svc = false;
  if rng.bool() {
    for (f, scope) in [("m0", MethodScope::VerificationMethod), ("e0", MethodScope::VerificationRelationship(MethodRelationship::AssertionMethod))] {
      match shipped_install(&mut doc, &st, f, scope) {
        Some(k) => {
          known.push(k);
          live.push(known.len() - 1);
        }
        None => {
          cx.rep.inc("setup_failed");
          return;
        }
      }
    }
    let mut ok = doc.attach("m0", MethodRelationship::Authentication) && doc.attach("m0", MethodRelationship::CapabilityInvocation);
    match Service::from_json(&format!(r#"{{"id":"{did}#svc","type":"LinkedDomains","serviceEndpoint":"https://example.com/"}}"#)) {
      Ok(s) => ok &= doc.add_service(s),
      Err(_) => ok = false,
    }
    if !ok {
      cx.rep.inc("setup_failed");
      return;
    }
    has_svc = true;
  }
  cx.rep.inc("shipped_histories");
  let scopes = all_scopes();
  let steps = 4 + rng.usize(10);
  for step in 0..steps {
    let scope = *rng.pick(&scopes);
    let choice = rng.below(12);
    // ---------------------------------------------------------------- generate_method
    if choice < 7 {
      // 0,1: arguments expected to work; 2..: arguments / state the store (or the document) has a reason to refuse
      let (kt, alg, fragment, why): (KeyType, JwsAlgorithm, Option<String>, &'static str) = match choice {
        0 | 1 => (JwkMemStore::ED25519_KEY_TYPE, JwsAlgorithm::EdDSA, if rng.bool() { Some(format!("s{step}")) } else { None }, "plain"),
        2 | 3 => {
          let others: Vec<JwsAlgorithm> = JwsAlgorithm::ALL.iter().filter(|a| **a != JwsAlgorithm::EdDSA).cloned().collect();
          (JwkMemStore::ED25519_KEY_TYPE, rng.pick(&others).clone(), if rng.bool() { Some(format!("s{step}")) } else { None }, "supported-key-type-other-alg")
        }
        4 => (KeyType::new(*rng.pick(&KEY_TYPES[1..])), rng.pick(JwsAlgorithm::ALL).clone(), if rng.bool() { Some(format!("s{step}")) } else { None }, "other-key-type"),
        5 => {
          let f = if !live.is_empty() && rng.chance(3, 4) {
            let k = &known[*rng.pick(&live)];
            if rng.bool() { k.frag.clone() } else { format!("#{}", k.frag) }
          } else if has_svc {
            "svc".to_string()
          } else {
            format!("s{step}")
          };
          (JwkMemStore::ED25519_KEY_TYPE, JwsAlgorithm::EdDSA, Some(f), "fragment-maybe-in-use")
        }
        _ => {
          // both at once: fragment in use AND arguments the store refuses
          let f = if !live.is_empty() { known[*rng.pick(&live)].frag.clone() } else { format!("s{step}") };
          (KeyType::new(*rng.pick(&KEY_TYPES)), rng.pick(JwsAlgorithm::ALL).clone(), Some(f), "mixed")
        }
      };
      cx.rep.eval();
      cx.rep.inc("shipped_generate_runs");
      let pre = shipped_snap(&doc, &st, &known);
      let pre_ids: BTreeSet<String> = pre.doc.methods.iter().map(|(i, _, _)| i.clone()).collect();
      let res = catch(|| block_on(doc.generate_method(&st, kt.clone(), alg.clone(), fragment.as_deref(), scope)));
      let post = shipped_snap(&doc, &st, &known);
      cx.rep.inc("oracle_checks");
      let case = json!({"op":"generate_method","stores":"JwkMemStore + KeyIdMemstore (unwrapped)","doc_type":D::NAME,"history":hid,"step":step,"why":why,
        "key_type":kt.as_str(),"alg":alg.to_string(),"scope":scope_key(scope),"fragment":fragment,
        "key_store_count":[pre.key_count, post.key_count],"keyid_store_count":[pre.id_count, post.id_count],
        "before":doc_refs_json(&pre.doc),"after":doc_refs_json(&post.doc)});
      match res {
        Err(p) => {
          cx.rep.violation(&format!("generate-panic@{}", p.file_only()), &format!("generate_method panicked: {} at {}", p.msg, p.loc()), case);
          return;
        }
        Ok(Err(e)) if is_undo(&e) => {
          // nothing was injected: a reported failed undo still is the statement's explicit exception
          cx.rep.inc("shipped_err_undo_reported");
          return;
        }
        Ok(Err(e)) => {
          let t = shipped_diff(&pre, &post);
          if t.is_empty() {
            cx.rep.inc("shipped_generate_err_clean");
            cx.rep.inc(&format!("shipped_generate_err_clean:{why}"));
            cx.rep.distinct("nontrivial", &format!("shipped|{}|generate|{}|{}|err", D::NAME, why, scope == MethodScope::VerificationMethod));
          } else {
            let tags = t.iter().cloned().collect::<Vec<_>>().join("+");
            let mut case = case;
            case["error"] = json!(format!("{e}"));
            cx.rep.violation(
              &format!("shipped-generate-err:{tags}"),
              &format!(
                "{}::generate_method(key_type={:?}, alg={}, scope={}, fragment={:?}) on the shipped in-memory stores returned Err({}) (not UndoOperationFailed) but: {} (key store count {} -> {}, key-id store count {} -> {})",
                D::NAME, kt.as_str(), alg, scope_key(scope), fragment, e, tags, pre.key_count, post.key_count, pre.id_count, post.id_count
              ),
              case,
            );
            return;
          }
        }
        Ok(Ok(frag)) => {
          // completed: exactly one new method with the announced id, one more key, one more key id, recorded and signing
          let mut bad: BTreeSet<String> = BTreeSet::new();
          let new_id = format!("{did}#{frag}");
          let new: Vec<&(String, String, String)> = post.doc.methods.iter().filter(|(i, _, _)| !pre_ids.contains(i)).collect();
          if new.len() != 1 || new[0].0 != new_id || pre.doc.methods.iter().any(|m| !post.doc.methods.contains(m)) {
            bad.insert("method-not-added-as-announced".into());
          } else if new[0].1 != scope_key(scope) {
            bad.insert("method-in-wrong-scope".into());
          }
          if let Some(f) = &fragment {
            if f.trim_start_matches('#') != frag {
              bad.insert("method-not-added-as-announced".into());
            }
          }
          if pre.doc.refs != post.doc.refs || pre.doc.services != post.doc.services || pre.doc.rest != post.doc.rest {
            bad.insert("document-otherwise-changed".into());
          }
          if post.key_count != pre.key_count + 1 {
            bad.insert("key-store-not-grown-by-one".into());
          }
          if post.id_count != pre.id_count + 1 {
            bad.insert("keyid-store-not-grown-by-one".into());
          }
          if pre.known != post.known {
            bad.insert("other-entries-changed".into());
          }
          let mut newk: Option<Known> = None;
          if bad.is_empty() {
            let m = catch(|| doc.core().resolve_method(new_id.as_str(), Some(scope)).cloned()).ok().flatten();
            match m {
              None => {
                bad.insert("method-does-not-resolve-in-scope".into());
              }
              Some(m) => match (catch(|| MethodDigest::new(&m)), m.data()) {
                (Ok(Ok(dg)), MethodData::PublicKeyJwk(jwk)) => match block_on(st.key_id_storage().get_key_id(&dg)) {
                  Ok(kid) => {
                    if !block_on(st.key_storage().exists(&kid)).unwrap_or(false) {
                      bad.insert("recorded-key-does-not-exist".into());
                    }
                    let payload: &[u8] = b"c09 payload";
                    match catch(|| block_on(doc.create_jws(&st, new_id.as_str(), payload, &JwsSignatureOptions::default()))) {
                      Ok(Ok(jws)) if own_verify(jwk, jws.as_str(), payload) => cx.rep.inc("shipped_generate_sign_verified"),
                      Ok(Ok(_)) => {
                        bad.insert("signature-does-not-verify".into());
                      }
                      _ => {
                        bad.insert("signing-fails".into());
                      }
                    }
                    newk = Some(Known { frag: frag.clone(), general: scope == MethodScope::VerificationMethod, kid, digest: dg, jwk: jwk.clone() });
                  }
                  Err(_) => {
                    bad.insert("keyid-not-recorded-for-method".into());
                  }
                },
                _ => {
                  bad.insert("method-digest-fails".into());
                }
              },
            }
          }
          if !bad.is_empty() {
            let tags = bad.iter().cloned().collect::<Vec<_>>().join("+");
            let mut case = case;
            case["returned_fragment"] = json!(frag);
            cx.rep.violation(
              &format!("shipped-generate-ok:{tags}"),
              &format!(
                "{}::generate_method(key_type={:?}, alg={}, scope={}, fragment={:?}) on the shipped in-memory stores returned Ok({:?}) but: {}",
                D::NAME, kt.as_str(), alg, scope_key(scope), fragment, frag, tags
              ),
              case,
            );
            return;
          }
          cx.rep.inc("shipped_generate_ok");
          cx.rep.distinct("nontrivial", &format!("shipped|{}|generate|{}|{}|ok", D::NAME, why, scope == MethodScope::VerificationMethod));
          if let Some(k) = newk {
            known.push(k);
            live.push(known.len() - 1);
          }
        }
      }
    } else if choice < 11 {
      // ---------------------------------------------------------------- purge_method
      // target: a live method (possibly after the harness removed its key / key id from the store directly, which
      // makes the store's delete / get_key_id fail for real), a method already purged, or an id never there
      let (frag, li, why): (String, Option<usize>, &'static str) = if live.is_empty() || rng.chance(1, 6) {
        let purged: Vec<&Known> = known.iter().enumerate().filter(|(i, _)| !live.contains(i)).map(|(_, k)| k).collect();
        if !purged.is_empty() && rng.bool() {
          (rng.pick(&purged).frag.clone(), None, "already-purged")
        } else {
          ("nope".to_string(), None, "absent")
        }
      } else {
        let li = rng.usize(live.len());
        let k = &known[live[li]];
        let intact = block_on(st.key_storage().exists(&k.kid)).unwrap_or(false) && block_on(st.key_id_storage().get_key_id(&k.digest)).is_ok();
        match if intact { rng.below(4) } else { 9 } {
          0 => {
            if block_on(st.key_storage().delete(&k.kid)).is_err() {
              panic!("harness: direct delete of a live key failed");
            }
            (k.frag.clone(), Some(li), "key-gone-from-store")
          }
          1 => {
            if block_on(st.key_id_storage().delete_key_id(&k.digest)).is_err() {
              panic!("harness: direct delete of a live key id failed");
            }
            (k.frag.clone(), Some(li), "keyid-gone-from-store")
          }
          9 => (k.frag.clone(), Some(li), "half-backed-since-earlier-step"),
          _ => (k.frag.clone(), Some(li), "backed"),
        }
      };
      let target_id = format!("{did}#{frag}");
      let url = identity_did::DIDUrl::parse(&target_id).expect("harness: target id");
      cx.rep.eval();
      cx.rep.inc("shipped_purge_runs");
      let pre = shipped_snap(&doc, &st, &known);
      let nrefs = pre.doc.refs.iter().filter(|(_, i)| *i == target_id).count();
      let res = catch(|| block_on(doc.purge_method(&st, &url)));
      let post = shipped_snap(&doc, &st, &known);
      cx.rep.inc("oracle_checks");
      let case = json!({"op":"purge_method","stores":"JwkMemStore + KeyIdMemstore (unwrapped)","doc_type":D::NAME,"history":hid,"step":step,"target":target_id,
        "target_state":why,"target_references":nrefs,"key_store_count":[pre.key_count, post.key_count],"keyid_store_count":[pre.id_count, post.id_count],
        "before":doc_refs_json(&pre.doc),"after":doc_refs_json(&post.doc)});
      match res {
        Err(p) => {
          cx.rep.violation(&format!("purge-panic@{}", p.file_only()), &format!("purge_method panicked: {} at {}", p.msg, p.loc()), case);
          return;
        }
        Ok(Err(e)) if is_undo(&e) => {
          cx.rep.inc("shipped_err_undo_reported");
          return;
        }
        Ok(Err(e)) => {
          let t = shipped_diff(&pre, &post);
          if t.is_empty() {
            cx.rep.inc("shipped_purge_err_clean");
            cx.rep.inc(&format!("shipped_purge_err_clean:{why}"));
            cx.rep.distinct("nontrivial", &format!("shipped|{}|purge|{}|refs{}|err", D::NAME, why, nrefs.min(2)));
            // the harness's own sabotage stays: the method is in the document but half-backed; take it out of `live`
            // for generate-clash purposes? No: it still is in the document. Keep it live (a later purge fails again).
          } else {
            let tags = t.iter().cloned().collect::<Vec<_>>().join("+");
            let mut case = case;
            case["error"] = json!(format!("{e}"));
            cx.rep.violation(
              &format!("shipped-purge-err:{tags}:{}", if li.is_some() && why != "backed" { "target-half-backed" } else { why }),
              &format!(
                "{}::purge_method({}) [{}; {} reference(s)] on the shipped in-memory stores returned Err({}) (not UndoOperationFailed) but: {} (key store count {} -> {}, key-id store count {} -> {})",
                D::NAME, target_id, why, nrefs, e, tags, pre.key_count, post.key_count, pre.id_count, post.id_count
              ),
              case,
            );
            return;
          }
        }
        Ok(Ok(())) => {
          let mut bad: BTreeSet<String> = BTreeSet::new();
          match li {
            None => {
              bad.insert("ok-for-absent-method".into());
            }
            Some(li) => {
              let ki = live[li];
              if post.doc.methods.iter().any(|(i, _, _)| *i == target_id) {
                bad.insert("method-left".into());
              }
              if post.doc.refs.iter().any(|(_, i)| *i == target_id) {
                bad.insert("reference-left".into());
              }
              if post.known[ki].0 {
                bad.insert("key-left".into());
              }
              if post.known[ki].1.is_some() {
                bad.insert("keyid-left".into());
              }
              // nothing else moved
              let others_doc = pre.doc.methods.iter().filter(|(i, _, _)| *i != target_id).all(|m| post.doc.methods.contains(m))
                && pre.doc.refs.iter().filter(|(_, i)| *i != target_id).all(|r| post.doc.refs.contains(r))
                && post.doc.methods.iter().all(|m| pre.doc.methods.contains(m))
                && post.doc.refs.iter().all(|r| pre.doc.refs.contains(r))
                && pre.doc.services == post.doc.services
                && pre.doc.rest == post.doc.rest;
              if !others_doc {
                bad.insert("document-otherwise-changed".into());
              }
              if pre.known.iter().zip(post.known.iter()).enumerate().any(|(i, (a, b))| i != ki && a != b) {
                bad.insert("other-entries-changed".into());
              }
              let gone_keys = pre.known[ki].0 as usize;
              let gone_ids = pre.known[ki].1.is_some() as usize;
              if post.key_count + gone_keys != pre.key_count {
                bad.insert("key-store-count-unexplained".into());
              }
              if post.id_count + gone_ids != pre.id_count {
                bad.insert("keyid-store-count-unexplained".into());
              }
            }
          }
          if !bad.is_empty() {
            let tags = bad.iter().cloned().collect::<Vec<_>>().join("+");
            cx.rep.violation(
              &format!("shipped-purge-ok:{tags}:{}", if li.is_some() && why != "backed" { "target-half-backed" } else { why }),
              &format!("{}::purge_method({}) [{}; {} reference(s)] on the shipped in-memory stores returned Ok but: {}", D::NAME, target_id, why, nrefs, tags),
              case,
            );
            return;
          }
          cx.rep.inc("shipped_purge_ok");
          cx.rep.distinct("nontrivial", &format!("shipped|{}|purge|{}|refs{}|ok", D::NAME, why, nrefs.min(2)));
          if let Some(li) = li {
            live.remove(li);
          }
        }
      }
    } else {
      // fault-free set-up step: attach / detach a relationship on a live general-purpose method
      let gens: Vec<usize> = live.iter().copied().filter(|i| known[*i].general).collect();
      if !gens.is_empty() {
        let q = format!("{}#{}", did, known[*rng.pick(&gens)].frag);
        let (r, _) = RELS[rng.usize(5)];
        if rng.chance(3, 4) {
          doc.attach(&q, r);
        } else {
          doc.detach(&q, r);
        }
      }
    }
  }
}

// ====================================================================================================

fn main() {
  let args = Args::parse();
  let scale = args.extra_u64("scale", 1000).max(1);
  let mut cx = Cx { rep: Report::new("C09") };
  cx.rep.rule(
    "case = one generate_method / purge_method call on a fresh or evolving (document, key store, key-id store) under one fault plan; \
     exhaustive part: for every scenario (doc type x scope x fragment given/#given/from-kid x start document fresh/populated/clashing/dangling-reference, \
     resp. doc type x target embedded-in-each-relationship / general with each of the 32 reference subsets / absent x populated x poll order) every subset \
     of the call occurrences observed in any run of that scenario (operation + undo path) is injected; the same grids are repeated for key stores      returning a public JWK without / with their own kid, for purge targets not produced by generate_method (JWK method without key id / without key,      multibase backed / unbacked / undecodable, base58 undecodable, custom material) and for documents holding a method / service / reference of      another DID with the target's fragment; random part: seeded histories of generate/purge/attach \
     steps with an n-th-call fault mask; REAL failures (nothing injected): generate_method over every (key type incl. unsupported / near-miss spellings x \
     JwsAlgorithm x scope x fragment fresh/from-kid/in-use x start document) combined with every fault subset, and seeded multi-step histories on the \
     UNWRAPPED shipped stores (JwkMemStore + KeyIdMemstore) mixing working calls with calls the stores refuse for real (incompatible / unsupported \
     arguments, fragment in use, purge of an absent / already purged method, purge after the key or the key id vanished from the store), each \
     failing call followed by a comparison of document, JwkMemStore::count, KeyIdMemstore::count and existence / recorded id / signing ability of \
     every key the harness knows. non-trivial+distinct = (doc type, op, scenario class, set of faults that actually fired, call sequence, outcome)",
  );

  // ---- exhaustive fault enumeration (seed-independent)
  let scs = scenarios(args.thorough);
  let stride = ((1000 + scale - 1) / scale).max(1);
  let mut seen_kinds: BTreeSet<String> = BTreeSet::new();
  let mut sel = 0u64;
  for (i, sc) in scs.iter().enumerate() {
    for dt in 0..2u64 {
      let kind = format!("{}|{}", dt, scenario_kind(sc));
      let first = seen_kinds.insert(kind);
      let idx = i as u64 * 2 + dt;
      if !(first || scale >= 1000 || idx % stride == 0) {
        continue;
      }
      sel += 1;
      if !args.mine(sel) {
        continue;
      }
      cx.rep.inc("scenarios");
      if dt == 0 {
        run_scenario::<CoreDocument>(&mut cx, sc, idx);
      } else {
        run_scenario::<IotaDocument>(&mut cx, sc, idx);
      }
    }
  }

  // ---- REAL failures: (key type x algorithm x scope x fragment x start document) grid, nothing injected + every fault subset
  let ascs = arg_scenarios();
  let mut seen_akinds: BTreeSet<String> = BTreeSet::new();
  // quick tier: every (key type, alg) pair with every scope on one start document / fragment form is kept, the rest is strided
  let astride = if args.thorough { stride } else { stride * 3 };
  for (i, a) in ascs.iter().enumerate() {
    for dt in 0..2u64 {
      let first = seen_akinds.insert(format!("{}|{}", dt, arg_scenario_kind(a)));
      let idx = i as u64 * 2 + dt;
      let pair_rep = scale >= 1000 && a.fragment.is_none() && a.populated;
      if !(first || pair_rep || idx % astride == 0) {
        continue;
      }
      sel += 1;
      if !args.mine(sel) {
        continue;
      }
      cx.rep.inc("arg_scenarios");
      if dt == 0 {
        run_arg_scenario::<CoreDocument>(&mut cx, a, idx);
      } else {
        run_arg_scenario::<IotaDocument>(&mut cx, a, idx);
      }
    }
  }

  // ---- REAL failures on the unwrapped shipped stores: seeded histories
  let n_ship_total: u64 = if args.thorough { 200_000 } else { 6_000 };
  let n_ship = (n_ship_total * scale / 1000 / args.nshards.max(1)).max(2);
  let mut srng = args.rng(10);
  for h in 0..n_ship {
    let mut r = srng.fork();
    if h % 2 == 0 {
      shipped_history::<CoreDocument>(&mut cx, &mut r, h);
    } else {
      shipped_history::<IotaDocument>(&mut cx, &mut r, h);
    }
  }

  // ---- seeded random histories
  let n_hist_total: u64 = if args.thorough { 1_500_000 } else { 24_000 };
  let n_hist = (n_hist_total * scale / 1000 / args.nshards.max(1)).max(2);
  let mut rng = args.rng(9);
  for h in 0..n_hist {
    let mut r = rng.fork();
    if h % 2 == 0 {
      history::<CoreDocument>(&mut cx, &mut r, h);
    } else {
      history::<IotaDocument>(&mut cx, &mut r, h);
    }
  }
  // ---- observation only (outside the quantifier: there is no method to purge): purge_method on an id that is
  // held only by dangling references. Recorded as a note, never a violation.
  if args.shard == 0 {
    fn probe<D: Doc>() -> Value {
      let env = Env::new();
      let mut doc = D::empty();
      if !populate(&mut doc, &env) {
        return json!("setup failed");
      }
      let Some(mut doc) = plant_dangling(&doc, "ghost", &["authentication", "keyAgreement"]) else { return json!("setup failed") };
      let before = model_of(&doc);
      let url = identity_did::DIDUrl::parse(format!("{}#ghost", doc.did())).expect("url");
      let r = catch(|| block_on(doc.purge_method(&env.st, &url)));
      let after = model_of(&doc);
      json!({
        "result": match r { Ok(Ok(())) => "Ok".to_string(), Ok(Err(e)) => format!("Err({e})"), Err(p) => format!("panic {}", p.loc()) },
        "references_dropped": before.refs.difference(&after.refs).map(|(r, i)| format!("{r} -> {i}")).collect::<Vec<_>>(),
      })
    }
    cx.rep.note("obs_purge_of_id_held_only_by_dangling_references", json!({"CoreDocument": probe::<CoreDocument>(), "IotaDocument": probe::<IotaDocument>()}));
  }
  cx.rep.note("scenarios_total", json!(scs.len() * 2));
  cx.rep.note(
    "determinism",
    json!("workload, counters and signatures are functions of (seed,tier,shard,nshards,scale); key bytes / key ids come from the memstore's own OS randomness and never influence a decision"),
  );
  cx.rep.finish();
}
