//! C11 — JOSE header policy (crit, b64, disjointness, alg) is enforced fail-closed.
//! Full decision table over protected/unprotected header contents for every encoder and decoder
//! entry point; the expected verdict is a predicate written from the property statement.
#[path = "../shared/jwsb.rs"]
mod jwsb;

use identity_jose::jwk::Jwk;
use identity_jose::jws::{
  CharSet, CompactJwsEncoder, CompactJwsEncodingOptions, Decoder, FlattenedJwsEncoder, GeneralJwsEncoder, JwsHeader, JwsVerifierFn,
  Recipient, SignatureVerificationError, VerificationInput,
};
use serde_json::json;
use vh::panicmon::catch;
use vh::{Args, Report};

const CRITS: &[Option<&[&str]>] = &[
  None,
  Some(&[]),
  Some(&["b64"]),
  Some(&["b64", "b64"]),
  Some(&["alg"]),
  Some(&["exp"]),
  Some(&["x-unknown"]),
  Some(&["kid"]),
  Some(&["x-c"]),
  Some(&["B64"]),
  Some(&["b64", "x-unknown"]),
  Some(&["x5t#S256"]),
  // a list that mixes the implemented extension with an unimplemented one that IS present as a header parameter
  Some(&["b64", "x-c"]),
  Some(&["x-c", "b64"]),
];
/// JOSE header parameter names registered by RFC 7515/7516/7518.
const REGISTERED: &[&str] = &[
  "alg", "jku", "jwk", "kid", "x5u", "x5c", "x5t", "x5t#S256", "typ", "cty", "crit", "enc", "zip", "epk", "apu", "apv", "iv", "tag", "p2s", "p2c",
];

#[derive(Clone, Copy, Debug, PartialEq)]
struct H {
  alg: bool,
  b64: Option<bool>,
  crit: usize,
  kid: bool,
  typ: bool,
  x5t: bool,
  xc: bool,
  xa: bool, // a second custom parameter whose name sorts before "x-c"
}

impl H {
  fn all(names: usize) -> Vec<H> {
    let mut v = Vec::new();
    for alg in [false, true] {
      for b64 in [None, Some(true), Some(false)] {
        for crit in 0..CRITS.len() {
          for n in 0..(1usize << names) {
            v.push(H { alg, b64, crit, kid: n & 1 != 0, xc: n & 2 != 0, xa: n & 4 != 0, typ: n & 8 != 0, x5t: n & 16 != 0 });
          }
        }
      }
    }
    v
  }
  fn json(&self, variant: u64) -> String {
    let mut m: Vec<String> = Vec::new();
    if self.alg {
      m.push("\"alg\":\"EdDSA\"".into());
    }
    if let Some(b) = self.b64 {
      m.push(format!("\"b64\":{}", b));
    }
    if let Some(c) = CRITS[self.crit] {
      let items: Vec<String> = c.iter().map(|s| format!("\"{}\"", s)).collect();
      m.push(format!("\"crit\":[{}]", items.join(",")));
    }
    if self.kid {
      m.push("\"kid\":\"did:example:123#k\"".into());
    }
    if self.typ {
      m.push("\"typ\":\"JWT\"".into());
    }
    if self.x5t {
      m.push("\"x5t#S256\":\"abc\"".into());
    }
    if self.xa {
      m.push("\"a-b\":\"first\"".into());
    }
    if self.xc {
      m.push("\"x-c\":1".into());
    }
    if variant % 2 == 1 {
      m.reverse();
    }
    format!("{{{}}}", m.join(","))
  }
  fn has(&self, name: &str) -> bool {
    match name {
      "alg" => self.alg,
      "b64" => self.b64.is_some(),
      "crit" => CRITS[self.crit].is_some(),
      "kid" => self.kid,
      "typ" => self.typ,
      "x5t#S256" => self.x5t,
      "x-c" => self.xc,
      "a-b" => self.xa,
      _ => false,
    }
  }
  fn eff_b64(h: Option<&H>) -> bool {
    h.and_then(|h| h.b64).unwrap_or(true)
  }
}

const NAMES: &[&str] = &["alg", "b64", "crit", "kid", "typ", "x5t#S256", "x-c", "a-b"];

/// The rules of the property statement that this header pair violates.
fn violated(prot: Option<&H>, unprot: Option<&H>) -> Vec<&'static str> {
  let mut r = Vec::new();
  if unprot.map(|h| h.has("crit")).unwrap_or(false) {
    r.push("crit-outside-protected");
  }
  if let Some(Some(values)) = prot.map(|h| CRITS[h.crit]) {
    if values.is_empty() {
      r.push("crit-empty");
    }
    for v in values {
      if REGISTERED.contains(v) {
        if !r.contains(&"crit-names-registered") {
          r.push("crit-names-registered");
        }
      } else if *v != "b64" {
        if !r.contains(&"crit-names-unimplemented-extension") {
          r.push("crit-names-unimplemented-extension");
        }
      } else if !prot.map(|h| h.has("b64")).unwrap_or(false) && !unprot.map(|h| h.has("b64")).unwrap_or(false) {
        if !r.contains(&"crit-names-absent-parameter") {
          r.push("crit-names-absent-parameter");
        }
      }
    }
  }
  if unprot.map(|h| h.has("b64")).unwrap_or(false) {
    r.push("b64-outside-protected");
  }
  if let Some(p) = prot {
    if p.b64.is_some() && !CRITS[p.crit].map(|c| c.contains(&"b64")).unwrap_or(false) {
      r.push("b64-not-in-crit");
    }
  }
  if let (Some(p), Some(u)) = (prot, unprot) {
    if NAMES.iter().any(|n| p.has(n) && u.has(n)) {
      r.push("headers-share-parameter");
    }
  }
  r
}

fn rule_tag(rules: &[&'static str]) -> String {
  match rules.len() {
    0 => "none".into(),
    1 => rules[0].into(),
    _ => "several-rules".into(),
  }
}

struct Cx {
  rep: Report,
  jwk: Jwk,
  /// the same key with its optional `alg` member set (a key's own alg says nothing about what the header protects)
  jwk_alg: Jwk,
}

fn liar() -> JwsVerifierFn<impl Fn(VerificationInput, &Jwk) -> Result<(), SignatureVerificationError>> {
  JwsVerifierFn::from(|_input: VerificationInput, _key: &Jwk| Ok(()))
}

impl Cx {
  fn judge(&mut self, entry: &str, accepted: Result<bool, vh::panicmon::PanicRec>, rules: &[&'static str], extra_rule: Option<&'static str>, case: serde_json::Value) {
    self.rep.eval();
    self.rep.count("distinct_exact", 1);
    let mut all: Vec<&'static str> = rules.to_vec();
    if let Some(e) = extra_rule {
      all.push(e);
    }
    let expect_accept = all.is_empty();
    match accepted {
      Err(p) => self.rep.violation(&format!("{}:panic@{}", entry, p.file_only()), &format!("{} panicked: {} at {}", entry, p.msg, p.loc()), case),
      Ok(acc) => {
        self.rep.inc(if acc { "accepted" } else { "rejected" });
        self.rep.inc(&format!("{}:{}", entry, if acc { "accepted" } else { "rejected" }));
        if acc && !expect_accept {
          self.rep.violation(
            &format!("{}:accepts-illegal:{}", entry, rule_tag(&all)),
            &format!("{} accepted a header set violating {:?}: {}", entry, all, case),
            case.clone(),
          );
        } else if !acc && expect_accept {
          self.rep.violation(&format!("{}:rejects-legal", entry), &format!("{} rejected a header set violating no rule: {}", entry, case), case.clone());
        }
        if self.rep.want_sample() && !expect_accept && all.len() == 1 {
          self.rep.sample(json!({"entry":entry,"case":case,"violates":all,"library_accepted":acc}));
        }
      }
    }
  }

  fn pair(&mut self, idx: u64, prot: Option<&H>, unprot: Option<&H>) {
    let rules = violated(prot, unprot);
    self.rep.inc(match rules.len() {
      0 => "rows_violating_no_rule",
      1 => "rows_violating_exactly_one_rule",
      _ => "rows_violating_several_rules",
    });
    if rules.len() == 1 {
      self.rep.inc(&format!("single-rule-rows:{}", rules[0]));
    }
    let pj = prot.map(|h| h.json(idx));
    let uj = unprot.map(|h| h.json(idx / 2));
    self.run_pair(idx, pj, uj, rules, H::eff_b64(prot), prot.map(|h| h.alg).unwrap_or(false));
  }

  /// Runs one header pair (given as JSON text) through every entry point and judges it against `rules`.
  fn run_pair(&mut self, idx: u64, pj: Option<String>, uj: Option<String>, rules: Vec<&'static str>, eff_b64_prot: bool, prot_alg: bool) {
    let case = json!({"protected":pj,"unprotected":uj});
    let ph: Option<JwsHeader> = pj.as_ref().map(|j| serde_json::from_str(j).expect("table header must deserialize"));
    let uh: Option<JwsHeader> = uj.as_ref().map(|j| serde_json::from_str(j).expect("table header must deserialize"));
    let payload = b"hello";

    self.encoders(&ph, &uh, &rules, eff_b64_prot, &case);

    // ---- decoders (tokens assembled by the harness so that illegal header sets reach them)
    let payload_seg = "aGVsbG8"; // valid both as base64url text and as an unencoded payload
    let pseg = pj.as_ref().map(|j| jwsb::protected_segment(j));
    let entry = jwsb::SigEntry { protected_segment: pseg.clone(), unprotected_json: uj.clone(), signature_segment: "c2ln".into() };
    let verify_extra = if prot_alg { None } else { Some("verify-without-protected-alg") };
    let dec = Decoder::new();
    let jwk = if idx % 2 == 0 { self.jwk.clone() } else { self.jwk_alg.clone() };
    if uj.is_none() {
      if let Some(pseg) = &pseg {
        let tok = format!("{}.{}.c2ln", pseg, payload_seg);
        let r = catch(|| dec.decode_compact_serialization(tok.as_bytes(), None).map(|item| item.verify(&liar(), &jwk).is_ok()));
        self.decode_judge("decode-compact", r, &rules, verify_extra, &case);
      }
    }
    let tok = jwsb::flattened(Some(payload_seg), &entry, idx as u8);
    let r = catch(|| dec.decode_flattened_serialization(tok.as_bytes(), None).map(|item| item.verify(&liar(), &jwk).is_ok()));
    self.decode_judge("decode-flattened", r, &rules, verify_extra, &case);
    // detached flattened
    let tok = jwsb::flattened(None, &entry, idx as u8);
    let r = catch(|| dec.decode_flattened_serialization(tok.as_bytes(), Some(payload_seg.as_bytes())).map(|item| item.verify(&liar(), &jwk).is_ok()));
    self.decode_judge("decode-flattened-detached", r, &rules, verify_extra, &case);

    let good = jwsb::SigEntry { protected_segment: Some(jwsb::protected_segment(r#"{"alg":"EdDSA"}"#)), unprotected_json: None, signature_segment: "c2ln".into() };
    for (name, entries, pos) in [("decode-general", vec![entry.clone()], 0usize), ("decode-general-second", vec![good.clone(), entry.clone()], 1usize)] {
      let tok = jwsb::general(Some(payload_seg), &entries, idx as u8);
      let r = catch(|| {
        dec.decode_general_serialization(tok.as_bytes(), None).and_then(|it| {
          let mut items: Vec<_> = it.collect();
          if items.len() != entries.len() {
            return Err(identity_jose::error::Error::InvalidContent("harness: wrong number of items"));
          }
          items.remove(pos).map(|item| item.verify(&liar(), &jwk).is_ok())
        })
      });
      self.decode_judge(name, r, &rules, verify_extra, &case);
    }
  }

  /// Every encoder entry point for one header pair (given as header values, however they were built).
  fn encoders(&mut self, ph: &Option<JwsHeader>, uh: &Option<JwsHeader>, rules: &[&'static str], eff_b64_prot: bool, case: &serde_json::Value) {
    let payload = b"hello";
    let rules: Vec<&'static str> = rules.to_vec();
    let case = case.clone();
    // ---- encoders
    if uh.is_none() {
      if let Some(ph) = ph {
        for (name, opt) in [
          ("compact-encoder", CompactJwsEncodingOptions::NonDetached { charset_requirements: CharSet::Default }),
          ("compact-encoder-detached", CompactJwsEncodingOptions::Detached),
        ] {
          let r = catch(|| CompactJwsEncoder::new_with_options(payload, ph, opt).is_ok());
          self.judge(name, r, &rules, None, case.clone());
        }
      }
    }
    for detached in [false, true] {
      let r = catch(|| FlattenedJwsEncoder::new(payload, mk(ph, uh), detached).is_ok());
      self.judge("flattened-encoder", r, &rules, None, case.clone());
      let r = catch(|| GeneralJwsEncoder::new(payload, mk(ph, uh), detached).is_ok());
      self.judge("general-encoder-new", r, &rules, None, case.clone());
    }
    // add_recipient after a valid first recipient with effective b64 true / false
    for first_kind in 0..3u8 {
      // 0: protected {alg}; 1: protected {alg, b64:false, crit}; 2: unprotected-only {alg} (effective b64 = true)
      let first_b64_false = first_kind == 1;
      let first_json = if first_b64_false { r#"{"alg":"EdDSA","b64":false,"crit":["b64"]}"# } else { r#"{"alg":"EdDSA"}"# };
      let first: JwsHeader = serde_json::from_str(first_json).unwrap();
      let eff_first = !first_b64_false;
      let disagree = eff_b64_prot != eff_first;
      let r = catch(|| {
        let first_recipient = if first_kind == 2 { Recipient::new().unprotected(&first) } else { Recipient::new().protected(&first) };
        let enc = GeneralJwsEncoder::new(payload, first_recipient, false).expect("valid first recipient");
        let enc = enc.set_signature(b"sig");
        enc.add_recipient(mk(ph, uh)).is_ok()
      });
      let mut c = case.clone();
      c[if first_kind == 2 { "first_recipient_unprotected" } else { "first_recipient_protected" }] = json!(first_json);
      self.judge("general-encoder-add_recipient", r, &rules, if disagree { Some("recipients-disagree-on-b64") } else { None }, c);
    }

  }

  /// Decode acceptance is judged against the header rules; verification additionally needs a protected alg.
  fn decode_judge(
    &mut self,
    entry: &str,
    r: Result<Result<bool, identity_jose::error::Error>, vh::panicmon::PanicRec>,
    rules: &[&'static str],
    verify_extra: Option<&'static str>,
    case: &serde_json::Value,
  ) {
    match r {
      Err(p) => self.judge(entry, Err(p), rules, None, case.clone()),
      Ok(Err(_)) => self.judge(entry, Ok(false), rules, None, case.clone()),
      Ok(Ok(verified)) => {
        self.judge(entry, Ok(true), rules, None, case.clone());
        if rules.is_empty() {
          let ventry = format!("{}+verify", entry);
          self.judge(&ventry, Ok(verified), &[], verify_extra, case.clone());
        } else if verified {
          // already reported as accepts-illegal by the decode step
        }
      }
    }
  }
}

fn mk<'a>(p: &'a Option<JwsHeader>, u: &'a Option<JwsHeader>) -> Recipient<'a> {
  let mut r = Recipient::new();
  r.protected = p.as_ref();
  r.unprotected = u.as_ref();
  r
}

fn main() {
  let args = Args::parse();
  let scale = args.extra_u64("scale", 1000);
  let mut cx = Cx { rep: Report::new("C11"), jwk: vh::keys::Key::ed(1).public_jwk(None), jwk_alg: vh::keys::Key::ed(1).public_jwk(Some("EdDSA")) };
  cx.rep.rule(
    "exhaustive table: every pair (protected, unprotected) with each header in {alg present/absent} x {b64 absent/true/false} x \
     14 crit lists x every subset of shared names {kid, x-c, a-b (two custom names so that a shared custom name sits at different sorted positions)[, typ, x5t#S256]}, plus protected-only and unprotected-only sets, evaluated at \
     13 entry points (3 encoders + detached variants, add_recipient after a b64-true and a b64-false first recipient, 3 decoders + \
     detached/second-signature variants, each followed by verify with an always-Ok verifier). Every (row, entry point) evaluation is \
     distinct by construction; expected verdict = predicate written from the statement. Further fixed rows: each registered name shared \
     one at a time, shared names with different values, crit spelling variants, setter-built headers with reserved names in the custom map, \
     and a custom name shared between the two headers under every pair of JSON value kinds (null, false, 0, \"\", [], {}, \"a\", 1, true, \
     [null], {k:null}) with same-values-different-names and single-header controls, through the JSON route (all entry points) and the \
     setter/set_custom route (encoders), plus reserved names with null/empty values in the custom map.",
  );
  // quick: 3 shared names kid, x-c, a-b (8 subsets) ; thorough: 5 shared names (+ typ, x5t#S256; 32 subsets)
  let names = if args.thorough { 5 } else { 3 };
  let hs = H::all(names);
  let n = hs.len() as u64;
  cx.rep.note("headers_per_side", json!(n));
  let stride = if scale >= 1000 { 1 } else { (1000 / scale.max(1)).max(1) };
  let mut idx: u64 = 0;
  // single-header rows
  for h in &hs {
    idx += 1;
    if args.mine(idx) {
      cx.pair(idx, Some(h), None);
      cx.pair(idx, None, Some(h));
    }
  }
  for p in &hs {
    for u in &hs {
      idx += 1;
      if !args.mine(idx) || (stride > 1 && (idx / args.nshards) % stride != 0) {
        continue;
      }
      cx.pair(idx, Some(p), Some(u));
    }
  }
  // ---- every registered header parameter (and a custom one) shared between the two headers, one at a time: each has
  // its own clause in the disjointness check, so each gets its own rows (shared => reject, not shared => accept)
  let jwk_json = vh::keys::Key::ed(2).public_jwk_json(None);
  let params: Vec<(&str, String)> = vec![
    ("jku", "\"https://example.com/jwks.json\"".into()),
    ("jwk", jwk_json),
    ("kid", "\"k-1\"".into()),
    ("x5u", "\"https://example.com/cert.pem\"".into()),
    ("x5c", "[\"MIIB\"]".into()),
    ("x5t", "\"dGh1bWI\"".into()),
    ("x5t#S256", "\"dGh1bWIyNTY\"".into()),
    ("typ", "\"JWT\"".into()),
    ("cty", "\"text/plain\"".into()),
    ("url", "\"https://example.com/u\"".into()),
    ("nonce", "\"n-1\"".into()),
    ("x-only", "1".into()),
  ];
  for (i, (n, v)) in params.iter().enumerate() {
    idx += 1;
    if !args.mine(idx) {
      continue;
    }
    let with = format!("{{\"alg\":\"EdDSA\",\"{}\":{}}}", n, v);
    let only = format!("{{\"{}\":{}}}", n, v);
    cx.rep.inc("shared_name_rows");
    cx.run_pair(idx, Some(with.clone()), Some(only.clone()), vec!["headers-share-parameter"], true, true);
    cx.run_pair(idx, Some(with.clone()), None, vec![], true, true);
    cx.run_pair(idx, Some("{\"alg\":\"EdDSA\"}".to_string()), Some(only.clone()), vec![], true, true);
    let (m, w) = &params[(i + 1) % params.len()];
    cx.run_pair(idx, Some(with), Some(format!("{{\"{}\":{}}}", m, w)), vec![], true, true);
  }
  // ---- a name shared with DIFFERENT values in the two headers is shared all the same
  let alt: Vec<(&str, &str, &str)> = vec![
    ("alg", "\"EdDSA\"", "\"ES256\""),
    ("kid", "\"k-1\"", "\"k-2\""),
    ("typ", "\"JWT\"", "\"jwt\""),
    ("cty", "\"text/plain\"", "\"application/json\""),
    ("nonce", "\"n-1\"", "\"n-2\""),
    ("url", "\"https://example.com/u\"", "\"https://example.com/v\""),
    ("jku", "\"https://example.com/a.json\"", "\"https://example.com/b.json\""),
    ("x5u", "\"https://example.com/a.pem\"", "\"https://example.com/b.pem\""),
    ("x5t", "\"dGh1bWI\"", "\"b3RoZXI\""),
    ("x5t#S256", "\"dGh1bWIyNTY\"", "\"b3RoZXIyNTY\""),
    ("x5c", "[\"MIIB\"]", "[\"MIIC\"]"),
    ("x-only", "1", "2"),
  ];
  for (n, a, b) in &alt {
    idx += 1;
    if !args.mine(idx) {
      continue;
    }
    cx.rep.inc("shared_name_different_value_rows");
    let prot = if *n == "alg" { format!("{{\"alg\":{}}}", a) } else { format!("{{\"alg\":\"EdDSA\",\"{}\":{}}}", n, a) };
    cx.run_pair(idx, Some(prot.clone()), Some(format!("{{\"{}\":{}}}", n, b)), vec!["headers-share-parameter"], true, true);
    cx.run_pair(idx, Some(prot), Some(format!("{{\"{}\":{}}}", n, a)), vec!["headers-share-parameter"], true, true);
  }
  // ---- crit naming a differently spelled variant of an implemented / registered name, with a parameter of exactly that
  // spelling present: still an extension the library does not implement
  for (name, val) in [("B64", "false"), ("B64", "true"), ("b64 ", "false"), ("Alg", "\"EdDSA\""), ("KID", "\"k\""), ("Crit", "[\"b64\"]"), ("x5t#s256", "\"dGh1bWI\""), ("X-C", "1")] {
    idx += 1;
    if !args.mine(idx) {
      continue;
    }
    cx.rep.inc("crit_spelling_variant_rows");
    let with_crit = format!("{{\"alg\":\"EdDSA\",\"{}\":{},\"crit\":[\"{}\"]}}", name, val, name);
    let without = format!("{{\"alg\":\"EdDSA\",\"{}\":{}}}", name, val);
    cx.run_pair(idx, Some(with_crit), None, vec!["crit-names-unimplemented-extension"], true, true);
    // the same custom parameter without crit is an ordinary custom parameter
    cx.run_pair(idx, Some(without), None, vec![], true, true);
  }
  // ---- headers built through the setters, with a reserved name smuggled in through the custom-parameter map: on the wire it
  // is an ordinary member of that header, so the same rules apply (encoders only; decoders always see JSON)
  {
    use std::collections::BTreeMap;
    let prot_alg: JwsHeader = {
      let mut h = JwsHeader::new();
      h.set_alg(identity_jose::jws::JwsAlgorithm::EdDSA);
      h
    };
    let custom = |k: &str, v: serde_json::Value| -> JwsHeader {
      let mut h = JwsHeader::new();
      let mut m = BTreeMap::new();
      m.insert(k.to_string(), v);
      h.set_custom(m);
      h
    };
    let rows: Vec<(&str, Option<JwsHeader>, Option<JwsHeader>, Vec<&'static str>)> = vec![
      ("unprotected custom crit", Some(prot_alg.clone()), Some(custom("crit", json!(["b64"]))), vec!["crit-outside-protected"]),
      ("unprotected custom crit (unknown extension)", Some(prot_alg.clone()), Some(custom("crit", json!(["x-unknown"]))), vec!["crit-outside-protected"]),
      ("unprotected custom b64", Some(prot_alg.clone()), Some(custom("b64", json!(false))), vec!["b64-outside-protected"]),
      ("unprotected custom alg", Some(prot_alg.clone()), Some(custom("alg", json!("EdDSA"))), vec!["headers-share-parameter"]),
      ("unprotected-only custom crit", None, Some(custom("crit", json!(["b64"]))), vec!["crit-outside-protected"]),
      ("unprotected custom x-only (legal)", Some(prot_alg.clone()), Some(custom("x-only", json!(1))), vec![]),
      ("setter-built protected alg only (legal)", Some(prot_alg.clone()), None, vec![]),
    ];
    for (what, ph, uh, rules) in rows {
      idx += 1;
      if !args.mine(idx) {
        continue;
      }
      cx.rep.inc("setter_built_rows");
      let case = json!({"headers_built_with": "JwsHeader::new + setters / set_custom", "row": what,
        "protected": ph.as_ref().map(|h| serde_json::to_value(h).unwrap_or_default()), "unprotected": uh.as_ref().map(|h| serde_json::to_value(h).unwrap_or_default())});
      cx.encoders(&ph, &uh, &rules, true, &case);
    }
  }
  // ---- a custom (extension) parameter NAME shared between the two headers is shared whatever the two VALUES are: every
  // JSON value kind, including the "empty" ones (null, false, 0, "", [], {}), in every combination and each order. A member
  // whose value is null is still a member of the serialized header. Controls: the same values under two different names,
  // and in one header only, violate no rule. Both routes: JSON text (decoders, and encoders via deserialized headers) and
  // headers built with the setters + set_custom (encoders).
  {
    use std::collections::BTreeMap;
    const ALL_VALUES: &[&str] = &["null", "false", "0", "\"\"", "[]", "{}", "\"a\"", "1", "true", "[null]", "{\"k\":null}"];
    const FEW_VALUES: &[&str] = &["null", "\"a\"", "{}"];
    // "Zz" sorts before "alg"/"kid", the others after
    const ALL_NAMES: &[&str] = &["ext", "x-n", "Zz"];
    let (values, names) = if scale >= 1000 { (ALL_VALUES, ALL_NAMES) } else { (FEW_VALUES, &ALL_NAMES[..1]) };
    // one header as an ordered member list (name, JSON text of the value)
    let text = |members: &[(&str, &str)], reversed: bool| -> String {
      let mut m: Vec<String> = members.iter().map(|(k, v)| format!("\"{}\":{}", k, v)).collect();
      if reversed {
        m.reverse();
      }
      format!("{{{}}}", m.join(","))
    };
    let built = |members: &[(&str, &str)]| -> JwsHeader {
      let mut h = JwsHeader::new();
      let mut m: BTreeMap<String, serde_json::Value> = BTreeMap::new();
      for (k, v) in members {
        match *k {
          "alg" => h.set_alg(identity_jose::jws::JwsAlgorithm::EdDSA),
          "kid" => h.set_kid("k-1"),
          _ => {
            m.insert(k.to_string(), serde_json::from_str(v).expect("harness value text"));
          }
        }
      }
      if !m.is_empty() {
        h.set_custom(m);
      }
      h
    };
    let mut k: u64 = 0;
    for (ni, name) in names.iter().enumerate() {
      let other = ALL_NAMES[(ni + 1) % ALL_NAMES.len()];
      for (pi, pv) in values.iter().enumerate() {
        for (ui, uv) in values.iter().enumerate() {
          idx += 1;
          k += 1;
          if !args.mine(idx) {
            continue;
          }
          let variant = k % 3;
          // protected: alg + the custom parameter (+ a further custom one); unprotected: the custom parameter (+ kid / + a further custom one)
          let mut prot: Vec<(&str, &str)> = vec![("alg", "\"EdDSA\"")];
          if variant == 2 {
            prot.push(("aa", "2"));
          }
          let name: &'static str = name;
          let (pv, uv): (&'static str, &'static str) = (*pv, *uv);
          prot.push((name, pv));
          let unprot_with = |n: &'static str| -> Vec<(&'static str, &'static str)> {
            let mut u: Vec<(&str, &str)> = Vec::new();
            if variant == 1 {
              u.push(("kid", "\"k-1\""));
            }
            if variant == 2 {
              u.push(("zz", "1"));
            }
            u.push((n, uv));
            u
          };
          let shared = unprot_with(name);
          let apart = unprot_with(other);
          let mut rows: Vec<(Option<&[(&str, &str)]>, Option<&[(&str, &str)]>, Vec<&'static str>)> =
            vec![(Some(&prot), Some(&shared), vec!["headers-share-parameter"]), (Some(&prot), Some(&apart), vec![])];
          let alg_only: Vec<(&str, &str)> = vec![("alg", "\"EdDSA\"")];
          if ui == 0 {
            rows.push((Some(&prot), None, vec![]));
          }
          if pi == 0 {
            rows.push((Some(&alg_only), Some(&shared), vec![]));
          }
          let with_null = pv == "null" || uv == "null";
          for (p, u, rules) in rows {
            cx.rep.inc("custom_value_rows");
            if with_null {
              cx.rep.inc("custom_value_rows_with_null");
            }
            if !rules.is_empty() {
              cx.rep.inc("shared_custom_name_value_rows");
              if with_null {
                cx.rep.inc("shared_custom_name_null_value_rows");
              }
            }
            // JSON route
            let rev = k % 2 == 1;
            cx.run_pair(idx, p.map(|m| text(m, rev)), u.map(|m| text(m, !rev)), rules.clone(), true, true);
            // setter route
            let ph = p.map(|m| built(m));
            let uh = u.map(|m| built(m));
            let case = json!({"headers_built_with": "JwsHeader::new + setters / set_custom",
              "protected": ph.as_ref().map(|h| serde_json::to_value(h).unwrap_or_default()), "unprotected": uh.as_ref().map(|h| serde_json::to_value(h).unwrap_or_default())});
            cx.encoders(&ph, &uh, &rules, true, &case);
          }
        }
      }
    }
    // reserved names smuggled in through the custom map with a null (or other empty) value: still a member of that header on the wire
    let prot_alg = built(&[("alg", "\"EdDSA\"")]);
    let raw = |k: &str, v: &str| -> JwsHeader {
      let mut h = JwsHeader::new();
      let mut m: BTreeMap<String, serde_json::Value> = BTreeMap::new();
      m.insert(k.to_string(), serde_json::from_str(v).expect("harness value text"));
      h.set_custom(m);
      h
    };
    let raw_alg = |k: &str, v: &str| -> JwsHeader {
      let mut h = raw(k, v);
      h.set_alg(identity_jose::jws::JwsAlgorithm::EdDSA);
      h
    };
    for v in ["null", "false", "[]", "\"\""] {
      let rows: Vec<(&str, Option<JwsHeader>, Option<JwsHeader>, Vec<&'static str>)> = vec![
        ("unprotected custom crit", Some(prot_alg.clone()), Some(raw("crit", v)), vec!["crit-outside-protected"]),
        ("unprotected custom b64", Some(prot_alg.clone()), Some(raw("b64", v)), vec!["b64-outside-protected"]),
        ("unprotected custom alg", Some(prot_alg.clone()), Some(raw("alg", v)), vec!["headers-share-parameter"]),
        ("protected custom kid, unprotected kid", Some(raw_alg("kid", v)), Some(built(&[("kid", "")])), vec!["headers-share-parameter"]),
        ("protected kid, unprotected custom kid", Some(built(&[("alg", ""), ("kid", "")])), Some(raw("kid", v)), vec!["headers-share-parameter"]),
        ("protected custom x-only, unprotected kid (legal)", Some(raw_alg("x-only", v)), Some(built(&[("kid", "")])), vec![]),
        ("unprotected-only custom crit", None, Some(raw("crit", v)), vec!["crit-outside-protected"]),
        ("unprotected-only custom b64", None, Some(raw("b64", v)), vec!["b64-outside-protected"]),
      ];
      for (what, ph, uh, rules) in rows {
        idx += 1;
        if !args.mine(idx) {
          continue;
        }
        cx.rep.inc("setter_built_reserved_name_value_rows");
        let case = json!({"headers_built_with": "JwsHeader::new + setters / set_custom", "row": what,
          "protected": ph.as_ref().map(|h| serde_json::to_value(h).unwrap_or_default()), "unprotected": uh.as_ref().map(|h| serde_json::to_value(h).unwrap_or_default())});
        cx.encoders(&ph, &uh, &rules, true, &case);
      }
    }
  }
  cx.rep.note("table_rows", json!(idx));
  cx.rep.finish();
}
