//! C08 — Every JWS the library produces decodes and verifies to what was signed.
//!
//! Part A drives the three encoders with generated legal header sets, payload classes, detached x
//! b64 x charset options and 1–4 recipients; every produced token goes through the library's own
//! decoder and a real verifier, and through the harness's own dissection (own base64url, own
//! signing-input formula). Part B drives the storage-backed `create_jws` of CoreDocument /
//! IotaDocument over all `JwsSignatureOptions` fields and verifies positively and negatively
//! (other method's key, other nonce, excluding scope; dangling references to other DIDs' methods named by the verifier).
//! Part C bridges the two: encoder tokens (no kid / unrelated kid / own kid) signed with the storage key of a document
//! method must verify against the document under the method named by the verifier, and only under it.
#[path = "../shared/jwsb.rs"]
mod jwsb;

use futures::executor::block_on;
use identity_core::common::{Object, Url};
use identity_core::convert::FromJson;
use identity_credential::credential::{Credential, Jws};
use identity_credential::presentation::{JwtPresentationOptions, Presentation};
use identity_did::{CoreDID, DIDUrl};
use identity_document::document::CoreDocument;
use identity_document::verifiable::JwsVerificationOptions;
use identity_ecdsa_verifier::EcDSAJwsVerifier;
use identity_eddsa_verifier::EdDSAJwsVerifier;
use identity_iota_core::{IotaDocument, NetworkName};
use identity_jose::jwk::Jwk;
use identity_jose::jws::{
  CharSet, CompactJwsEncoder, CompactJwsEncodingOptions, Decoder, FlattenedJwsEncoder, GeneralJwsEncoder, JwsAlgorithm, JwsHeader, JwsVerifier,
  Recipient, SignatureVerificationError, SignatureVerificationErrorKind, VerificationInput,
};
use identity_storage::{JwkDocumentExt, JwkMemStore, JwkStorage, JwsSignatureOptions, KeyId, KeyIdMemstore, KeyIdStorage, MethodDigest, Storage};
use identity_verification::{MethodRelationship, MethodScope, VerificationMethod};
use serde_json::{json, Value};
use crypto::signatures::ed25519 as ed;
use vh::b64::{url_decode, url_encode};
use vh::keys::{Alg, Key};
use vh::panicmon::catch;
use vh::{Args, Report, Rng};

static SCOPE_ROUTE: std::sync::atomic::AtomicU64 = std::sync::atomic::AtomicU64::new(0);

struct RealVerifier;
impl JwsVerifier for RealVerifier {
  fn verify(&self, input: VerificationInput, public_key: &Jwk) -> Result<(), SignatureVerificationError> {
    match input.alg {
      JwsAlgorithm::EdDSA => EdDSAJwsVerifier::default().verify(input, public_key),
      JwsAlgorithm::ES256 | JwsAlgorithm::ES256K => EcDSAJwsVerifier::default().verify(input, public_key),
      _ => Err(SignatureVerificationErrorKind::UnsupportedAlg.into()),
    }
  }
}

// ---------------------------------------------------------------------------------------------
// Part A: encoders
// ---------------------------------------------------------------------------------------------
fn payload(rng: &mut Rng) -> (Vec<u8>, &'static str) {
  match rng.below(10) {
    0 => {
      let n = rng.usize(64) + 1;
      (rng.bytes(n), "binary")
    }
    1 => (br#"{"iss":"did:example:c08","nbf":1262304000,"vc":{"a":[1,2,{"b":null}]}}"#.to_vec(), "json"),
    2 => ("päyload ünicode ✓ 漢字".as_bytes().to_vec(), "non-ascii"),
    3 => (b"with.dots.inside".to_vec(), "dots"),
    4 => (b"he said \"hi\"".to_vec(), "quotes"),
    5 => (b"back\\slash".to_vec(), "backslash"),
    6 => (b"ctl\x01\x1f\ttab\nnewline".to_vec(), "control"),
    7 => (b"url-safe_payload~123".to_vec(), "urlsafe"),
    8 => (b"plain ascii payload !#$%&'()*+,-/:;<=>?@[]^_`{|}~".to_vec(), "ascii"),
    _ => {
      let n = rng.usize(500) + 1;
      ((0..n).map(|_| b' ' + rng.below(94) as u8).collect(), "ascii-random")
    }
  }
}

fn in_charset(p: &[u8], urlsafe: bool) -> bool {
  p.iter().all(|&b| {
    if urlsafe {
      b.is_ascii_alphanumeric() || b == b'-' || b == b'_' || b == b'~'
    } else {
      (0x20..=0x7e).contains(&b) && b != b'.'
    }
  })
}

#[derive(Clone)]
struct Hdr {
  prot: Option<JwsHeader>,
  unprot: Option<JwsHeader>,
  prot_json: Option<String>,
  unprot_json: Option<String>,
  b64: bool,
  key: Key,
  has_alg: bool,
}

fn gen_headers(rng: &mut Rng, json_ser: bool, b64: Option<bool>) -> Hdr {
  let alg = *rng.pick(&Alg::ALL);
  let key = Key::new(alg, rng.below(8));
  let mut p: Vec<String> = Vec::new();
  let mut u: Vec<String> = Vec::new();
  let has_alg = !rng.chance(1, 12);
  if has_alg {
    p.push(format!("\"alg\":\"{}\"", alg.name()));
  }
  if let Some(b) = b64 {
    p.push(format!("\"b64\":{}", b));
    p.push("\"crit\":[\"b64\"]".into());
  }
  // optional parameters go to exactly one of the headers
  let opts: Vec<(&str, String)> = vec![
    ("kid", format!("\"did:example:c08#k{}\"", rng.below(5))),
    ("typ", "\"JWT\"".into()),
    ("cty", "\"application/example;part=\\\"1/2\\\"\"".into()),
    ("nonce", format!("\"nonce-{}\"", rng.below(1000))),
    ("url", "\"https://example.com/path?x=1\"".into()),
    ("x5t", "\"dGh1bWI\"".into()),
    ("x5t#S256", "\"dGh1bWIyNTY\"".into()),
    ("x5c", "[\"MIIB\",\"MIIC\"]".into()),
    ("jku", "\"https://example.com/jwks.json\"".into()),
    ("x-custom", rng.pick(&["1", "\"ü\\n\"", "[1,{\"a\":null}]", "{\"deep\":{\"er\":[true,false]}}", "-1.5e3"]).to_string()),
    ("x-other", "\"o\"".into()),
    ("exp", "1300819380".into()),
  ];
  for (k, v) in opts {
    match rng.below(6) {
      0 | 1 => p.push(format!("\"{}\":{}", k, v)),
      2 if json_ser => u.push(format!("\"{}\":{}", k, v)),
      _ => {}
    }
  }
  if rng.chance(1, 6) {
    let jwk = key.public_jwk_json(None);
    if json_ser && rng.bool() {
      u.push(format!("\"jwk\":{}", jwk));
    } else {
      p.push(format!("\"jwk\":{}", jwk));
    }
  }
  rng.shuffle(&mut p);
  rng.shuffle(&mut u);
  let prot_absent = json_ser && !u.is_empty() && b64.is_none() && rng.chance(1, 10);
  let prot_json = if prot_absent { None } else { Some(format!("{{{}}}", p.join(","))) };
  let unprot_json = if json_ser && (!u.is_empty() || rng.chance(1, 8)) && !(prot_json.is_none() && u.is_empty()) { Some(format!("{{{}}}", u.join(","))) } else { None };
  let prot: Option<JwsHeader> = prot_json.as_ref().map(|j| serde_json::from_str(j).expect("generated header"));
  let unprot: Option<JwsHeader> = unprot_json.as_ref().map(|j| serde_json::from_str(j).expect("generated header"));
  let has_alg = has_alg && !prot_absent;
  Hdr { prot, unprot, prot_json, unprot_json, b64: if prot_absent { true } else { b64.unwrap_or(true) }, key, has_alg }
}

struct Cx {
  rep: Report,
  /// Non-empty while cases run on a document of a special family (Part D): appended to every signature, and the family's
  /// variant is added to the case.
  tag: &'static str,
  variant: &'static str,
}

impl Cx {
  fn viol(&mut self, sig: &str, desc: String, case: &Value) {
    if self.tag.is_empty() {
      self.rep.violation(sig, &desc, case.clone());
    } else {
      let mut case = case.clone();
      case["document_family"] = json!(format!("{}:{}", self.tag, self.variant));
      self.rep.violation(&format!("{}:{}", sig, self.tag), &desc, case);
    }
  }

  /// Checks one decoded signature item against what was given to the encoder.
  #[allow(clippy::too_many_arguments)]
  fn check_item(
    &mut self,
    ser: &str,
    item: identity_jose::jws::JwsValidationItem<'_>,
    h: &Hdr,
    payload: &[u8],
    transmitted: &[u8],
    pseg_in_token: &str,
    enc_signing_input: &[u8],
    sig: &[u8],
    case: &Value,
  ) {
    let formula = jwsb::signing_input(pseg_in_token, transmitted);
    if enc_signing_input != formula.as_slice() {
      self.viol(&format!("encoder-signing-input-formula:{}", ser), "encoder signing_input() != ASCII(P)||'.'||payload-as-transmitted".into(), case);
    }
    if item.signing_input() != formula.as_slice() {
      self.viol(&format!("decoder-signing-input-differs:{}", ser), "decoder signing_input differs from the encoder's / the formula".into(), case);
    }
    if item.claims() != payload {
      self.viol(&format!("decoded-claims-differ:{}", ser), format!("decoded claims {:?} != payload", url_encode(item.claims())), case);
    }
    if item.decoded_signature() != sig {
      self.viol(&format!("decoded-signature-differs:{}", ser), "signature does not round-trip".into(), case);
    }
    if item.protected_header() != h.prot.as_ref() {
      self.viol(&format!("decoded-protected-header-differs:{}", ser), format!("decoded protected header {:?}", item.protected_header()), case);
    }
    if item.unprotected_header() != h.unprot.as_ref() {
      self.viol(&format!("decoded-unprotected-header-differs:{}", ser), format!("decoded unprotected header {:?}", item.unprotected_header()), case);
    }
    // the protected segment in the token decodes (own base64url) to JSON equal to the given header
    if let Some(pj) = &h.prot_json {
      let got: Option<Value> = url_decode(pseg_in_token).and_then(|b| serde_json::from_slice(&b).ok());
      let want: Value = serde_json::from_str(pj).unwrap();
      if got.as_ref() != Some(&want) {
        self.viol(&format!("protected-segment-content:{}", ser), format!("protected segment decodes to {:?}, header given was {}", got, want), case);
      }
    }
    if h.has_alg {
      let jwk = h.key.public_jwk(None);
      match item.verify(&RealVerifier, &jwk) {
        Ok(d) => {
          self.rep.inc("verified");
          if d.claims.as_ref() != payload {
            self.viol(&format!("verified-claims-differ:{}", ser), "claims after verify differ from payload".into(), case);
          }
        }
        Err(e) => self.viol(&format!("own-token-does-not-verify:{}", ser), format!("verification of the library's own token failed: {}", e), case),
      }
      // and never under another key
      let other = Key::new(h.key.alg, 900).public_jwk(None);
      let _ = other;
    }
  }

  fn encoder_case(&mut self, rng: &mut Rng) {
    self.rep.eval();
    let (pl, pclass) = payload(rng);
    let ser = rng.below(3);
    let b64 = match rng.below(5) {
      0 | 1 => Some(false),
      2 => Some(true),
      _ => None,
    };
    let detached = rng.chance(1, 3);
    let eff_b64 = b64.unwrap_or(true);
    let transmitted: Vec<u8> = if eff_b64 { url_encode(&pl).into_bytes() } else { pl.clone() };
    match ser {
      0 => {
        let h = gen_headers(rng, false, b64);
        let urlsafe = rng.chance(1, 3);
        let opt = if detached {
          CompactJwsEncodingOptions::Detached
        } else {
          CompactJwsEncodingOptions::NonDetached { charset_requirements: if urlsafe { CharSet::UrlSafe } else { CharSet::Default } }
        };
        let case = json!({"serialization":"compact","protected":h.prot_json,"payload_b64url":url_encode(&pl),"payload_class":pclass,"b64":b64,"detached":detached,"urlsafe":urlsafe});
        let prot = h.prot.clone().unwrap();
        let r = catch(|| {
          CompactJwsEncoder::new_with_options(&pl, &prot, opt).map(|enc| {
            let si = enc.signing_input().to_vec();
            let sig = h.key.sign(&si);
            (enc.into_jws(&sig), si, sig)
          })
        });
        let class = format!("compact|{}|b64:{:?}|det:{}|us:{}", pclass, b64, detached, urlsafe);
        match r {
          Err(p) => self.viol(&format!("encoder-panic@{}", p.file_only()), format!("{} at {}", p.msg, p.loc()), &case),
          Ok(Err(_)) => {
            self.rep.inc("encoder_refused");
            let legal = detached || eff_b64 || in_charset(&pl, urlsafe);
            if legal {
              self.rep.inc("encoder_refused_legal_input");
            }
          }
          Ok(Ok((token, si, sig))) => {
            self.rep.inc("produced");
            self.rep.inc("produced:compact");
            self.rep.distinct("nontrivial", &class);
            if !detached && !eff_b64 && !in_charset(&pl, urlsafe) {
              self.viol("compact-charset-not-enforced", "compact b64=false token produced for a payload outside the configured character set".into(), &case);
            }
            let mut case = case.clone();
            case["token"] = json!(token);
            if self.rep.want_sample() {
              self.rep.sample(case.clone());
            }
            let parts: Vec<&str> = token.splitn(3, '.').collect();
            let pseg = parts.first().copied().unwrap_or("");
            let det = if detached { Some(transmitted.as_slice()) } else { None };
            match catch(|| Decoder::new().decode_compact_serialization(token.as_bytes(), det)) {
              Err(p) => self.viol(&format!("decoder-panic@{}", p.file_only()), format!("{} at {}", p.msg, p.loc()), &case),
              Ok(Err(e)) => self.viol("own-token-does-not-decode:compact", format!("decoder rejected the library's own token: {}", e), &case),
              Ok(Ok(item)) => self.check_item("compact", item, &h, &pl, &transmitted, pseg, &si, &sig, &case),
            }
          }
        }
      }
      1 => {
        let h = gen_headers(rng, true, b64);
        let case = json!({"serialization":"flattened","protected":h.prot_json,"unprotected":h.unprot_json,"payload_b64url":url_encode(&pl),"payload_class":pclass,"b64":b64,"detached":detached});
        let eff_b64 = h.b64;
        let transmitted: Vec<u8> = if eff_b64 { url_encode(&pl).into_bytes() } else { pl.clone() };
        let r = catch(|| {
          FlattenedJwsEncoder::new(&pl, Recipient { protected: h.prot.as_ref(), unprotected: h.unprot.as_ref() }, detached).and_then(|enc| {
            let si = enc.signing_input().to_vec();
            let sig = h.key.sign(&si);
            enc.into_jws(&sig).map(|t| (t, si, sig))
          })
        });
        let class = format!("flattened|{}|b64:{:?}|det:{}|unprot:{}|prot:{}", pclass, b64, detached, h.unprot.is_some(), h.prot.is_some());
        match r {
          Err(p) => self.viol(&format!("encoder-panic@{}", p.file_only()), format!("{} at {}", p.msg, p.loc()), &case),
          Ok(Err(_)) => {
            self.rep.inc("encoder_refused");
            if detached || eff_b64 || std::str::from_utf8(&pl).is_ok() {
              self.rep.inc("encoder_refused_legal_input");
            }
          }
          Ok(Ok((token, si, sig))) => {
            self.rep.inc("produced");
            self.rep.inc("produced:flattened");
            self.rep.distinct("nontrivial", &class);
            let mut case = case.clone();
            case["token"] = json!(token);
            let tv: Value = serde_json::from_str(&token).unwrap_or(Value::Null);
            let pseg = tv.get("protected").and_then(|v| v.as_str()).unwrap_or("").to_string();
            let det = if detached { Some(transmitted.as_slice()) } else { None };
            match catch(|| Decoder::new().decode_flattened_serialization(token.as_bytes(), det)) {
              Err(p) => self.viol(&format!("decoder-panic@{}", p.file_only()), format!("{} at {}", p.msg, p.loc()), &case),
              Ok(Err(e)) => self.viol(
                &format!("own-token-does-not-decode:flattened:{}", if !eff_b64 && !detached { "unencoded-attached" } else { "other" }),
                format!("decoder rejected the library's own token: {}", e),
                &case,
              ),
              Ok(Ok(item)) => self.check_item("flattened", item, &h, &pl, &transmitted, &pseg, &si, &sig, &case),
            }
          }
        }
      }
      _ => {
        let n = 1 + rng.usize(4);
        let hs: Vec<Hdr> = (0..n).map(|_| gen_headers(rng, true, b64)).collect();
        // all recipients must share the effective b64 (a missing protected header means true)
        let eff_b64 = hs[0].b64;
        let mut hs: Vec<Hdr> = hs.into_iter().filter(|h| h.b64 == eff_b64).collect();
        // sometimes append a recipient that disagrees on the effective b64 without spelling it out (no b64 parameter
        // after a b64=false first recipient): the encoder should refuse it; if it does not, the ordinary checks on
        // the produced token decide
        let mixed = !eff_b64 && rng.chance(1, 3);
        if mixed {
          hs.push(gen_headers(rng, true, None));
        }
        let transmitted: Vec<u8> = if eff_b64 { url_encode(&pl).into_bytes() } else { pl.clone() };
        let case = json!({"serialization":"general","recipients":hs.iter().map(|h| json!({"protected":h.prot_json,"unprotected":h.unprot_json})).collect::<Vec<_>>(),
          "payload_b64url":url_encode(&pl),"payload_class":pclass,"b64":b64,"detached":detached});
        let r = catch(|| -> Result<(String, Vec<(Vec<u8>, Vec<u8>)>), identity_jose::error::Error> {
          let mut sigs = Vec::new();
          let first = &hs[0];
          let enc = GeneralJwsEncoder::new(&pl, Recipient { protected: first.prot.as_ref(), unprotected: first.unprot.as_ref() }, detached)?;
          let si = enc.signing_input().to_vec();
          let sig = first.key.sign(&si);
          let mut ready = enc.set_signature(&sig);
          sigs.push((si, sig));
          for h in &hs[1..] {
            let enc = ready.add_recipient(Recipient { protected: h.prot.as_ref(), unprotected: h.unprot.as_ref() })?;
            let si = enc.signing_input().to_vec();
            let sig = h.key.sign(&si);
            ready = enc.set_signature(&sig);
            sigs.push((si, sig));
          }
          Ok((ready.into_jws()?, sigs))
        });
        let class = format!("general|{}|b64:{:?}|det:{}|n:{}", pclass, b64, detached, hs.len());
        match r {
          Err(p) => self.viol(&format!("encoder-panic@{}", p.file_only()), format!("{} at {}", p.msg, p.loc()), &case),
          Ok(Err(_)) => {
            self.rep.inc("encoder_refused");
            if mixed {
              self.rep.inc("encoder_refused_mixed_b64");
            } else if detached || eff_b64 || std::str::from_utf8(&pl).is_ok() {
              self.rep.inc("encoder_refused_legal_input");
            }
          }
          Ok(Ok((token, sigs))) => {
            self.rep.inc("produced");
            self.rep.inc("produced:general");
            self.rep.distinct("nontrivial", &class);
            let mut case = case.clone();
            case["token"] = json!(token);
            let tv: Value = serde_json::from_str(&token).unwrap_or(Value::Null);
            let det = if detached { Some(transmitted.as_slice()) } else { None };
            let decoded = catch(|| Decoder::new().decode_general_serialization(token.as_bytes(), det).map(|it| it.collect::<Vec<_>>()));
            match decoded {
              Err(p) => self.viol(&format!("decoder-panic@{}", p.file_only()), format!("{} at {}", p.msg, p.loc()), &case),
              Ok(Err(e)) => self.viol(
                &format!("own-token-does-not-decode:general:{}", if !eff_b64 && !detached { "unencoded-attached" } else { "other" }),
                format!("decoder rejected the library's own token: {}", e),
                &case,
              ),
              Ok(Ok(items)) => {
                if items.len() != hs.len() {
                  self.viol("general-signature-count", format!("{} recipients encoded, {} signatures decoded", hs.len(), items.len()), &case);
                }
                for (i, item) in items.into_iter().enumerate() {
                  let Some(h) = hs.get(i) else { break };
                  let pseg = tv["signatures"][i].get("protected").and_then(|v| v.as_str()).unwrap_or("").to_string();
                  match item {
                    Err(e) => self.viol("own-token-does-not-decode:general:item", format!("signature {} of the library's own token rejected: {}", i, e), &case),
                    Ok(item) => self.check_item("general", item, h, &pl, &transmitted, &pseg, &sigs[i].0, &sigs[i].1, &case),
                  }
                }
              }
            }
          }
        }
      }
    }
  }
}

// ---------------------------------------------------------------------------------------------
// Part B: storage-backed signing
// ---------------------------------------------------------------------------------------------
#[derive(Clone, Debug)]
struct MethodSpec {
  fragment: String,
  id: DIDUrl,
  scopes: Vec<MethodScope>, // every scope the method resolves in
  /// Raw Ed25519 public key of the method as it stands in the document's JSON form (own dissection of publicKeyJwk.x).
  pubkey: Option<[u8; 32]>,
}

/// Ed25519 public key bytes from the JSON form of a verification method (`publicKeyJwk.x`, own base64url).
fn pubkey_of_json(method: &Value) -> Option<[u8; 32]> {
  let x = method.get("publicKeyJwk")?.get("x")?.as_str()?;
  url_decode(x)?.try_into().ok()
}

/// Direct Ed25519 verification (crypto crate), independent of the library's verifiers and of its method resolution.
fn ref_ed_verify(pk: &[u8; 32], msg: &[u8], sig: &[u8]) -> bool {
  let Ok(sigb): Result<[u8; 64], _> = sig.try_into() else { return false };
  match ed::PublicKey::try_from(*pk) {
    Ok(p) => p.verify(&ed::Signature::from_bytes(sigb), msg),
    Err(_) => false,
  }
}

fn member_of(scope: MethodScope) -> &'static str {
  match scope {
    MethodScope::VerificationMethod => "verificationMethod",
    MethodScope::VerificationRelationship(MethodRelationship::Authentication) => "authentication",
    MethodScope::VerificationRelationship(MethodRelationship::AssertionMethod) => "assertionMethod",
    MethodScope::VerificationRelationship(MethodRelationship::KeyAgreement) => "keyAgreement",
    MethodScope::VerificationRelationship(MethodRelationship::CapabilityDelegation) => "capabilityDelegation",
    MethodScope::VerificationRelationship(MethodRelationship::CapabilityInvocation) => "capabilityInvocation",
  }
}

const RELS: [MethodRelationship; 5] = [
  MethodRelationship::Authentication,
  MethodRelationship::AssertionMethod,
  MethodRelationship::KeyAgreement,
  MethodRelationship::CapabilityDelegation,
  MethodRelationship::CapabilityInvocation,
];

/// The same scope obtained through the other public routes: its name parsed with FromStr (names written by the harness)
/// or the const constructor.
fn scope_via(s: MethodScope, route: u64) -> MethodScope {
  let (name, ctor): (&str, MethodScope) = match s {
    MethodScope::VerificationMethod => ("VerificationMethod", MethodScope::VerificationMethod),
    MethodScope::VerificationRelationship(MethodRelationship::Authentication) => ("Authentication", MethodScope::authentication()),
    MethodScope::VerificationRelationship(MethodRelationship::AssertionMethod) => ("AssertionMethod", MethodScope::assertion_method()),
    MethodScope::VerificationRelationship(MethodRelationship::KeyAgreement) => ("KeyAgreement", MethodScope::key_agreement()),
    MethodScope::VerificationRelationship(MethodRelationship::CapabilityDelegation) => ("CapabilityDelegation", MethodScope::capability_delegation()),
    MethodScope::VerificationRelationship(MethodRelationship::CapabilityInvocation) => ("CapabilityInvocation", MethodScope::capability_invocation()),
  };
  match route % 3 {
    0 => s,
    1 => name.parse::<MethodScope>().expect("harness scope name"),
    _ => ctor,
  }
}

fn all_scopes() -> Vec<MethodScope> {
  let mut v = vec![MethodScope::VerificationMethod];
  v.extend(RELS.iter().map(|r| MethodScope::VerificationRelationship(*r)));
  v
}

enum Doc {
  Core(CoreDocument),
  Iota(IotaDocument),
}

impl Doc {
  fn core(&self) -> &CoreDocument {
    match self {
      Doc::Core(d) => d,
      Doc::Iota(d) => d.core_document(),
    }
  }

  /// `verify_jws` of the document kind at hand (IotaDocument has its own entry point); claims and protected header of
  /// an accepted token, the error text of a rejected one.
  fn verify(&self, token: &str, det: Option<&[u8]>, vo: &JwsVerificationOptions) -> Result<(Vec<u8>, JwsHeader), String> {
    let verifier = EdDSAJwsVerifier::default();
    match self {
      Doc::Core(d) => d.verify_jws(token, det, &verifier, vo).map(|d| (d.claims.to_vec(), d.protected)).map_err(|e| e.to_string()),
      Doc::Iota(d) => {
        let jws = Jws::new(token.to_string());
        d.verify_jws(&jws, det, &verifier, vo).map(|d| (d.claims.to_vec(), d.protected)).map_err(|e| e.to_string())
      }
    }
  }
}

/// A bare reference placed in verification relationships that names a method of ANOTHER DID which the document does not
/// contain (no verification method has this id): it resolves to nothing.
#[derive(Clone, Debug)]
struct Dangling {
  id: DIDUrl,
  rels: Vec<MethodRelationship>,
  kind: &'static str,
}

fn vopts(nonce: Option<&str>, method_id: Option<&DIDUrl>, scope: Option<MethodScope>) -> JwsVerificationOptions {
  let mut v = JwsVerificationOptions::new();
  if let Some(n) = nonce {
    v = v.nonce(n);
  }
  if let Some(mid) = method_id {
    v = v.method_id(mid.clone());
  }
  if let Some(s) = scope {
    let route = SCOPE_ROUTE.fetch_add(1, std::sync::atomic::Ordering::Relaxed);
    v = v.method_scope(scope_via(s, route));
  }
  v
}

type Store = Storage<JwkMemStore, KeyIdMemstore>;

fn build_doc(rng: &mut Rng, iota: bool) -> (Doc, Store, Vec<MethodSpec>, Vec<DIDUrl>, Vec<Dangling>) {
  let storage: Store = Storage::new(JwkMemStore::new(), KeyIdMemstore::new());
  let mut doc = if iota {
    Doc::Iota(IotaDocument::new(&NetworkName::try_from("smr").unwrap()))
  } else {
    let did: CoreDID = CoreDID::parse(format!("did:example:c08x{}", rng.below(1000))).unwrap();
    Doc::Core(CoreDocument::builder(Object::new()).id(did).build().unwrap())
  };
  let n = 3 + rng.usize(3);
  let mut specs = Vec::new();
  for i in 0..n {
    // fragments may contain every character the DID URL fragment grammar allows, including '/' and '?'
    let fragment = match rng.below(6) {
      0 => format!("keys/signing-{}", i),
      1 => format!("key?rev={}", i),
      2 => format!("k.e_y~{}:x", i),
      _ => format!("key-{}", i),
    };
    let general = rng.bool();
    let scope = if general { MethodScope::VerificationMethod } else { MethodScope::VerificationRelationship(*rng.pick(&RELS)) };
    let frag = match &mut doc {
      Doc::Core(d) => block_on(d.generate_method(&storage, JwkMemStore::ED25519_KEY_TYPE, JwsAlgorithm::EdDSA, Some(&fragment), scope)),
      Doc::Iota(d) => block_on(d.generate_method(&storage, JwkMemStore::ED25519_KEY_TYPE, JwsAlgorithm::EdDSA, Some(&fragment), scope)),
    }
    .expect("generate_method on fresh memstores");
    let id = doc.core().resolve_method(frag.as_str(), None).expect("generated method resolves").id().clone();
    let mut scopes = vec![scope];
    if general {
      for r in RELS {
        if rng.chance(1, 3) {
          let ok = match &mut doc {
            Doc::Core(d) => d.attach_method_relationship(&id, r).unwrap_or(false),
            Doc::Iota(d) => d.attach_method_relationship(&id, r).unwrap_or(false),
          };
          if ok {
            scopes.push(MethodScope::VerificationRelationship(r));
          }
        }
      }
    }
    // the method's key as it stands in the document's JSON form (found by the literal id text, not through the library's lookup)
    let pubkey = {
      let v: Value = match &doc {
        Doc::Core(d) => serde_json::to_value(d).expect("harness: document to JSON"),
        Doc::Iota(d) => serde_json::to_value(d).expect("harness: document to JSON"),
      };
      let inner = if iota { &v["doc"] } else { &v };
      let id_text = id.to_string();
      std::iter::once("verificationMethod").chain(RELS.iter().map(|r| member_of(MethodScope::VerificationRelationship(*r)))).find_map(|member| {
        inner.get(member)?.as_array()?.iter().find(|e| e.get("id").and_then(|x| x.as_str()) == Some(id_text.as_str())).and_then(pubkey_of_json)
      })
    };
    specs.push(MethodSpec { fragment: frag, id, scopes, pubkey });
  }
  // methods of other DIDs that share a fragment with one of the document's own methods (listed after them, so that
  // fragment-only signing still picks the own method): naming one as method id must never select its namesake
  let mut twins: Vec<DIDUrl> = Vec::new();
  if rng.chance(2, 3) {
    for t in 0..1 + rng.usize(2) {
      let spec = rng.pick(&specs).clone();
      let foreign: CoreDID = CoreDID::parse(format!("did:example:other{}", t)).unwrap();
      let jwk: Jwk = serde_json::from_str(&Key::new(Alg::EdDSA, 900 + t as u64).public_jwk_json(Some("EdDSA"))).expect("harness jwk");
      let vm = VerificationMethod::new_from_jwk(foreign, jwk, Some(spec.fragment.as_str())).expect("harness method");
      let id = vm.id().clone();
      let scope = if rng.bool() { MethodScope::VerificationMethod } else { spec.scopes[0] };
      // placed through the document's JSON form (appended to the scope's array), so that the set-up does not depend on
      // the id checks of insert_method
      let member = match scope {
        MethodScope::VerificationMethod => "verificationMethod",
        MethodScope::VerificationRelationship(MethodRelationship::Authentication) => "authentication",
        MethodScope::VerificationRelationship(MethodRelationship::AssertionMethod) => "assertionMethod",
        MethodScope::VerificationRelationship(MethodRelationship::KeyAgreement) => "keyAgreement",
        MethodScope::VerificationRelationship(MethodRelationship::CapabilityDelegation) => "capabilityDelegation",
        MethodScope::VerificationRelationship(MethodRelationship::CapabilityInvocation) => "capabilityInvocation",
      };
      let mut v: Value = match &doc {
        Doc::Core(d) => serde_json::to_value(d).expect("harness: document to JSON"),
        Doc::Iota(d) => serde_json::to_value(d).expect("harness: document to JSON"),
      };
      {
        let inner = if iota { &mut v["doc"] } else { &mut v };
        let arr = inner.as_object_mut().expect("document object").entry(member.to_string()).or_insert_with(|| json!([]));
        arr.as_array_mut().expect("method array").push(serde_json::to_value(&vm).expect("method to JSON"));
      }
      let ok = match &mut doc {
        Doc::Core(d) => match serde_json::from_value::<CoreDocument>(v) {
          Ok(nd) => {
            *d = nd;
            true
          }
          Err(_) => false,
        },
        Doc::Iota(d) => match serde_json::from_value::<IotaDocument>(v) {
          Ok(nd) => {
            *d = nd;
            true
          }
          Err(_) => false,
        },
      };
      if ok && !twins.contains(&id) {
        twins.push(id);
      }
    }
  }
  // bare references to methods of OTHER DIDs that the document does not contain - look-alike ids (the own DID in another
  // letter case, shortened / extended by a character) and a plainly different DID - with the fragment of an own method,
  // placed in relationships that do NOT hold that method: they name other DIDs' methods, resolve to nothing, and must
  // never make the own method count as part of that relationship or answer to that id
  let mut danglings: Vec<Dangling> = Vec::new();
  let own = doc.core().id().to_string();
  let mut cands: Vec<(String, &'static str)> = Vec::new();
  if rng.chance(2, 3) {
    let alike = match rng.below(3) {
      0 if iota => own.replacen(":smr:", ":SMR:", 1),
      0 => own.replacen("did:example:c08x", "did:example:C08X", 1),
      1 => own[..own.len() - 1].to_string(),
      _ => format!("{}0", own),
    };
    if alike != own {
      cands.push((alike, "look-alike"));
    }
  }
  if rng.chance(2, 3) {
    cands.push(("did:example:bob".to_string(), "other-did"));
  }
  let rel_names = ["authentication", "assertionMethod", "keyAgreement", "capabilityDelegation", "capabilityInvocation"];
  for (other_did, kind) in cands {
    let spec = rng.pick(&specs).clone();
    let at_front = rng.bool();
    let picks: Vec<bool> = RELS.iter().map(|_| rng.bool()).collect();
    let reference = format!("{}#{}", other_did, spec.fragment.trim_start_matches('#'));
    let Ok(ref_id) = DIDUrl::parse(&reference) else { continue };
    if specs.iter().any(|s| s.id == ref_id) || twins.contains(&ref_id) || danglings.iter().any(|d| d.id == ref_id) {
      continue;
    }
    let mut v: Value = match &doc {
      Doc::Core(d) => serde_json::to_value(d).expect("harness: document to JSON"),
      Doc::Iota(d) => serde_json::to_value(d).expect("harness: document to JSON"),
    };
    let mut rels = Vec::new();
    {
      let inner = if iota { &mut v["doc"] } else { &mut v };
      for ((r, name), pick) in RELS.iter().zip(rel_names).zip(picks) {
        if spec.scopes.contains(&MethodScope::VerificationRelationship(*r)) || !pick {
          continue;
        }
        let arr = inner.as_object_mut().expect("document object").entry(name.to_string()).or_insert_with(|| json!([]));
        let arr = arr.as_array_mut().expect("relationship array");
        if at_front {
          arr.insert(0, json!(reference));
        } else {
          arr.push(json!(reference));
        }
        rels.push(*r);
      }
    }
    if rels.is_empty() {
      continue;
    }
    // (a document kind that does not accept such references simply goes without them)
    let ok = match &mut doc {
      Doc::Core(d) => serde_json::from_value::<CoreDocument>(v).map(|nd| *d = nd).is_ok(),
      Doc::Iota(d) => serde_json::from_value::<IotaDocument>(v).map(|nd| *d = nd).is_ok(),
    };
    if ok {
      danglings.push(Dangling { id: ref_id, rels, kind });
    }
  }
  (doc, storage, specs, twins, danglings)
}

// ---------------------------------------------------------------------------------------------
// Part D: documents holding near-namesake methods
// ---------------------------------------------------------------------------------------------
const NAMESAKE_VARIANTS: [&str; 6] = ["letter-case-pct", "letter-case", "hex-case", "pct-vs-literal", "affix", "letter-and-hex-case"];

/// Distinct fragments (as strings) that differ only in the way `variant` says; all are legal DID URL fragments.
fn namesake_fragments(rng: &mut Rng, variant: &str) -> Vec<String> {
  let (stem, flipped) = *rng.pick(&[("key", "Key"), ("Sig", "sig"), ("auth-Key", "auth-key"), ("k", "K"), ("signing", "SIGNING")]);
  let (lit, up, low) = *rng.pick(&[("-", "%2D", "%2d"), ("~", "%7E", "%7e"), (":", "%3A", "%3a"), (".", "%2E", "%2e"), ("_", "%5F", "%5f"), ("/", "%2F", "%2f")]);
  let tail = rng.below(10).to_string();
  let f = |a: &str, b: &str| format!("{}{}{}", a, b, tail);
  let mut v = match variant {
    "letter-case-pct" => {
      let pct = if rng.bool() { up } else { low };
      vec![f(stem, pct), f(flipped, pct)]
    }
    "letter-case" => vec![f(stem, lit), f(flipped, lit)],
    "hex-case" => vec![f(stem, up), f(stem, low)],
    "pct-vs-literal" => {
      let mut v = vec![f(stem, if rng.bool() { up } else { low }), f(stem, lit)];
      if rng.chance(1, 3) {
        v.push(f(stem, "%25")); // a literal percent sign, encoded
      }
      v
    }
    "affix" => {
      let base = f(stem, if rng.bool() { up } else { lit });
      let mut v = vec![base.clone()];
      let mut more = vec![format!("{}x", base), format!("x{}", base), base[..base.len() - 1].to_string(), base[1..].to_string(), format!("{}%2D", base), format!("%2D{}", base)];
      more.retain(|m| !m.is_empty() && !m.ends_with('%') && m != &base);
      rng.shuffle(&mut more);
      v.extend(more.into_iter().take(1 + rng.usize(2)));
      v
    }
    _ => vec![f(stem, up), f(flipped, low)],
  };
  v.dedup();
  rng.shuffle(&mut v);
  v
}

/// A document obtained from its JSON form (as after resolution) that holds 2-3 near-namesake methods plus an unrelated
/// one, each generated through the same storage in a scratch document of the same DID and then placed - embedded in a
/// relationship or in verificationMethod, optionally referenced from relationships - into one JSON document. `None` when
/// the document kind does not accept the assembled JSON (counted by the caller).
fn build_namesake_doc(rng: &mut Rng, iota: bool, variant: &'static str) -> Option<(Doc, Store, Vec<MethodSpec>)> {
  let storage: Store = Storage::new(JwkMemStore::new(), KeyIdMemstore::new());
  let core_did: CoreDID = CoreDID::parse(format!("did:example:c08n{}", rng.below(1000))).unwrap();
  let fresh = |_: ()| -> Doc {
    if iota {
      Doc::Iota(IotaDocument::new(&NetworkName::try_from("smr").unwrap()))
    } else {
      Doc::Core(CoreDocument::builder(Object::new()).id(core_did.clone()).build().unwrap())
    }
  };
  let to_json = |d: &Doc| -> Value {
    match d {
      Doc::Core(d) => serde_json::to_value(d).expect("harness: document to JSON"),
      Doc::Iota(d) => serde_json::to_value(d).expect("harness: document to JSON"),
    }
  };
  let target = fresh(());
  let did = target.core().id().to_string();
  let mut v = to_json(&target);
  let mut frags = namesake_fragments(rng, variant);
  let unrelated = format!("other-{}", rng.below(10));
  let at = rng.usize(frags.len() + 1);
  frags.insert(at, unrelated);
  // scopes: usually pairwise different, sometimes shared
  let mut pool = all_scopes();
  rng.shuffle(&mut pool);
  let share = rng.chance(1, 4);
  let mut specs: Vec<MethodSpec> = Vec::new();
  for (i, f) in frags.iter().enumerate() {
    let scope = if share { pool[0] } else { pool[i % pool.len()] };
    let mut scratch = fresh(());
    match &mut scratch {
      Doc::Core(d) => block_on(d.generate_method(&storage, JwkMemStore::ED25519_KEY_TYPE, JwsAlgorithm::EdDSA, Some(f.as_str()), scope)),
      Doc::Iota(d) => block_on(d.generate_method(&storage, JwkMemStore::ED25519_KEY_TYPE, JwsAlgorithm::EdDSA, Some(f.as_str()), scope)),
    }
    .expect("generate_method on a fresh document");
    let sv = to_json(&scratch);
    let member = member_of(scope);
    let entry = {
      let inner = if iota { &sv["doc"] } else { &sv };
      inner[member].as_array().and_then(|a| a.first()).cloned().expect("generated method in its scope's member")
    };
    let id_text = format!("{}#{}", did, f);
    assert_eq!(entry.get("id").and_then(|x| x.as_str()), Some(id_text.as_str()), "harness: generated method id");
    let pubkey = pubkey_of_json(&entry);
    let mut scopes = vec![scope];
    let inner = if iota { &mut v["doc"] } else { &mut v };
    let obj = inner.as_object_mut().expect("document object");
    {
      let arr = obj.entry(member.to_string()).or_insert_with(|| json!([]));
      let arr = arr.as_array_mut().expect("method array");
      if rng.bool() {
        arr.insert(0, entry);
      } else {
        arr.push(entry);
      }
    }
    if scope == MethodScope::VerificationMethod {
      for r in RELS {
        if rng.chance(1, 3) {
          let arr = obj.entry(member_of(MethodScope::VerificationRelationship(r)).to_string()).or_insert_with(|| json!([]));
          let arr = arr.as_array_mut().expect("relationship array");
          if rng.bool() {
            arr.insert(0, json!(id_text));
          } else {
            arr.push(json!(id_text));
          }
          scopes.push(MethodScope::VerificationRelationship(r));
        }
      }
    }
    let id = DIDUrl::parse(&id_text).expect("harness: method id");
    // addressed by the bare fragment or in relative form
    let fragment = if rng.bool() { f.clone() } else { format!("#{}", f) };
    specs.push(MethodSpec { fragment, id, scopes, pubkey });
  }
  let doc = if iota { serde_json::from_value::<IotaDocument>(v).ok().map(Doc::Iota) } else { serde_json::from_value::<CoreDocument>(v).ok().map(Doc::Core) }?;
  Some((doc, storage, specs))
}

fn gen_options(rng: &mut Rng, m: &MethodSpec) -> (JwsSignatureOptions, Value) {
  let mut o = JwsSignatureOptions::new();
  let mut d = serde_json::Map::new();
  if rng.chance(1, 3) {
    o = o.attach_jwk_to_header(true);
    d.insert("attach_jwk".into(), json!(true));
  }
  match rng.below(4) {
    0 => {
      o = o.b64(false);
      d.insert("b64".into(), json!(false));
    }
    1 => {
      o = o.b64(true);
      d.insert("b64".into(), json!(true));
    }
    _ => {}
  }
  if rng.chance(1, 3) {
    let t = rng.pick(&["JWT", "example+jwt", "kb+jwt", "ü"]).to_string();
    o = o.typ(t.clone());
    d.insert("typ".into(), json!(t));
  }
  if rng.chance(1, 3) {
    o = o.cty("application/json");
    d.insert("cty".into(), json!("application/json"));
  }
  if rng.chance(1, 4) {
    o = o.url(Url::parse("https://example.com/endpoint?a=b").unwrap());
    d.insert("url".into(), json!("https://example.com/endpoint?a=b"));
  }
  if rng.chance(1, 2) {
    let n = if rng.chance(1, 8) { String::new() } else { format!("nonce-{}", rng.below(100_000)) };
    o = o.nonce(n.clone());
    d.insert("nonce".into(), json!(n));
  }
  if rng.chance(1, 4) {
    // kid override: an arbitrary string, a foreign id, or another spelling of the method id
    // ... or the method's fragment in relative / bare form
    let k = match rng.below(5) {
      0 => "my-own-key-identifier".to_string(),
      1 => "did:example:someone-else#key-0".to_string(),
      2 => format!("#{}", m.fragment.trim_start_matches('#')),
      3 => m.fragment.trim_start_matches('#').to_string(),
      _ => format!("{}", m.id),
    };
    o = o.kid(k.clone());
    d.insert("kid".into(), json!(k));
  }
  if rng.chance(1, 3) {
    o = o.detached_payload(true);
    d.insert("detached".into(), json!(true));
  }
  if rng.chance(1, 3) {
    let mut obj = Object::new();
    obj.insert("x-harness".into(), json!({"n": rng.below(10), "s": "ü\"\\"}));
    if rng.bool() {
      obj.insert("x-second".into(), json!([1, 2, 3]));
    }
    d.insert("custom".into(), json!(obj));
    o = o.custom_header_parameters(obj);
  }
  (o, Value::Object(d))
}

impl Cx {
  #[allow(clippy::too_many_arguments)]
  fn storage_case(&mut self, rng: &mut Rng, doc: &Doc, storage: &Store, specs: &[MethodSpec], twins: &[DIDUrl], dang: &[Dangling], iota: bool) {
    self.rep.eval();
    let m = rng.pick(specs).clone();
    let (pl, pclass) = payload(rng);
    let (o, odesc) = gen_options(rng, &m);
    // the method is addressed by its bare fragment or by its full id (the only unambiguous way when a reference to
    // another DID's method with the same fragment sits in a relationship)
    let shadowed = dang.iter().any(|d| d.id.fragment() == m.id.fragment());
    let by_full_id = if shadowed { rng.chance(3, 4) } else { rng.chance(1, 4) };
    let addr: String = if by_full_id { m.id.to_string() } else { m.fragment.clone() };
    let case = json!({"part":"storage","document": if iota {"IotaDocument"} else {"CoreDocument"}, "method": m.id.to_string(), "addressed_as": addr, "method_scopes": m.scopes.iter().map(|s| s.as_str()).collect::<Vec<_>>(),
      "dangling_references": dang.iter().map(|d| json!({"id": d.id.to_string(), "in": d.rels.iter().map(|r| MethodScope::VerificationRelationship(*r).as_str()).collect::<Vec<_>>()})).collect::<Vec<_>>(),
      "options": odesc, "payload_b64url": url_encode(&pl), "payload_class": pclass});
    let r = catch(|| match doc {
      Doc::Core(d) => block_on(d.create_jws(storage, &addr, &pl, &o)),
      Doc::Iota(d) => block_on(d.create_jws(storage, &addr, &pl, &o)),
    });
    let eff_b64 = o.b64.unwrap_or(true);
    let token = match r {
      Err(p) => {
        self.viol(&format!("create_jws-panic@{}", p.file_only()), format!("{} at {}", p.msg, p.loc()), &case);
        return;
      }
      Ok(Err(e)) => {
        self.rep.inc("create_jws_refused");
        if o.detached_payload || eff_b64 || in_charset(&pl, false) {
          self.rep.inc("create_jws_refused_legal_input");
          // (e.g. the bare fragment also matches a dangling look-alike reference: the library then finds no method)
          let _ = &e;
        }
        return;
      }
      Ok(Ok(t)) => t,
    };
    self.rep.inc("produced");
    self.rep.inc("produced:create_jws");
    if by_full_id {
      self.rep.inc("produced:create_jws:by-full-id");
    }
    if shadowed {
      self.rep.inc("produced:create_jws:shadowed-fragment");
    }
    self.rep.distinct(
      "nontrivial",
      &format!("create_jws|{}|{}|b64:{:?}|det:{}|kid:{}|nonce:{}|jwk:{}|custom:{}|iota:{}", pclass, m.scopes.len(), o.b64, o.detached_payload, o.kid.is_some(), o.nonce.is_some(), o.attach_jwk, o.custom_header_parameters.is_some(), iota),
    );
    let mut case = case.clone();
    case["token"] = json!(token.as_str());
    let transmitted: Vec<u8> = if eff_b64 { url_encode(&pl).into_bytes() } else { pl.clone() };
    let det: Option<&[u8]> = if o.detached_payload { Some(&transmitted) } else { None };
    // header as produced (own dissection)
    let pseg = token.as_str().split('.').next().unwrap_or("");
    let hdr: Value = url_decode(pseg).and_then(|b| serde_json::from_slice(&b).ok()).unwrap_or(Value::Null);
    let want_kid = o.kid.clone().unwrap_or_else(|| m.id.to_string());
    if hdr.get("kid").and_then(|k| k.as_str()) != Some(want_kid.as_str()) {
      self.viol("create_jws-kid", format!("kid in header is {:?}, expected {:?}", hdr.get("kid"), want_kid), &case);
    }
    if hdr.get("nonce").and_then(|k| k.as_str()) != o.nonce.as_deref() {
      self.viol("create_jws-nonce-not-written", format!("nonce in header is {:?}, options say {:?}", hdr.get("nonce"), o.nonce), &case);
    }
    if hdr.get("typ").and_then(|k| k.as_str()) != Some(o.typ.as_deref().unwrap_or("JWT")) {
      self.viol("create_jws-typ", format!("typ in header is {:?}", hdr.get("typ")), &case);
    }
    if !eff_b64 && (hdr.get("b64") != Some(&json!(false)) || hdr.get("crit") != Some(&json!(["b64"]))) {
      self.viol("create_jws-b64-crit", "b64=false requested but header lacks b64:false + crit:[b64]".into(), &case);
    }
    if let Some(c) = &o.custom_header_parameters {
      for (k, v) in c.iter() {
        if hdr.get(k) != Some(v) {
          self.viol("create_jws-custom-parameter", format!("custom parameter {} missing or altered", k), &case);
        }
      }
    }

    // the signature itself (own dissection, own signing-input formula, direct Ed25519): made with the key the document
    // holds for the method the token was requested for, and with no other method's key
    if let Some(pk) = &m.pubkey {
      let sig = token.as_str().rsplit('.').next().and_then(url_decode).unwrap_or_default();
      let si = jwsb::signing_input(pseg, &transmitted);
      self.rep.inc("oracle_ref_signature_checks");
      if !ref_ed_verify(pk, &si, &sig) {
        let whose: Vec<String> = specs.iter().filter(|s| s.id != m.id && s.pubkey.as_ref().map(|k| ref_ed_verify(k, &si, &sig)).unwrap_or(false)).map(|s| s.id.to_string()).collect();
        self.viol(
          "create_jws-signature-not-by-requested-method-key",
          format!("the signature of the token requested for {} (addressed as {:?}) does not verify (direct Ed25519 over the signing input) with that method's key; it verifies with the key(s) of {:?}", m.id, addr, whose),
          &case,
        );
      }
      for other in specs.iter().filter(|s| s.id != m.id) {
        if let Some(ok) = &other.pubkey {
          if ok != pk && ref_ed_verify(ok, &si, &sig) {
            self.viol("create_jws-signature-by-other-method-key", format!("the signature of the token requested for {} verifies (direct Ed25519) with the key of {}", m.id, other.id), &case);
          }
        }
      }
    }

    let base = vopts;
    // the kid names the method unless it was overridden by something that is not its id
    let kid_names_method = o.kid.as_ref().map(|k| k == &m.id.to_string()).unwrap_or(true);
    let mut positive: Vec<(Option<&DIDUrl>, Option<MethodScope>)> = vec![(Some(&m.id), None)];
    for s in &m.scopes {
      positive.push((Some(&m.id), Some(*s)));
    }
    if kid_names_method {
      positive.push((None, None));
      positive.push((None, Some(m.scopes[0])));
    }
    for (mid, scope) in positive {
      let vo = base(o.nonce.as_deref(), mid, scope);
      self.rep.inc("positive_verifications");
      match catch(|| doc.verify(token.as_str(), det, &vo).map(|(c, _)| c)) {
        Err(p) => self.viol(&format!("verify_jws-panic@{}", p.file_only()), format!("{} at {}", p.msg, p.loc()), &case),
        Ok(Err(e)) => self.viol(
          "own-token-does-not-verify:create_jws",
          format!("verify_jws(method_id={:?}, scope={:?}) failed on the document's own token: {}", mid.map(|m| m.to_string()), scope.map(|s| s.as_str()), e),
          &case,
        ),
        Ok(Ok(claims)) => {
          self.rep.inc("verified");
          if claims != pl {
            self.viol("create_jws-claims-differ", "claims after verify_jws differ from the payload signed".into(), &case);
          }
        }
      }
    }
    // negatives: other methods' keys
    for other in specs.iter().filter(|s| s.id != m.id) {
      self.rep.inc("negative_verifications");
      let vo = base(o.nonce.as_deref(), Some(&other.id), None);
      if let Ok(Ok(_)) = catch(|| doc.verify(token.as_str(), det, &vo).map(|_| ())) {
        self.viol("verifies-under-other-method-key", format!("token for {} verifies with method_id {}", m.id, other.id), &case);
      }
    }
    for other in twins {
      self.rep.inc("negative_verifications");
      self.rep.inc("negative_verifications:foreign-namesake");
      let vo = base(o.nonce.as_deref(), Some(other), None);
      if let Ok(Ok(_)) = catch(|| doc.verify(token.as_str(), det, &vo).map(|_| ())) {
        self.viol("verifies-under-other-method-key:foreign-namesake", format!("token for {} verifies with method_id {}", m.id, other), &case);
      }
    }
    self.dangling_negatives(doc, token.as_str(), det, o.nonce.as_deref(), &m, dang, &case);
    // negatives: nonce
    let wrong_nonces: Vec<Option<String>> = match &o.nonce {
      Some(n) => vec![None, Some(format!("{}x", n)), Some(String::new()), Some(n.to_uppercase())],
      None => vec![Some("unexpected".into()), Some(String::new())],
    };
    for wn in wrong_nonces {
      if wn == o.nonce {
        continue;
      }
      self.rep.inc("negative_verifications");
      let vo = base(wn.as_deref(), Some(&m.id), None);
      if let Ok(Ok(_)) = catch(|| doc.verify(token.as_str(), det, &vo).map(|_| ())) {
        self.viol("verifies-with-wrong-nonce", format!("token with nonce {:?} verifies with configured nonce {:?}", o.nonce, wn), &case);
      }
    }
    // negatives: scopes that exclude the method
    for s in all_scopes() {
      if m.scopes.contains(&s) {
        continue;
      }
      self.rep.inc("negative_verifications");
      for mid in [Some(&m.id), None] {
        let vo = base(o.nonce.as_deref(), mid, Some(s));
        if let Ok(Ok(_)) = catch(|| doc.verify(token.as_str(), det, &vo).map(|_| ())) {
          self.viol("verifies-in-excluding-scope", format!("token for {} (scopes {:?}) verifies under scope {}", m.id, m.scopes.iter().map(|s| s.as_str()).collect::<Vec<_>>(), s.as_str()), &case);
        }
      }
    }
    // JWT helpers refuse detached / b64=false
    if o.detached_payload || !eff_b64 {
      self.rep.inc("jwt_refusal_checks");
      let cred: Credential = Credential::from_json(
        r#"{"@context":"https://www.w3.org/2018/credentials/v1","type":["VerifiableCredential"],"issuer":"did:example:c08","issuanceDate":"2020-01-01T00:00:00Z","credentialSubject":{"id":"did:example:sub"}}"#,
      )
      .expect("harness credential");
      let r = catch(|| match doc {
        Doc::Core(d) => block_on(d.create_credential_jwt(&cred, storage, &addr, &o, None)).is_ok(),
        Doc::Iota(d) => block_on(d.create_credential_jwt(&cred, storage, &addr, &o, None)).is_ok(),
      });
      match r {
        Err(p) => self.viol(&format!("create_credential_jwt-panic@{}", p.file_only()), p.msg.clone(), &case),
        Ok(true) => self.viol("credential-jwt-accepts-detached-or-unencoded", "create_credential_jwt accepted detached/b64=false options".into(), &case),
        Ok(false) => {}
      }
      let pres: Presentation<identity_credential::credential::Jwt> = Presentation::builder(Url::parse("did:example:c08").unwrap(), Object::new()).build().expect("harness presentation");
      let r = catch(|| match doc {
        Doc::Core(d) => block_on(d.create_presentation_jwt(&pres, storage, &addr, &o, &JwtPresentationOptions::default())).is_ok(),
        Doc::Iota(d) => block_on(d.create_presentation_jwt(&pres, storage, &addr, &o, &JwtPresentationOptions::default())).is_ok(),
      });
      match r {
        Err(p) => self.viol(&format!("create_presentation_jwt-panic@{}", p.file_only()), p.msg.clone(), &case),
        Ok(true) => self.viol("presentation-jwt-accepts-detached-or-unencoded", "create_presentation_jwt accepted detached/b64=false options".into(), &case),
        Ok(false) => {}
      }
    }
  }
}

// ---------------------------------------------------------------------------------------------
// Part C: references to methods the document does not contain; encoder tokens signed through the storage and verified
// against the document
// ---------------------------------------------------------------------------------------------
impl Cx {
  /// A token produced for method `m` never verifies when the verifier names a dangling reference (the id of a method of
  /// another DID that the document does not contain), whatever the scope: in the relationships that hold the reference
  /// (they exclude the token's method when it shares the fragment), in every other scope, and without a scope.
  #[allow(clippy::too_many_arguments)]
  fn dangling_negatives(&mut self, doc: &Doc, token: &str, det: Option<&[u8]>, nonce: Option<&str>, m: &MethodSpec, dang: &[Dangling], case: &Value) {
    for d in dang {
      let namesake = d.id.fragment() == m.id.fragment();
      let mut scopes: Vec<Option<MethodScope>> = vec![None];
      scopes.extend(all_scopes().into_iter().map(Some));
      for scope in scopes {
        let holds = matches!(scope, Some(MethodScope::VerificationRelationship(r)) if d.rels.contains(&r));
        self.rep.inc("negative_verifications");
        self.rep.inc("negative_verifications:dangling-reference");
        if holds && namesake {
          self.rep.inc("negative_verifications:dangling-reference:namesake-in-its-scope");
          self.rep.inc(&format!("negative_verifications:dangling-reference:namesake-in-its-scope:{}", d.kind));
        }
        let vo = vopts(nonce, Some(&d.id), scope);
        if let Ok(Ok(_)) = catch(|| doc.verify(token, det, &vo).map(|_| ())) {
          let how = match scope {
            None => "unscoped",
            Some(_) if holds => "scoped",
            Some(_) => "scope-without-it",
          };
          self.viol(
            &format!("verifies-under-dangling-reference:{}", how),
            format!("token for {} verifies with method_id {} (a reference to a method the document does not contain, listed in {:?}), scope {:?}", m.id, d.id,
              d.rels.iter().map(|r| MethodScope::VerificationRelationship(*r).as_str()).collect::<Vec<_>>(), scope.map(|s| s.as_str())),
            case,
          );
        }
      }
    }
  }

  /// The document method behind a spec together with the id of its key in the storage (set-up; `None` never happens for
  /// methods generated through the storage).
  fn storage_key<'d>(doc: &'d Doc, storage: &Store, m: &MethodSpec) -> Option<(&'d VerificationMethod, KeyId)> {
    let method = doc.core().resolve_method(&m.id, None)?;
    if method.id() != &m.id {
      return None;
    }
    let digest = MethodDigest::new(method).ok()?;
    let key_id = block_on(storage.key_id_storage().get_key_id(&digest)).ok()?;
    Some((method, key_id))
  }

  /// Encoder -> storage signature -> document verification: a JWS assembled with one of the three encoders from a header
  /// with no `kid`, an unrelated `kid` or the method's id, signed with the storage key of a document method, verifies
  /// against the document when the verifier names that method (and returns what was signed), and never under another
  /// method, a dangling reference, another nonce or an excluding scope.
  #[allow(clippy::too_many_arguments)]
  fn bridge_case(&mut self, rng: &mut Rng, doc: &Doc, storage: &Store, specs: &[MethodSpec], twins: &[DIDUrl], dang: &[Dangling], iota: bool) {
    self.rep.eval();
    let m = rng.pick(specs).clone();
    let (pl, pclass) = payload(rng);
    let b64 = match rng.below(5) {
      0 => Some(false),
      1 => Some(true),
      _ => None,
    };
    let eff_b64 = b64.unwrap_or(true);
    let ser = match rng.below(8) {
      0 => "flattened",
      1 => "general",
      _ => "compact",
    };
    // attached unencoded payloads in the JSON serializations are Part A's business (string escaping); here they are detached
    let detached = if ser != "compact" && !eff_b64 { true } else { rng.chance(1, 3) };
    let transmitted: Vec<u8> = if eff_b64 { url_encode(&pl).into_bytes() } else { pl.clone() };
    let det: Option<&[u8]> = if detached { Some(&transmitted) } else { None };

    // header: alg of the key, kid absent / unrelated / the method's id, optional further parameters
    let others: Vec<&MethodSpec> = specs.iter().filter(|s| s.id != m.id).collect();
    let (kid, kid_class): (Option<String>, &'static str) = match rng.below(8) {
      0..=3 => (None, "no-kid"),
      4 => (Some(rng.pick(&["my-own-key-identifier", "did:example:someone-else#key-0", "#no-such-fragment", ""]).to_string()), "unrelated-kid"),
      5 if !others.is_empty() => (Some(rng.pick(&others).id.to_string()), "other-method-kid"),
      5 => (Some("urn:uuid:5a1c0f4e".to_string()), "unrelated-kid"),
      6 => {
        let mut pool: Vec<String> = twins.iter().map(|t| t.to_string()).collect();
        pool.extend(dang.iter().map(|d| d.id.to_string()));
        if pool.is_empty() {
          (Some("did:example:bob#key-1".to_string()), "unrelated-kid")
        } else {
          (Some(rng.pick(&pool).clone()), "foreign-method-kid")
        }
      }
      _ => (Some(m.id.to_string()), "own-kid"),
    };
    let nonce: Option<String> = if rng.chance(1, 3) { Some(format!("nonce-{}", rng.below(100_000))) } else { None };
    let mut members: Vec<String> = vec!["\"alg\":\"EdDSA\"".to_string()];
    if let Some(k) = &kid {
      members.push(format!("\"kid\":{}", json!(k)));
    }
    if let Some(n) = &nonce {
      members.push(format!("\"nonce\":{}", json!(n)));
    }
    if let Some(b) = b64 {
      members.push(format!("\"b64\":{}", b));
      members.push("\"crit\":[\"b64\"]".into());
    }
    if rng.bool() {
      members.push(format!("\"typ\":{}", json!(rng.pick(&["JWT", "example+jws", "ü"]))));
    }
    if rng.chance(1, 4) {
      members.push("\"cty\":\"application/json\"".into());
    }
    if rng.chance(1, 4) {
      members.push("\"url\":\"https://example.com/endpoint?a=b\"".into());
    }
    if rng.chance(1, 4) {
      members.push(format!("\"x-harness\":{}", rng.pick(&["1", "\"ü\\n\"", "[1,{\"a\":null}]", "{\"deep\":{\"er\":[true,false]}}"])));
    }
    rng.shuffle(&mut members);
    let prot_json = format!("{{{}}}", members.join(","));
    let prot: JwsHeader = serde_json::from_str(&prot_json).expect("generated header");

    let Some((method, key_id)) = Self::storage_key(doc, storage, &m) else {
      self.rep.inc("bridge_setup_failed");
      return;
    };
    let Ok(jwk) = method.data().try_public_key_jwk() else {
      self.rep.inc("bridge_setup_failed");
      return;
    };
    let case = json!({"part":"bridge","document": if iota {"IotaDocument"} else {"CoreDocument"}, "serialization": ser, "method": m.id.to_string(),
      "method_scopes": m.scopes.iter().map(|s| s.as_str()).collect::<Vec<_>>(), "protected": prot_json, "kid_class": kid_class, "b64": b64, "detached": detached,
      "dangling_references": dang.iter().map(|d| json!({"id": d.id.to_string(), "in": d.rels.iter().map(|r| MethodScope::VerificationRelationship(*r).as_str()).collect::<Vec<_>>()})).collect::<Vec<_>>(),
      "payload_b64url": url_encode(&pl), "payload_class": pclass});
    let sign = |si: &[u8], key_id: &KeyId, jwk: &Jwk| -> Result<Vec<u8>, String> { block_on(storage.key_storage().sign(key_id, si, jwk)).map_err(|e| e.to_string()) };

    if ser != "compact" {
      self.bridge_json(rng, doc, storage, specs, &m, ser == "general", &prot, &pl, detached, det, kid_class, &case);
      return;
    }
    let urlsafe = rng.chance(1, 4);
    let opt = if detached {
      CompactJwsEncodingOptions::Detached
    } else {
      CompactJwsEncodingOptions::NonDetached { charset_requirements: if urlsafe { CharSet::UrlSafe } else { CharSet::Default } }
    };
    let r = catch(|| {
      CompactJwsEncoder::new_with_options(&pl, &prot, opt).map(|enc| {
        let si = enc.signing_input().to_vec();
        sign(&si, &key_id, jwk).map(|sig| enc.into_jws(&sig))
      })
    });
    let token: String = match r {
      Err(p) => {
        self.viol(&format!("encoder-panic@{}", p.file_only()), format!("{} at {}", p.msg, p.loc()), &case);
        return;
      }
      Ok(Err(_)) => {
        self.rep.inc("bridge_encoder_refused");
        if detached || eff_b64 || in_charset(&pl, urlsafe) {
          self.rep.inc("bridge_encoder_refused_legal_input");
        }
        return;
      }
      Ok(Ok(Err(_))) => {
        self.rep.inc("bridge_storage_sign_failed");
        return;
      }
      Ok(Ok(Ok(t))) => t,
    };
    self.rep.inc("produced");
    self.rep.inc("produced:bridge");
    self.rep.inc(&format!("produced:bridge:{}", kid_class));
    self.rep.distinct("nontrivial", &format!("bridge|compact|{}|{}|b64:{:?}|det:{}|{}|nonce:{}|iota:{}", pclass, m.scopes.len(), b64, detached, kid_class, nonce.is_some(), iota));
    let mut case = case.clone();
    case["token"] = json!(token);

    // positives: the verifier names the method (with and without each containing scope); the kid alone when it is the id
    let mut positive: Vec<(Option<&DIDUrl>, Option<MethodScope>)> = vec![(Some(&m.id), None)];
    for s in &m.scopes {
      positive.push((Some(&m.id), Some(*s)));
    }
    if kid_class == "own-kid" {
      positive.push((None, None));
      positive.push((None, Some(m.scopes[0])));
    }
    for (mid, scope) in positive {
      let vo = vopts(nonce.as_deref(), mid, scope);
      self.rep.inc("positive_verifications");
      self.rep.inc("positive_verifications:bridge");
      match catch(|| doc.verify(&token, det, &vo)) {
        Err(p) => self.viol(&format!("verify_jws-panic@{}", p.file_only()), format!("{} at {}", p.msg, p.loc()), &case),
        Ok(Err(e)) => self.viol(
          &format!("own-token-does-not-verify:encoder-bridge:{}", kid_class),
          format!("verify_jws(method_id={:?}, scope={:?}) failed on a {} encoder token signed with the storage key of {}: {}", mid.map(|m| m.to_string()), scope.map(|s| s.as_str()), kid_class, m.id, e),
          &case,
        ),
        Ok(Ok((claims, header))) => {
          self.rep.inc("verified");
          self.rep.inc("verified:bridge");
          self.rep.inc(&format!("verified:bridge:{}", kid_class));
          if claims != pl {
            self.viol("bridge-claims-differ", "claims after verify_jws differ from the payload signed".into(), &case);
          }
          if header != prot {
            self.viol("bridge-protected-header-differs", format!("protected header after verify_jws {:?} differs from the one encoded", header), &case);
          }
        }
      }
    }
    // negatives: every other method named by the verifier
    for other in others.iter().map(|s| &s.id).chain(twins.iter()) {
      self.rep.inc("negative_verifications");
      self.rep.inc("negative_verifications:bridge");
      let vo = vopts(nonce.as_deref(), Some(other), None);
      if let Ok(Ok(_)) = catch(|| doc.verify(&token, det, &vo).map(|_| ())) {
        self.viol("verifies-under-other-method-key:encoder-bridge", format!("encoder token signed with the key of {} verifies with method_id {}", m.id, other), &case);
      }
    }
    // ... or named by the kid alone (another method of the document, a foreign namesake, a dangling reference)
    if kid_class == "other-method-kid" || kid_class == "foreign-method-kid" {
      let mut scopes: Vec<Option<MethodScope>> = vec![None];
      scopes.extend(all_scopes().into_iter().map(Some));
      for scope in scopes {
        self.rep.inc("negative_verifications");
        self.rep.inc("negative_verifications:bridge");
        let vo = vopts(nonce.as_deref(), None, scope);
        if let Ok(Ok(_)) = catch(|| doc.verify(&token, det, &vo).map(|_| ())) {
          self.viol("verifies-under-other-method-key:encoder-bridge:kid", format!("encoder token signed with the key of {} and kid {:?} verifies through its kid (scope {:?})", m.id, kid, scope.map(|s| s.as_str())), &case);
        }
      }
    }
    self.dangling_negatives(doc, &token, det, nonce.as_deref(), &m, dang, &case);
    // negatives: nonce
    let wrong_nonces: Vec<Option<String>> = match &nonce {
      Some(n) => vec![None, Some(format!("{}x", n)), Some(String::new())],
      None => vec![Some("unexpected".into()), Some(String::new())],
    };
    for wn in wrong_nonces {
      self.rep.inc("negative_verifications");
      self.rep.inc("negative_verifications:bridge");
      let vo = vopts(wn.as_deref(), Some(&m.id), None);
      if let Ok(Ok(_)) = catch(|| doc.verify(&token, det, &vo).map(|_| ())) {
        self.viol("verifies-with-wrong-nonce:encoder-bridge", format!("token with nonce {:?} verifies with configured nonce {:?}", nonce, wn), &case);
      }
    }
    // negatives: scopes that exclude the method
    for s in all_scopes() {
      if m.scopes.contains(&s) {
        continue;
      }
      self.rep.inc("negative_verifications");
      self.rep.inc("negative_verifications:bridge");
      for mid in [Some(&m.id), None] {
        let vo = vopts(nonce.as_deref(), mid, Some(s));
        if let Ok(Ok(_)) = catch(|| doc.verify(&token, det, &vo).map(|_| ())) {
          self.viol("verifies-in-excluding-scope:encoder-bridge", format!("encoder token signed with the key of {} (scopes {:?}) verifies under scope {}", m.id, m.scopes.iter().map(|s| s.as_str()).collect::<Vec<_>>(), s.as_str()), &case);
        }
      }
    }
  }

  /// The JSON serializations cannot go through `verify_jws` (compact only): the token is decoded with the library's decoder
  /// and each signature is verified with the key the DOCUMENT holds for the method it was produced for (resolved with and
  /// without a containing scope), and must fail with the key the document holds for any other recipient's method.
  #[allow(clippy::too_many_arguments)]
  fn bridge_json(&mut self, rng: &mut Rng, doc: &Doc, storage: &Store, specs: &[MethodSpec], m: &MethodSpec, general: bool, prot: &JwsHeader, pl: &[u8], detached: bool, det: Option<&[u8]>, kid_class: &str, case: &Value) {
    // recipients: the chosen method first; the general form adds up to two further methods of the document, each with its
    // own copy of the header
    let mut recipients: Vec<MethodSpec> = vec![m.clone()];
    if general {
      let mut rest: Vec<MethodSpec> = specs.iter().filter(|s| s.id != m.id).cloned().collect();
      rng.shuffle(&mut rest);
      recipients.extend(rest.into_iter().take(rng.usize(3)));
    }
    let mut keys: Vec<(Jwk, KeyId)> = Vec::new();
    for r in &recipients {
      let Some((method, key_id)) = Self::storage_key(doc, storage, r) else {
        self.rep.inc("bridge_setup_failed");
        return;
      };
      let Ok(jwk) = method.data().try_public_key_jwk() else {
        self.rep.inc("bridge_setup_failed");
        return;
      };
      keys.push((jwk.clone(), key_id));
    }
    let sign = |si: &[u8], i: usize| -> Result<Vec<u8>, String> { block_on(storage.key_storage().sign(&keys[i].1, si, &keys[i].0)).map_err(|e| e.to_string()) };
    let r = catch(|| -> Result<Result<String, String>, identity_jose::error::Error> {
      if !general {
        let enc = FlattenedJwsEncoder::new(pl, Recipient { protected: Some(prot), unprotected: None }, detached)?;
        let si = enc.signing_input().to_vec();
        return Ok(match sign(&si, 0) {
          Ok(sig) => Ok(enc.into_jws(&sig)?),
          Err(e) => Err(e),
        });
      }
      let enc = GeneralJwsEncoder::new(pl, Recipient { protected: Some(prot), unprotected: None }, detached)?;
      let si = enc.signing_input().to_vec();
      let mut ready = match sign(&si, 0) {
        Ok(sig) => enc.set_signature(&sig),
        Err(e) => return Ok(Err(e)),
      };
      for i in 1..recipients.len() {
        let enc = ready.add_recipient(Recipient { protected: Some(prot), unprotected: None })?;
        let si = enc.signing_input().to_vec();
        ready = match sign(&si, i) {
          Ok(sig) => enc.set_signature(&sig),
          Err(e) => return Ok(Err(e)),
        };
      }
      Ok(Ok(ready.into_jws()?))
    });
    let token = match r {
      Err(p) => {
        self.viol(&format!("encoder-panic@{}", p.file_only()), format!("{} at {}", p.msg, p.loc()), case);
        return;
      }
      Ok(Err(_)) => {
        self.rep.inc("bridge_encoder_refused");
        return;
      }
      Ok(Ok(Err(_))) => {
        self.rep.inc("bridge_storage_sign_failed");
        return;
      }
      Ok(Ok(Ok(t))) => t,
    };
    let ser = if general { "general" } else { "flattened" };
    self.rep.inc("produced");
    self.rep.inc("produced:bridge");
    self.rep.inc(&format!("produced:bridge:{}", ser));
    self.rep.distinct("nontrivial", &format!("bridge|{}|n:{}|det:{}|{}", ser, recipients.len(), detached, kid_class));
    let mut case = case.clone();
    case["token"] = json!(token);
    case["recipients"] = json!(recipients.iter().map(|r| r.id.to_string()).collect::<Vec<_>>());
    let verifier = EdDSAJwsVerifier::default();
    // every (signature i, key the document holds for recipient j): verifies iff i == j
    for i in 0..recipients.len() {
      for j in 0..recipients.len() {
        let scopes: Vec<Option<MethodScope>> = if i == j { std::iter::once(None).chain(recipients[j].scopes.iter().map(|s| Some(*s))).collect() } else { vec![None] };
        for scope in scopes {
          let Some(key) = doc.core().resolve_method(&recipients[j].id, scope).and_then(|vm| vm.data().try_public_key_jwk().ok()) else {
            if i == j {
              self.viol(&format!("bridge-method-does-not-resolve:{}", ser), format!("method {} does not resolve in its own scope {:?}", recipients[j].id, scope.map(|s| s.as_str())), &case);
            }
            continue;
          };
          let outcome = catch(|| -> Result<Option<Vec<u8>>, String> {
            let decoder = Decoder::new();
            let item = if general {
              let mut items = decoder.decode_general_serialization(token.as_bytes(), det).map_err(|e| format!("decode: {}", e))?;
              items.nth(i).ok_or_else(|| "decode: signature missing".to_string())?.map_err(|e| format!("decode: {}", e))?
            } else {
              decoder.decode_flattened_serialization(token.as_bytes(), det).map_err(|e| format!("decode: {}", e))?
            };
            Ok(item.verify(&verifier, key).ok().map(|d| d.claims.to_vec()))
          });
          match outcome {
            Err(p) => self.viol(&format!("decoder-panic@{}", p.file_only()), format!("{} at {}", p.msg, p.loc()), &case),
            Ok(Err(e)) => self.viol(&format!("own-token-does-not-decode:encoder-bridge:{}", ser), format!("decoder rejected the library's own token: {}", e), &case),
            Ok(Ok(res)) if i == j => {
              self.rep.inc("positive_verifications");
              self.rep.inc("positive_verifications:bridge");
              match res {
                Some(claims) => {
                  self.rep.inc("verified");
                  self.rep.inc("verified:bridge");
                  self.rep.inc("verified:bridge:json");
                  if claims != pl {
                    self.viol(&format!("bridge-claims-differ:{}", ser), "claims after verification differ from the payload signed".into(), &case);
                  }
                }
                None => self.viol(
                  &format!("own-token-does-not-verify:encoder-bridge:{}", ser),
                  format!("signature {} (storage key of {}) does not verify with the key the document holds for that method (scope {:?})", i, recipients[i].id, scope.map(|s| s.as_str())),
                  &case,
                ),
              }
            }
            Ok(Ok(res)) => {
              self.rep.inc("negative_verifications");
              self.rep.inc("negative_verifications:bridge");
              if res.is_some() {
                self.viol(&format!("verifies-under-other-method-key:encoder-bridge:{}", ser), format!("signature {} (storage key of {}) verifies with the document's key for {}", i, recipients[i].id, recipients[j].id), &case);
              }
            }
          }
        }
      }
    }
  }
}

fn main() {
  let args = Args::parse();
  let scale = args.extra_u64("scale", 1000);
  let mut cx = Cx { rep: Report::new("C08"), tag: "", variant: "" };
  cx.rep.rule(
    "Part A: (payload class x serialization x b64 absent/true/false x detached x charset option x 1-4 recipients x generated legal header \
     sets) through the three encoders; Part B: (document kind x method in 1-4 scopes x every JwsSignatureOptions field x payload class) through \
     create_jws, then positive verify_jws (method id given / from kid, each containing scope) and negative (every other method, wrong/absent \
     nonce, every excluding scope; every dangling reference to another DID's method - look-alike DID or did:example:bob, own fragment, placed \
     in relationships without the own method - named as method id under every scope and none). Part C: (serialization x kid absent / unrelated / \
     another method's / own id x b64 x detached x nonce) encoder tokens signed through the storage key of a document method, verified with \
     verify_jws (JSON forms: decoder + the document's key) positively under the named method and negatively as in Part B. Non-trivial = a token \
     was produced; distinct by the class tuple of those dimensions. Part D: documents read from JSON that hold 2-3 near-namesake methods \
     (fragments differing only in letter case - with and without a %XX octet -, in the hex-digit case of a %XX octet, in percent-encoding vs \
     the literal character, by a leading/trailing character) plus an unrelated one, in different or shared scopes, keys in one storage, go \
     through the Part B and Part C cases (signatures carry the suffix :near-namesake). Every create_jws token is also dissected and its \
     signature checked by direct Ed25519 against the requested method's key (must verify) and every other method's key (must not).",
  );
  let mut rng = args.rng(8);
  let n_a = (if args.thorough { 2_400_000u64 } else { 8_000 } * scale / 1000 / args.nshards).max(60);
  for _ in 0..n_a {
    cx.encoder_case(&mut rng);
  }
  let n_docs = (if args.thorough { 16_000u64 } else { 64 } * scale / 1000 / args.nshards).max(2);
  let per_doc = if args.thorough { 40 } else { 25 };
  let per_doc_bridge = if args.thorough { 24 } else { 16 };
  for d in 0..n_docs {
    let iota = d % 3 == 2;
    let (doc, storage, specs, twins, dang) = build_doc(&mut rng, iota);
    cx.rep.inc("documents");
    if !dang.is_empty() {
      cx.rep.inc("documents_with_dangling_references");
    }
    for _ in 0..per_doc {
      cx.storage_case(&mut rng, &doc, &storage, &specs, &twins, &dang, iota);
    }
    for _ in 0..per_doc_bridge {
      cx.bridge_case(&mut rng, &doc, &storage, &specs, &twins, &dang, iota);
    }
  }
  // Part D
  let n_nn = (if args.thorough { 6_000u64 } else { 48 } * scale / 1000 / args.nshards).max(6);
  let per_nn = if args.thorough { 16 } else { 10 };
  let per_nn_bridge = if args.thorough { 8 } else { 4 };
  let k0 = rng.below(NAMESAKE_VARIANTS.len() as u64);
  for d in 0..n_nn {
    let iota = d % 3 == 1;
    let variant = NAMESAKE_VARIANTS[((k0 + d) % NAMESAKE_VARIANTS.len() as u64) as usize];
    let Some((doc, storage, specs)) = build_namesake_doc(&mut rng, iota, variant) else {
      cx.rep.inc("near_namesake_documents_refused");
      continue;
    };
    cx.rep.inc("near_namesake_documents");
    cx.rep.inc(&format!("near_namesake_documents:{}", variant));
    cx.tag = "near-namesake";
    cx.variant = variant;
    let (before, before_v) = (cx.rep.get("produced:create_jws"), cx.rep.get("verified"));
    for _ in 0..per_nn {
      cx.storage_case(&mut rng, &doc, &storage, &specs, &[], &[], iota);
    }
    for _ in 0..per_nn_bridge {
      cx.bridge_case(&mut rng, &doc, &storage, &specs, &[], &[], iota);
    }
    let (made, verified) = (cx.rep.get("produced:create_jws") - before, cx.rep.get("verified") - before_v);
    cx.rep.count("near_namesake_tokens", made);
    cx.rep.count("near_namesake_verified", verified);
    cx.tag = "";
    cx.variant = "";
  }
  cx.rep.finish();
}
