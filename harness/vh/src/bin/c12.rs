//! C12 — StatusList2021 behaves as an independent-bit vector with one-way revocation.
//!
//! Oracle: the harness's own byte-vector model (entry i = bit `0x80 >> (i % 8)` of byte `i / 8`,
//! i.e. the left-most bit of the bitstring is entry 0, as the W3C StatusList2021 draft demands),
//! its own gzip writer (stored blocks + own CRC-32), own base64 decoder, flate2 used directly for
//! inflating what the library produced. The library is never asked for an expected value.
use identity_core::common::Url;
use identity_credential::credential::{Credential, CredentialBuilder, Issuer, Status, Subject};
use identity_credential::revocation::status_list_2021::{
  CredentialStatus, StatusList2021, StatusList2021Credential, StatusList2021CredentialBuilder,
  StatusList2021CredentialError, StatusList2021Entry, StatusPurpose,
};
use identity_credential::validator::{JwtCredentialValidatorUtils, JwtValidationError, StatusCheck};
use serde_json::{json, Value};
use std::io::{Read, Write};
use vh::panicmon::{catch, PanicRec};
use vh::{Args, Report, Rng};

const MIN_ENTRIES: usize = 131_072;

// ------------------------------------------------------------------------------------------
// reference codecs
// ------------------------------------------------------------------------------------------

fn crc_table() -> [u32; 256] {
  let mut t = [0u32; 256];
  for (n, slot) in t.iter_mut().enumerate() {
    let mut c = n as u32;
    for _ in 0..8 {
      c = if c & 1 != 0 { 0xEDB8_8320 ^ (c >> 1) } else { c >> 1 };
    }
    *slot = c;
  }
  t
}

fn crc32(t: &[u32; 256], data: &[u8]) -> u32 {
  let mut c = 0xFFFF_FFFFu32;
  for b in data {
    c = t[((c ^ *b as u32) & 0xFF) as usize] ^ (c >> 8);
  }
  c ^ 0xFFFF_FFFF
}

/// RFC 1952 member made of RFC 1951 stored blocks only; written by hand.
fn gzip_stored(t: &[u32; 256], data: &[u8]) -> Vec<u8> {
  let mut out = vec![0x1f, 0x8b, 0x08, 0x00, 0, 0, 0, 0, 0x00, 0xff];
  if data.is_empty() {
    out.extend_from_slice(&[0x01, 0x00, 0x00, 0xff, 0xff]);
  }
  let nchunks = data.len().div_ceil(65_535);
  for (k, chunk) in data.chunks(65_535).enumerate() {
    out.push((k + 1 == nchunks) as u8);
    let len = chunk.len() as u16;
    out.extend_from_slice(&len.to_le_bytes());
    out.extend_from_slice(&(!len).to_le_bytes());
    out.extend_from_slice(chunk);
  }
  out.extend_from_slice(&crc32(t, data).to_le_bytes());
  out.extend_from_slice(&(data.len() as u32).to_le_bytes());
  out
}

fn gzip_flate2(data: &[u8], level: u32) -> Vec<u8> {
  let mut e = flate2::write::GzEncoder::new(Vec::new(), flate2::Compression::new(level));
  e.write_all(data).expect("gzip write");
  e.finish().expect("gzip finish")
}

fn gunzip(data: &[u8]) -> Option<Vec<u8>> {
  let mut d = flate2::read::GzDecoder::new(data);
  let mut out = Vec::new();
  d.read_to_end(&mut out).ok()?;
  Some(out)
}

/// Base64 decoder accepting either alphabet, with or without padding (the property does not fix the
/// alphabet of the encoded form; the whole latitude is accepted when *reading* library output).
fn b64_decode_any(s: &str) -> Option<Vec<u8>> {
  let s = s.trim_end_matches('=');
  let mut out = Vec::with_capacity(s.len() * 3 / 4 + 3);
  let (mut acc, mut bits) = (0u32, 0u32);
  for c in s.bytes() {
    let v = match c {
      b'A'..=b'Z' => c - b'A',
      b'a'..=b'z' => c - b'a' + 26,
      b'0'..=b'9' => c - b'0' + 52,
      b'+' | b'-' => 62,
      b'/' | b'_' => 63,
      _ => return None,
    } as u32;
    acc = (acc << 6) | v;
    bits += 6;
    if bits >= 8 {
      bits -= 8;
      out.push((acc >> bits) as u8);
      acc &= (1 << bits) - 1;
    }
  }
  Some(out)
}

fn own_decode(s: &str) -> Option<Vec<u8>> {
  gunzip(&b64_decode_any(s)?)
}

// ------------------------------------------------------------------------------------------
// model
// ------------------------------------------------------------------------------------------

#[derive(Clone, Debug, PartialEq, Eq)]
struct Model {
  bytes: Vec<u8>,
}

impl Model {
  fn len(&self) -> usize {
    self.bytes.len() * 8
  }
  fn get(&self, i: usize) -> bool {
    self.bytes[i / 8] & (0x80u8 >> (i % 8)) != 0
  }
  fn set(&mut self, i: usize, v: bool) {
    if v {
      self.bytes[i / 8] |= 0x80u8 >> (i % 8);
    } else {
      self.bytes[i / 8] &= !(0x80u8 >> (i % 8));
    }
  }
  /// Entry indices at which `actual` differs (first `cap`).
  fn diff(&self, actual: &[u8], cap: usize) -> Vec<usize> {
    let mut d = Vec::new();
    for (k, (a, b)) in self.bytes.iter().zip(actual.iter()).enumerate() {
      if a != b {
        for o in 0..8 {
          if (a ^ b) & (0x80u8 >> o) != 0 && d.len() < cap {
            d.push(k * 8 + o);
          }
        }
        if d.len() >= cap {
          break;
        }
      }
    }
    d
  }
}

fn pattern_bytes(kind: u64, n: usize, pseed: u64) -> Vec<u8> {
  let mut r = Rng::new(pseed, 0xC12);
  match kind {
    0 => r.bytes(n),
    1 => (0..n).map(|_| if r.chance(1, 16) { r.next_u64() as u8 } else { 0 }).collect(),
    2 => vec![0xFF; n],
    3 => (0..n).map(|k| if k % 2 == 0 { 0xAA } else { 0x55 }).collect(),
    4 => (0..n).map(|k| (k % 256) as u8).collect(),
    5 => (0..n).map(|_| if r.chance(1, 16) { r.next_u64() as u8 } else { 0xFF }).collect(),
    _ => vec![0; n],
  }
}
const PATTERN_NAMES: [&str; 7] = ["dense", "sparse", "ones", "aa55", "ramp", "nearly-ones", "zero"];
const GZ_NAMES: [&str; 5] = ["stored", "flate2-0", "flate2-1", "flate2-6", "flate2-9"];

#[derive(Clone, Debug)]
enum Route {
  New(usize),
  Default,
  Decoded { nbytes: usize, pattern: u64, pseed: u64, gz: u64 },
  /// Explicit bytes (table cases); `what` describes them.
  Bytes { what: String, gz: u64 },
}

impl Route {
  fn json(&self) -> Value {
    match self {
      Route::New(n) => json!({"create":"StatusList2021::new","num_entries":n}),
      Route::Default => json!({"create":"StatusList2021::default"}),
      Route::Decoded { nbytes, pattern, pseed, gz } => json!({"create":"try_from_encoded_str(base64(gzip(bytes)))",
        "nbytes":nbytes,"pattern":PATTERN_NAMES[*pattern as usize],"pattern_seed":pseed,"gzip":GZ_NAMES[*gz as usize]}),
      Route::Bytes { what, gz } => json!({"create":"try_from_encoded_str(base64(gzip(bytes)))","bytes":what,"gzip":GZ_NAMES[*gz as usize]}),
    }
  }
  fn short(&self) -> String {
    match self {
      Route::New(n) => format!("new({})", n),
      Route::Default => "default()".into(),
      Route::Decoded { nbytes, pattern, .. } => format!("decoded({} {} bytes)", nbytes, PATTERN_NAMES[*pattern as usize]),
      Route::Bytes { what, .. } => format!("decoded({})", what),
    }
  }
  fn class(&self) -> String {
    match self {
      Route::New(n) => format!("new|{}", size_class(n.div_ceil(8))),
      Route::Default => "default".into(),
      Route::Decoded { nbytes, pattern, gz, .. } => format!("dec|{}|{}|{}", size_class(*nbytes), pattern, gz),
      Route::Bytes { gz, .. } => format!("bytes|{}", gz),
    }
  }
}

fn size_class(nbytes: usize) -> &'static str {
  match nbytes {
    0 => "empty",
    1..=16_383 => "below-min",
    16_384 => "min",
    16_385 => "min+1byte",
    16_386..=100_000 => "mid",
    _ => "1M",
  }
}

#[derive(Clone, Copy, Debug)]
enum Op {
  Get(usize),
  Set(usize, bool),
}

fn fmt_hist(h: &[Op]) -> String {
  let mut s = String::new();
  for (k, o) in h.iter().enumerate() {
    if k > 0 {
      s.push(' ');
    }
    match o {
      Op::Get(i) => s.push_str(&format!("get({})", i)),
      Op::Set(i, v) => s.push_str(&format!("set({},{})", i, v)),
    }
  }
  s
}

// ------------------------------------------------------------------------------------------
// list level
// ------------------------------------------------------------------------------------------

struct Ctx {
  rep: Report,
  crc: [u32; 256],
  /// `--strict-own-entry 1`: treat "entry written by set_credential_status is not matched by the validator
  /// because credentialSubject.id != credential id" as a violation instead of an observation.
  strict_own_entry: bool,
}

impl Ctx {
  fn own_encode(&self, bytes: &[u8], gz: u64) -> String {
    let z = match gz {
      0 => gzip_stored(&self.crc, bytes),
      1 => gzip_flate2(bytes, 0),
      2 => gzip_flate2(bytes, 1),
      3 => gzip_flate2(bytes, 6),
      _ => gzip_flate2(bytes, 9),
    };
    vh::b64::std_encode_nopad(&z)
  }

  fn on_panic(&mut self, entry: &str, out_of_range: bool, p: &PanicRec, case: Value) {
    if p.in_harness() {
      panic!("harness bug: panic in harness code at {}: {}", p.loc(), p.msg);
    }
    self.rep.inc(&format!("panics_via:{}", entry));
    let sig = if out_of_range {
      format!("index-out-of-range-panic@{}", p.file_only())
    } else {
      format!("{}-panic@{}", entry, p.file_only())
    };
    self.rep.violation(&sig, &format!("{} panicked: {} at {} :: {}", entry, p.msg, p.loc(), case), case);
  }

  /// Decodes a list from bytes the harness encoded itself. `None` = the library would not take it
  /// (counted, never a violation: the statement says nothing about foreign encodings) or panicked.
  fn decode_bytes(&mut self, bytes: &[u8], gz: u64, origin: &Value) -> Option<StatusList2021> {
    let enc = self.own_encode(bytes, gz);
    match catch(|| StatusList2021::try_from_encoded_str(&enc)) {
      Err(p) => {
        self.on_panic("try_from_encoded_str", false, &p, json!({"origin":origin,"encoded_len":enc.len()}));
        None
      }
      Ok(Err(_)) => {
        self.rep.inc("harness_encoding_rejected");
        None
      }
      Ok(Ok(l)) => {
        self.rep.inc("decoded_lists");
        if bytes.len() * 8 < MIN_ENTRIES {
          self.rep.inc("decoded_below_minimum_accepted");
        }
        Some(l)
      }
    }
  }

  fn build(&mut self, route: &Route, bytes_for_route: Option<&[u8]>) -> Option<(StatusList2021, Model)> {
    let origin = route.json();
    let (list, model) = match route {
      Route::New(n) => {
        let n = *n;
        match catch(|| StatusList2021::new(n)) {
          Err(p) => {
            self.on_panic("new", false, &p, origin.clone());
            return None;
          }
          Ok(Err(e)) => {
            if n >= MIN_ENTRIES {
              self.rep.violation(
                "new-rejects-permitted-size",
                &format!("StatusList2021::new({}) = Err({})", n, e),
                origin.clone(),
              );
            } else {
              self.rep.inc("new_rejected_below_minimum");
            }
            return None;
          }
          Ok(Ok(l)) => {
            self.rep.inc("new_lists");
            (l, Model { bytes: vec![0; n.div_ceil(8)] })
          }
        }
      }
      Route::Default => match catch(StatusList2021::default) {
        Err(p) => {
          self.on_panic("default", false, &p, origin.clone());
          return None;
        }
        Ok(l) => {
          self.rep.inc("new_lists");
          (l, Model { bytes: vec![0; MIN_ENTRIES / 8] })
        }
      },
      Route::Decoded { nbytes, pattern, pseed, gz } => {
        let bytes = pattern_bytes(*pattern, *nbytes, *pseed);
        let l = self.decode_bytes(&bytes, *gz, &origin)?;
        (l, Model { bytes })
      }
      Route::Bytes { gz, .. } => {
        let bytes = bytes_for_route.expect("bytes route needs bytes").to_vec();
        let l = self.decode_bytes(&bytes, *gz, &origin)?;
        (l, Model { bytes })
      }
    };
    // len
    match catch(|| list.len()) {
      Err(p) => {
        self.on_panic("len", false, &p, origin.clone());
        return None;
      }
      Ok(l) => {
        self.rep.inc("len_checks");
        let ok = match route {
          // "rounded up to the closest multiple of 8": the list must hold at least n entries.
          Route::New(n) => l == model.len() && l >= *n,
          _ => l == model.len(),
        };
        if !ok {
          let kind = if matches!(route, Route::New(_) | Route::Default) { "new" } else { "decode" };
          self.rep.violation(
            &format!("len-mismatch:{}", kind),
            &format!("{}: len() = {} but the list was created with {} entries", route.short(), l, model.len()),
            origin.clone(),
          );
          return None;
        }
      }
    }
    Some((list, model))
  }

  /// Reads every entry in `lo..hi` in one guarded call; returns (index, library answer) where it
  /// differs from the model or is an error.
  fn sweep(&mut self, list: &StatusList2021, model: &Model, lo: usize, hi: usize, origin: &Value) -> Vec<usize> {
    let hi = hi.min(model.len());
    if lo >= hi {
      return Vec::new();
    }
    let r = catch(|| {
      let mut bad: Vec<(usize, Option<bool>)> = Vec::new();
      for i in lo..hi {
        match list.get(i) {
          Ok(v) => {
            if v != model.get(i) && bad.len() < 16 {
              bad.push((i, Some(v)));
            }
          }
          Err(_) => {
            if bad.len() < 16 {
              bad.push((i, None));
            }
          }
        }
      }
      bad
    });
    self.rep.count("get_in_range", (hi - lo) as u64);
    match r {
      Err(p) => {
        self.on_panic("get", false, &p, json!({"origin":origin,"range":[lo,hi]}));
        Vec::new()
      }
      Ok(bad) => {
        let mut diffs = Vec::new();
        for (i, v) in bad {
          match v {
            Some(_) => diffs.push(i),
            None => self.rep.violation(
              "in-range-rejected:get",
              &format!("get({}) = Err on a list of {} entries", i, model.len()),
              json!({"origin":origin,"index":i,"len":model.len()}),
            ),
          }
        }
        diffs
      }
    }
  }

  fn window(&mut self, list: &StatusList2021, model: &Model, byte: usize, origin: &Value) -> Vec<usize> {
    let lo = byte.saturating_sub(1) * 8;
    let hi = (byte + 2).saturating_mul(8);
    self.sweep(list, model, lo, hi, origin)
  }

  /// into_encoded_str -> (own decode vs model, library decode vs list). Returns model diffs.
  fn full_check(&mut self, list: &StatusList2021, model: &Model, origin: &Value) -> Vec<usize> {
    self.rep.inc("roundtrips");
    let enc = match catch(|| list.clone().into_encoded_str()) {
      Err(p) => {
        self.on_panic("into_encoded_str", false, &p, origin.clone());
        return Vec::new();
      }
      Ok(s) => s,
    };
    let mut diffs = Vec::new();
    match own_decode(&enc) {
      None => self.rep.violation(
        "encoded-form-undecodable",
        "into_encoded_str output is not base64(gzip(..)) for an independent decoder",
        json!({"origin":origin,"encoded_prefix":enc.chars().take(64).collect::<String>()}),
      ),
      Some(b) => {
        if b.len() != model.bytes.len() {
          self.rep.violation(
            "encoded-length-mismatch",
            &format!("encoded form expands to {} bytes, list has {}", b.len(), model.bytes.len()),
            origin.clone(),
          );
        } else {
          diffs = model.diff(&b, 16);
        }
      }
    }
    match catch(|| StatusList2021::try_from_encoded_str(&enc)) {
      Err(p) => self.on_panic("try_from_encoded_str", false, &p, json!({"origin":origin,"input":"own into_encoded_str output"})),
      Ok(Err(e)) => self.rep.violation(
        "encode-roundtrip-mismatch",
        &format!("try_from_encoded_str(into_encoded_str(L)) = Err({})", e),
        origin.clone(),
      ),
      Ok(Ok(back)) => {
        let same = catch(|| back == *list && back.len() == list.len()).unwrap_or(false);
        if !same {
          self.rep.violation(
            "encode-roundtrip-mismatch",
            "try_from_encoded_str(into_encoded_str(L)) != L",
            origin.clone(),
          );
        } else {
          self.rep.inc("roundtrip_identical");
        }
      }
    }
    diffs
  }

  fn report_write_diffs(
    &mut self,
    level: &str,
    route: &str,
    i: usize,
    v: bool,
    accepted: bool,
    before_byte: Option<u8>,
    diffs: &[usize],
    case: Value,
  ) {
    if diffs.is_empty() {
      return;
    }
    let others: Vec<usize> = diffs.iter().copied().filter(|d| *d != i).collect();
    if !accepted {
      self.rep.violation(
        &format!("{}failed-write-changed-state", level),
        &format!("{}: refused write ({},{}) changed entries {:?}", route, i, v, diffs),
        case,
      );
      return;
    }
    if diffs.contains(&i) {
      self.rep.violation(
        &format!("{}get-after-set-mismatch", level),
        &format!("{}: after writing {} to entry {} it reads {}", route, v, i, !v),
        case.clone(),
      );
    }
    if !others.is_empty() {
      let b = before_byte.map(|b| format!(" (byte {} was {:#010b})", i / 8, b)).unwrap_or_default();
      self.rep.violation(
        &format!("{}set-{}-disturbs-other-entries", level, v),
        &format!("{}: writing {} to entry {}{} flipped entries {:?}", route, v, i, b, others),
        case,
      );
    }
  }

  /// One `get` with the bounds oracle. Returns the value for an in-range accepted read.
  fn do_get(&mut self, list: &StatusList2021, len: usize, i: usize, origin: &Value, hist: &[Op]) -> Option<bool> {
    let inr = i < len;
    match catch(|| list.get(i)) {
      Err(p) => {
        self.on_panic("get", !inr, &p, json!({"origin":origin,"call":format!("get({})", i),"len":len,"history":fmt_hist(hist)}));
        None
      }
      Ok(Ok(v)) => {
        if !inr {
          self.rep.violation(
            "out-of-range-accepted:get",
            &format!("get({}) = Ok({}) on a list of {} entries", i, v, len),
            json!({"origin":origin,"index":i,"len":len}),
          );
          None
        } else {
          self.rep.inc("get_in_range");
          Some(v)
        }
      }
      Ok(Err(_)) => {
        if inr {
          self.rep.violation(
            "in-range-rejected:get",
            &format!("get({}) = Err on a list of {} entries", i, len),
            json!({"origin":origin,"index":i,"len":len}),
          );
        } else {
          self.rep.inc("oob_rejected");
        }
        None
      }
    }
  }

  /// One `set` with all oracles; returns true when list and model may have diverged (caller resyncs).
  fn do_set(&mut self, list: &mut StatusList2021, model: &mut Model, i: usize, v: bool, route: &Route, hist: &[Op], full: bool) -> bool {
    let origin = route.json();
    let inr = i < model.len();
    let wbyte = if inr { i / 8 } else { model.bytes.len().saturating_sub(1) };
    let before_byte = model.bytes.get(wbyte).copied();
    let mlen = model.len();
    let case = |extra: Value| json!({"origin":origin,"call":format!("set({},{})", i, v),"len":mlen,"history":fmt_hist(hist),"detail":extra});
    let mut accepted = false;
    match catch(|| list.set(i, v)) {
      Err(p) => {
        self.on_panic("set", !inr, &p, case(json!(null)));
        return true;
      }
      Ok(Ok(())) => {
        if inr {
          accepted = true;
          self.rep.inc(if v { "set_true_ok" } else { "set_false_ok" });
          if !v && before_byte.map(|b| b & !(0x80u8 >> (i % 8)) != 0).unwrap_or(false) {
            self.rep.inc("set_false_with_set_neighbours");
          }
          model.set(i, v);
        } else {
          self.rep.violation(
            "out-of-range-accepted:set",
            &format!("set({},{}) = Ok on a list of {} entries", i, v, model.len()),
            case(json!(null)),
          );
        }
      }
      Ok(Err(_)) => {
        if inr {
          self.rep.violation(
            "in-range-rejected:set",
            &format!("set({},{}) = Err on a list of {} entries", i, v, model.len()),
            case(json!(null)),
          );
        } else {
          self.rep.inc("oob_rejected");
        }
      }
    }
    if model.bytes.is_empty() {
      return false;
    }
    let mut diffs = self.window(list, model, wbyte, &origin);
    if full {
      for d in self.full_check(list, model, &origin) {
        if !diffs.contains(&d) {
          diffs.push(d);
        }
      }
    }
    if !diffs.is_empty() {
      let after: Vec<String> = (wbyte.saturating_sub(1)..(wbyte + 2).min(model.bytes.len()))
        .map(|k| format!("byte {} expected {:#010b}", k, model.bytes[k]))
        .collect();
      let c = case(json!({"byte_before": before_byte.map(|b| format!("{:#010b}", b)), "expected_after": after, "flipped_entries": diffs}));
      self.report_write_diffs("", &route.short(), i, v, accepted, before_byte, &diffs, c);
      return true;
    }
    false
  }

  fn resync(&mut self, model: &Model, origin: &Value) -> Option<StatusList2021> {
    self.rep.inc("resyncs");
    self.decode_bytes(&model.bytes, 0, origin)
  }

  fn run_sequence(&mut self, route: &Route, bytes: Option<&[u8]>, ops: &[Op], full_every: usize, label: &str) {
    self.rep.eval();
    let origin = route.json();
    let Some((mut list, mut model)) = self.build(route, bytes) else { return };
    // a fresh list reads as the bytes it was made from
    let d = self.sweep(&list, &model, 0, model.len(), &origin);
    if !d.is_empty() {
      self.rep.violation(
        "get-mismatch-on-fresh-list",
        &format!("{}: entries {:?} read differently from the bytes the list was created from", route.short(), d),
        json!({"origin":origin,"entries":d}),
      );
      return;
    }
    self.rep.inc("fresh_sweeps");
    let mut hist: Vec<Op> = Vec::new();
    let (mut nset, mut nget, mut noob) = (0u32, 0u32, 0u32);
    for (k, op) in ops.iter().enumerate() {
      hist.push(*op);
      match *op {
        Op::Get(i) => {
          if i >= model.len() {
            noob += 1;
            self.rep.inc("oob_probes");
          }
          nget += 1;
          if let Some(v) = self.do_get(&list, model.len(), i, &origin, &hist) {
            if v != model.get(i) {
              self.rep.violation(
                "get-wrong-value",
                &format!("{}: get({}) = {} but the last value written there is {}", route.short(), i, v, model.get(i)),
                json!({"origin":origin,"history":fmt_hist(&hist)}),
              );
            }
          }
        }
        Op::Set(i, v) => {
          if i >= model.len() {
            noob += 1;
            self.rep.inc("oob_probes");
          }
          nset += 1;
          let full = full_every > 0 && (k + 1) % full_every == 0;
          if self.do_set(&mut list, &mut model, i, v, route, &hist, full) {
            match self.resync(&model, &origin) {
              Some(l) => list = l,
              None => return,
            }
          }
        }
      }
    }
    // end of history: whole-list comparison through the encoded form, and by reading every entry
    let d = self.full_check(&list, &model, &origin);
    if !d.is_empty() {
      self.rep.violation(
        "encoded-form-differs-from-model",
        &format!("{}: after the history the encoded form differs from the model at entries {:?}", route.short(), d),
        json!({"origin":origin,"history":fmt_hist(&hist),"entries":d}),
      );
    }
    let d = self.sweep(&list, &model, 0, model.len(), &origin);
    if !d.is_empty() {
      self.rep.violation(
        "get-wrong-value",
        &format!("{}: after the history entries {:?} read differently from the last value written", route.short(), d),
        json!({"origin":origin,"history":fmt_hist(&hist),"entries":d}),
      );
    }
    self.rep.distinct(
      "nontrivial",
      &format!("{}|{}|s{}|g{}|o{}", label, route.class(), (nset / 25).min(9), (nget / 25).min(9), noob.min(3)),
    );
    if self.rep.want_sample() && nset > 3 {
      let h: Vec<Op> = hist.iter().take(8).copied().collect();
      self.rep.sample(json!({"kind":label,"origin":origin,"first_ops":fmt_hist(&h),"ops":hist.len()}));
    }
  }
}

fn gen_ops(rng: &mut Rng, len: usize, n: usize) -> Vec<Op> {
  let nbytes = len / 8;
  let mut hot: Vec<usize> = Vec::new();
  if nbytes > 0 {
    let k = 1 + rng.usize(3);
    for _ in 0..k {
      hot.push(match rng.below(6) {
        0 => 0,
        1 => nbytes - 1,
        2 => nbytes.saturating_sub(2),
        _ => rng.usize(nbytes),
      });
    }
  }
  let mut ops = Vec::with_capacity(n);
  for _ in 0..n {
    let r = rng.below(100);
    let idx = if r < 70 && !hot.is_empty() {
      *rng.pick(&hot) * 8 + rng.usize(8)
    } else if r < 85 && len > 0 {
      rng.usize(len)
    } else {
      match rng.below(10) {
        0 => len.saturating_sub(1),
        1 => len,
        2 => len + 1,
        3 => len + 7,
        4 => len + 8,
        5 => usize::MAX,
        6 => usize::MAX - rng.usize(16),
        7 => len + rng.usize(1 << 20),
        8 => len.saturating_mul(8),
        _ => (rng.next_u64() as usize) | (1 << 40),
      }
    };
    ops.push(match rng.below(10) {
      0 | 1 => Op::Get(idx),
      2..=5 => Op::Set(idx, true),
      _ => Op::Set(idx, false),
    });
  }
  ops
}

fn gen_route(rng: &mut Rng, allow_big: bool) -> Route {
  let r = rng.below(100);
  if r < 30 {
    let n = match rng.below(12) {
      0 => MIN_ENTRIES,
      1..=7 => MIN_ENTRIES + 1 + rng.usize(7),
      8 => MIN_ENTRIES + 8,
      9 if allow_big => 1_000_000,
      10 if allow_big => 1 << 20,
      _ => MIN_ENTRIES + rng.usize(70_000),
    };
    Route::New(n)
  } else if r < 33 {
    Route::Default
  } else {
    let nbytes = match rng.below(20) {
      0..=9 => 16_384,
      10 | 11 => 16_385,
      12 | 13 => 16_384 + rng.usize(9_000),
      14 | 15 if allow_big => 131_072,
      16 => rng.usize(9), // 0..8 bytes: below the minimum `new` enforces, but decodable
      17 => 1 + rng.usize(16_383),
      _ => 16_384,
    };
    Route::Decoded { nbytes, pattern: rng.below(7), pseed: rng.next_u64(), gz: rng.below(5) }
  }
}

// ------------------------------------------------------------------------------------------
// very large lists (the statement imposes a minimum length only): sparse model, no sweeps, no encoding
// ------------------------------------------------------------------------------------------

/// Widths (bits) of the integer types an entry index (w) or the byte position derived from it (w + 3) could be
/// squeezed through on its way to the store. Only used to choose *which other entries are read* after a write;
/// what they must read is decided by the model.
#[cfg(target_pointer_width = "64")]
const ALIAS_WIDTHS: [u32; 12] = [8, 11, 15, 16, 19, 24, 27, 31, 32, 34, 35, 36];

/// Model of a zero-filled list of `len` entries of which only a few were ever written.
#[cfg(target_pointer_width = "64")]
struct Sparse {
  len: usize,
  written: std::collections::BTreeMap<usize, bool>,
}

#[cfg(target_pointer_width = "64")]
impl Sparse {
  fn get(&self, i: usize) -> bool {
    self.written.get(&i).copied().unwrap_or(false)
  }
}

/// In-range entries related to `i` (which may itself be out of range): the bytes around it and the entries whose
/// index differs from `i` by / is `i` reduced modulo a power of two.
#[cfg(target_pointer_width = "64")]
fn relatives(i: usize, len: usize) -> std::collections::BTreeSet<usize> {
  let mut s = std::collections::BTreeSet::new();
  if len < 8 {
    return s;
  }
  let byte = (i / 8).min(len / 8 - 1);
  for k in byte.saturating_sub(1) * 8..((byte + 2) * 8).min(len) {
    if k != i {
      s.insert(k);
    }
  }
  for w in ALIAS_WIDTHS {
    let bit = 1usize << w;
    for c in [i & (bit - 1), i ^ bit, i.wrapping_add(bit), i.wrapping_sub(bit)] {
      if c < len && c != i {
        s.insert(c);
      }
    }
  }
  s
}

#[cfg(target_pointer_width = "64")]
fn huge_class(len: usize) -> String {
  let top = usize::BITS - 1 - (len.max(2) - 1).leading_zeros();
  format!("2^{}{}", top, if len.is_power_of_two() { "exact" } else { "+" })
}

#[cfg(target_pointer_width = "64")]
impl Ctx {
  /// Reads the given in-range entries in one guarded call. `None`: a violation was already reported
  /// (panic / in-range index refused); otherwise the entries that differ from the model (first 16).
  fn huge_probe(&mut self, list: &StatusList2021, m: &Sparse, idxs: &std::collections::BTreeSet<usize>, origin: &Value) -> Option<Vec<usize>> {
    let r = catch(|| {
      let mut bad: Vec<(usize, Option<bool>)> = Vec::new();
      for &i in idxs {
        match list.get(i) {
          Ok(v) => {
            if v != m.get(i) && bad.len() < 16 {
              bad.push((i, Some(v)));
            }
          }
          Err(_) => {
            if bad.len() < 16 {
              bad.push((i, None));
            }
          }
        }
      }
      bad
    });
    self.rep.count("get_in_range", idxs.len() as u64);
    self.rep.count("huge_probe_reads", idxs.len() as u64);
    match r {
      Err(p) => {
        let first: Vec<usize> = idxs.iter().take(8).copied().collect();
        self.on_panic("get", false, &p, json!({"origin":origin,"len":m.len,"indices_read_first":first}));
        None
      }
      Ok(bad) => {
        let mut diffs = Vec::new();
        let mut refused = false;
        for (i, v) in bad {
          match v {
            Some(_) => diffs.push(i),
            None => {
              refused = true;
              self.rep.violation(
                "in-range-rejected:get",
                &format!("get({}) = Err on a list of {} entries", i, m.len),
                json!({"origin":origin,"index":i,"len":m.len}),
              );
            }
          }
        }
        if refused {
          None
        } else {
          Some(diffs)
        }
      }
    }
  }

  /// One write/read history over `StatusList2021::new(n)` for a very large `n`. The list is never swept, cloned,
  /// compared or encoded: after every write the written entry, the entries around it, the entries whose index is
  /// related to it by a power of two, every entry written so far and the two ends of the list are read back.
  fn run_huge(&mut self, n: usize, ops: &[Op], label: &str) {
    use std::collections::BTreeSet;
    self.rep.eval();
    let route = Route::New(n);
    let origin = route.json();
    let nbytes = n.div_ceil(8);
    // harness-side guard: where the machine cannot provide the address space the case is skipped (counted), it must
    // not abort the shard
    {
      let mut guard: Vec<u8> = Vec::new();
      if guard.try_reserve_exact(nbytes).is_err() {
        self.rep.inc("huge_alloc_unavailable");
        return;
      }
    }
    let list = match catch(|| StatusList2021::new(n)) {
      Err(p) => {
        self.on_panic("new", false, &p, origin.clone());
        return;
      }
      Ok(Err(e)) => {
        self.rep.violation("new-rejects-permitted-size", &format!("StatusList2021::new({}) = Err({})", n, e), origin.clone());
        return;
      }
      Ok(Ok(l)) => l,
    };
    let mut list = list;
    self.rep.inc("new_lists");
    self.rep.inc("huge_lists");
    let len = nbytes * 8;
    match catch(|| list.len()) {
      Err(p) => {
        self.on_panic("len", false, &p, origin.clone());
        return;
      }
      Ok(l) => {
        self.rep.inc("len_checks");
        if l != len {
          self.rep.violation(
            "len-mismatch:new",
            &format!("{}: len() = {} but the list was created with {} entries", route.short(), l, len),
            origin.clone(),
          );
          return;
        }
      }
    }
    let mut m = Sparse { len, written: Default::default() };
    let ends: BTreeSet<usize> = (0..8).chain(len - 8..len).collect();
    let mut all: BTreeSet<usize> = ends.clone();
    for op in ops {
      let i = match *op {
        Op::Get(i) | Op::Set(i, _) => i,
      };
      if i < len {
        all.insert(i);
      }
      all.extend(relatives(i, len));
    }
    // a fresh list reads false wherever this history is going to look
    match self.huge_probe(&list, &m, &all, &origin) {
      None => return,
      Some(d) if !d.is_empty() => {
        self.rep.violation(
          "get-mismatch-on-fresh-list",
          &format!("{}: entries {:?} of a freshly created list read true", route.short(), d),
          json!({"origin":origin,"entries":d}),
        );
        return;
      }
      _ => {}
    }
    let mut hist: Vec<Op> = Vec::new();
    let (mut nset, mut nget, mut noob, mut nhigh) = (0u32, 0u32, 0u32, 0u32);
    for op in ops {
      hist.push(*op);
      match *op {
        Op::Get(i) => {
          if i >= len {
            noob += 1;
            self.rep.inc("oob_probes");
          }
          nget += 1;
          if let Some(v) = self.do_get(&list, len, i, &origin, &hist) {
            if v != m.get(i) {
              self.rep.violation(
                "get-wrong-value",
                &format!("{}: get({}) = {} but the last value written there is {}", route.short(), i, v, m.get(i)),
                json!({"origin":origin,"history":fmt_hist(&hist)}),
              );
              return;
            }
          }
        }
        Op::Set(i, v) => {
          let inr = i < len;
          if !inr {
            noob += 1;
            self.rep.inc("oob_probes");
          }
          nset += 1;
          let case = |extra: Value| json!({"origin":origin,"call":format!("set({},{})", i, v),"len":len,"history":fmt_hist(&hist),"detail":extra});
          let mut accepted = false;
          match catch(|| list.set(i, v)) {
            Err(p) => {
              self.on_panic("set", !inr, &p, case(json!(null)));
              return;
            }
            Ok(Ok(())) => {
              if inr {
                accepted = true;
                self.rep.inc(if v { "set_true_ok" } else { "set_false_ok" });
                self.rep.inc("huge_set_ok");
                if i >= 1usize << 32 {
                  nhigh += 1;
                  self.rep.inc("huge_set_ok_index_ge_2p32");
                }
                m.written.insert(i, v);
              } else {
                self.rep.violation(
                  "out-of-range-accepted:set",
                  &format!("set({},{}) = Ok on a list of {} entries", i, v, len),
                  case(json!(null)),
                );
              }
            }
            Ok(Err(_)) => {
              if inr {
                self.rep.violation(
                  "in-range-rejected:set",
                  &format!("set({},{}) = Err on a list of {} entries", i, v, len),
                  case(json!(null)),
                );
              } else {
                self.rep.inc("oob_rejected");
              }
            }
          }
          let rel = relatives(i, len);
          self.rep.count("huge_related_entries_read", rel.len() as u64);
          let mut look: BTreeSet<usize> = rel;
          look.extend(ends.iter().copied());
          look.extend(m.written.keys().copied());
          if inr {
            look.insert(i);
          }
          let Some(diffs) = self.huge_probe(&list, &m, &look, &origin) else { return };
          if !diffs.is_empty() {
            let c = case(json!({"flipped_entries": diffs, "entries_written_so_far": m.written.iter().map(|(k, v)| format!("{}={}", k, v)).collect::<Vec<_>>()}));
            self.report_write_diffs("", &route.short(), i, v, accepted, None, &diffs, c);
            // list and model have diverged and a list of this size cannot be rebuilt from the model: stop here
            return;
          }
        }
      }
    }
    // end of history: everything this history looked at or wrote
    all.extend(m.written.keys().copied());
    match self.huge_probe(&list, &m, &all, &origin) {
      None => return,
      Some(d) if !d.is_empty() => {
        self.rep.violation(
          "get-wrong-value",
          &format!("{}: after the history entries {:?} read differently from the last value written", route.short(), d),
          json!({"origin":origin,"history":fmt_hist(&hist),"entries":d}),
        );
      }
      _ => {}
    }
    self.rep.inc("huge_histories_completed");
    self.rep.distinct(
      "nontrivial",
      &format!("{}|huge|{}|s{}|g{}|o{}|h{}", label, huge_class(len), (nset / 10).min(9), (nget / 10).min(9), noob.min(3), (nhigh / 5).min(5)),
    );
    if self.rep.want_sample() && nset > 3 {
      let h: Vec<Op> = hist.iter().take(8).copied().collect();
      self.rep.sample(json!({"kind":label,"origin":origin,"first_ops":fmt_hist(&h),"ops":hist.len()}));
    }
  }
}

#[cfg(target_pointer_width = "64")]
fn gen_huge_size(rng: &mut Rng, thorough: bool) -> usize {
  let base: usize = match rng.below(if thorough { 12 } else { 10 }) {
    0 | 1 => 1 << 31,
    2..=6 => 1 << 32,
    7 | 8 => 1 << 33,
    9 => (1 << 32) + (1 << 31),
    10 => 1 << 34,
    _ => 1 << 35,
  };
  base
    + match rng.below(5) {
      0 => 0,
      1 => 1 + rng.usize(8),
      2 => 64,
      3 => 8 * (1 + rng.usize(1 << 16)),
      _ => 1 + rng.usize(1 << 24),
    }
}

#[cfg(target_pointer_width = "64")]
fn gen_huge_ops(rng: &mut Rng, len: usize, n: usize) -> Vec<Op> {
  let nbytes = len / 8;
  // byte positions of the entries 2^31 .. 2^36
  let pow_bytes: Vec<usize> = (28..=33).map(|w| 1usize << w).filter(|b| *b < nbytes).collect();
  let mut anchors: Vec<usize> = Vec::new();
  for _ in 0..2 + rng.usize(3) {
    anchors.push(match rng.below(9) {
      0 => 0,
      1 => nbytes - 1,
      2 | 3 if !pow_bytes.is_empty() => *rng.pick(&pow_bytes),
      4 if !pow_bytes.is_empty() => *rng.pick(&pow_bytes) - 1,
      5 => rng.usize(1 << 14),
      _ => rng.usize(nbytes),
    });
  }
  let mut prev: Vec<usize> = Vec::new();
  let mut ops = Vec::with_capacity(n);
  for _ in 0..n {
    let r = rng.below(100);
    let idx = if r < 40 || (r < 75 && prev.is_empty()) {
      *rng.pick(&anchors) * 8 + rng.usize(8)
    } else if r < 75 {
      // an entry whose index is related to an earlier one by a power of two
      let p = *rng.pick(&prev);
      let bit = 1usize << *rng.pick(&ALIAS_WIDTHS);
      let cands: Vec<usize> = [p & (bit - 1), p ^ bit, p.wrapping_add(bit), p.wrapping_sub(bit)].into_iter().filter(|c| *c < len && *c != p).collect();
      if cands.is_empty() {
        p
      } else {
        *rng.pick(&cands)
      }
    } else if r < 85 {
      rng.usize(len)
    } else {
      match rng.below(10) {
        0 => len - 1,
        1 => len,
        2 => len + 1,
        3 => len + 7,
        4 => len + 8,
        5 => usize::MAX,
        6 => len + (1 << 32),
        7 => len + rng.usize(1 << 20),
        8 => len.saturating_mul(8),
        _ => (rng.next_u64() as usize) | (1 << 40),
      }
    };
    if idx < len && prev.len() < 64 {
      prev.push(idx);
    }
    ops.push(match rng.below(10) {
      0 | 1 => Op::Get(idx),
      2..=6 => Op::Set(idx, true),
      _ => Op::Set(idx, false),
    });
  }
  ops
}

// ------------------------------------------------------------------------------------------
// credential level
// ------------------------------------------------------------------------------------------

fn purpose_str(p: StatusPurpose) -> &'static str {
  match p {
    StatusPurpose::Revocation => "revocation",
    StatusPurpose::Suspension => "suspension",
  }
}

#[derive(Clone, Debug)]
struct StatusSpec {
  url: String,
  purpose: StatusPurpose,
  index: usize,
  made_by: &'static str,
}

struct CredWorld {
  lc: StatusList2021Credential,
  model: Model,
  purpose: StatusPurpose,
  /// `id` of the status-list credential (what the validator matches `statusListCredential` against).
  cid: String,
  /// `credentialSubject.id` of the status-list credential (what `set_credential_status` writes).
  sid: String,
  origin: Value,
  hist: Vec<String>,
}

#[derive(Debug)]
#[allow(dead_code)]
enum Verdict {
  Ok,
  Revoked,
  Suspended,
  OtherErr(String),
}

impl Ctx {
  fn list_cred_json(&self, model: &Model, purpose: StatusPurpose, cid: &str, sid: &str, gz: u64) -> Value {
    json!({
      "@context": ["https://www.w3.org/2018/credentials/v1", "https://w3id.org/vc/status-list/2021/v1"],
      "id": cid,
      "type": ["VerifiableCredential", "StatusList2021Credential"],
      "issuer": "did:example:12345",
      "issuanceDate": "2021-04-05T14:27:40Z",
      "credentialSubject": {
        "id": sid, "type": "StatusList2021", "statusPurpose": purpose_str(purpose),
        "encodedList": self.own_encode(&model.bytes, gz),
      }
    })
  }

  fn make_list_cred(&mut self, model: &Model, purpose: StatusPurpose, via_builder: bool, cid: &str, sid: &str, gz: u64, origin: &Value) -> Option<StatusList2021Credential> {
    if via_builder {
      let list = if model.bytes.iter().all(|b| *b == 0) && model.bytes.len() == MIN_ENTRIES / 8 {
        catch(StatusList2021::default).ok()?
      } else {
        self.decode_bytes(&model.bytes, gz, origin)?
      };
      let sid_url = Url::parse(sid).expect("harness url");
      let r = catch(move || {
        StatusList2021CredentialBuilder::new(list)
          .purpose(purpose)
          .subject_id(sid_url.clone())
          .issuer(Issuer::Url(sid_url))
          .build()
      });
      match r {
        Err(p) => {
          self.on_panic("StatusList2021CredentialBuilder::build", false, &p, origin.clone());
          None
        }
        Ok(Err(_)) => {
          self.rep.inc("list_credential_build_rejected");
          None
        }
        Ok(Ok(c)) => Some(c),
      }
    } else {
      let j = self.list_cred_json(model, purpose, cid, sid, gz);
      match catch(|| serde_json::from_value::<StatusList2021Credential>(j)) {
        Err(p) => {
          self.on_panic("StatusList2021Credential::deserialize", false, &p, origin.clone());
          None
        }
        Ok(Err(_)) => {
          self.rep.inc("list_credential_json_rejected");
          None
        }
        Ok(Ok(c)) => Some(c),
      }
    }
  }

  /// The list as an outside party sees it: serialise the credential, take `encodedList`, decode it
  /// with the harness's own decoder.
  fn cred_state(&mut self, w: &CredWorld) -> Option<Vec<u8>> {
    let v = match catch(|| serde_json::to_value(&w.lc)) {
      Err(p) => {
        self.on_panic("StatusList2021Credential::serialize", false, &p, w.origin.clone());
        return None;
      }
      Ok(Err(_)) => {
        self.rep.inc("list_credential_serialize_failed");
        return None;
      }
      Ok(Ok(v)) => v,
    };
    let enc = v.get("credentialSubject")?.get("encodedList")?.as_str()?.to_string();
    match own_decode(&enc) {
      Some(b) => Some(b),
      None => {
        self.rep.violation(
          "encoded-form-undecodable",
          "credentialSubject.encodedList is not base64(gzip(..)) for an independent decoder",
          json!({"origin":w.origin,"encoded_prefix":enc.chars().take(64).collect::<String>()}),
        );
        None
      }
    }
  }

  fn cred_case(&self, w: &CredWorld, call: &str, extra: Value) -> Value {
    let tail: Vec<&String> = w.hist.iter().rev().take(12).rev().collect();
    json!({"origin":w.origin,"purpose":purpose_str(w.purpose),"call":call,"recent_calls":tail,"detail":extra})
  }

  /// Compares the externally visible list with `expected` (any of the alternatives is fine).
  /// `writes` = (index, value, accepted) of the call just made. Returns true if the world must be rebuilt.
  fn cred_compare(&mut self, w: &CredWorld, alternatives: &[&Model], before: &Model, writes: &[(usize, bool, bool)], call: &str) -> bool {
    let Some(actual) = self.cred_state(w) else { return true };
    self.rep.inc("cred_state_checks");
    let exp = alternatives[0];
    if actual.len() != exp.bytes.len() {
      self.rep.violation(
        "credential:length-changed",
        &format!("{}: list has {} bytes afterwards, {} before", call, actual.len(), exp.bytes.len()),
        self.cred_case(w, call, json!(null)),
      );
      return true;
    }
    if alternatives.iter().any(|m| m.bytes == actual) {
      return false;
    }
    let diffs = exp.diff(&actual, 16);
    let targets: Vec<usize> = writes.iter().map(|x| x.0).collect();
    let detail = json!({
      "flipped_entries": diffs,
      "bytes": diffs.iter().map(|d| d / 8).collect::<std::collections::BTreeSet<_>>().iter()
         .map(|k| format!("byte {}: before {:#010b}, expected {:#010b}, actual {:#010b}", k, before.bytes[*k], exp.bytes[*k], actual[*k])).collect::<Vec<_>>(),
    });
    // a revoked target entry that reads false afterwards: the one-way rule itself failed
    if w.purpose == StatusPurpose::Revocation {
      let cleared: Vec<usize> = diffs
        .iter()
        .copied()
        .filter(|d| targets.contains(d) && before.get(*d) && actual[*d / 8] & (0x80u8 >> (*d % 8)) == 0)
        .collect();
      if !cleared.is_empty() {
        self.rep.violation(
          "credential:revoked-entry-cleared",
          &format!("{}: revoked entries {:?} were cleared through a revocation-purpose status-list credential", call, cleared),
          self.cred_case(w, call, detail.clone()),
        );
        return true;
      }
    }
    let others: Vec<usize> = diffs.iter().copied().filter(|d| !targets.contains(d)).collect();
    let any_accepted = writes.iter().any(|x| x.2);
    if !others.is_empty() && any_accepted {
      let wrote_false = writes.iter().any(|x| x.2 && !x.1);
      let lost_revocations: Vec<usize> =
        others.iter().copied().filter(|d| w.purpose == StatusPurpose::Revocation && before.get(*d)).collect();
      self.rep.violation(
        &format!("credential:set-{}-disturbs-other-entries", !wrote_false),
        &format!(
          "{} [{}]: entries {:?} flipped without an accepted write to them{}",
          call,
          purpose_str(w.purpose),
          others,
          if lost_revocations.is_empty() { String::new() } else { format!("; revoked entries {:?} became un-revoked", lost_revocations) }
        ),
        self.cred_case(w, call, detail),
      );
    } else if !any_accepted {
      self.rep.violation(
        "credential:failed-write-changed-state",
        &format!("{}: refused call changed entries {:?}", call, diffs),
        self.cred_case(w, call, detail),
      );
    } else {
      self.rep.violation(
        "credential:state-mismatch",
        &format!("{}: entries {:?} differ from the last values written", call, diffs),
        self.cred_case(w, call, detail),
      );
    }
    true
  }

  fn rebuild_world(&mut self, w: &mut CredWorld) -> bool {
    self.rep.inc("resyncs");
    let (model, purpose, cid, sid, origin) = (w.model.clone(), w.purpose, w.cid.clone(), w.sid.clone(), w.origin.clone());
    // JSON route keeps cid/sid exactly
    match self.make_list_cred(&model, purpose, false, &cid, &sid, 0, &origin) {
      Some(lc) => {
        w.lc = lc;
        true
      }
      None => false,
    }
  }

  /// `entry(i)` against the model.
  fn cred_entry(&mut self, w: &CredWorld, i: usize) {
    let call = format!("entry({})", i);
    self.rep.inc("cred_entry_calls");
    let inr = i < w.model.len();
    if !inr {
      self.rep.inc("oob_probes");
    }
    match catch(|| w.lc.entry(i)) {
      Err(p) => self.on_panic("StatusList2021Credential::entry", !inr, &p, self.cred_case(w, &call, json!({"len":w.model.len()}))),
      Ok(Ok(st)) => {
        if !inr {
          self.rep.violation(
            "credential:out-of-range-accepted",
            &format!("{} = Ok({:?}) on a list of {} entries", call, st, w.model.len()),
            self.cred_case(w, &call, json!(null)),
          );
          return;
        }
        let want = match (w.purpose, w.model.get(i)) {
          (StatusPurpose::Revocation, true) => CredentialStatus::Revoked,
          (StatusPurpose::Suspension, true) => CredentialStatus::Suspended,
          _ => CredentialStatus::Valid,
        };
        if st != want {
          self.rep.violation(
            "credential:entry-wrong-status",
            &format!("{} = {:?}, expected {:?} ({} list, entry {})", call, st, want, purpose_str(w.purpose), w.model.get(i)),
            self.cred_case(w, &call, json!(null)),
          );
        } else {
          self.rep.inc("cred_entry_ok");
        }
      }
      Ok(Err(_)) => {
        if inr {
          self.rep.violation(
            "credential:in-range-rejected",
            &format!("{} = Err on a list of {} entries", call, w.model.len()),
            self.cred_case(w, &call, json!(null)),
          );
        } else {
          self.rep.inc("oob_rejected");
        }
      }
    }
  }

  /// Judges one write result at credential level; returns (accepted, model must change).
  fn judge_cred_write(&mut self, w: &CredWorld, cur: &Model, i: usize, v: bool, ok: bool, err: &str, call: &str) -> bool {
    let inr = i < cur.len();
    if !inr {
      self.rep.inc("oob_probes");
      if ok {
        self.rep.violation(
          "credential:out-of-range-accepted",
          &format!("{}: write ({},{}) = Ok on a list of {} entries", call, i, v, cur.len()),
          self.cred_case(w, call, json!(null)),
        );
      } else {
        self.rep.inc("oob_rejected");
      }
      return false;
    }
    let unrevoke = w.purpose == StatusPurpose::Revocation && !v && cur.get(i);
    if unrevoke {
      self.rep.inc("cred_unrevoke_attempts");
      if ok {
        // Latitude: the statement only says the entry cannot be cleared; the state comparison decides.
        self.rep.inc("cred_unrevoke_returned_ok");
      } else {
        self.rep.inc("cred_unrevoke_refused");
      }
      return false;
    }
    if !ok {
      let sig = if w.purpose == StatusPurpose::Suspension && !v && cur.get(i) {
        "credential:suspension-clear-refused"
      } else {
        "credential:permitted-write-refused"
      };
      self.rep.violation(
        sig,
        &format!("{}: write ({},{}) on a {} list (entry was {}) = Err({})", call, i, v, purpose_str(w.purpose), cur.get(i), err),
        self.cred_case(w, call, json!(null)),
      );
      return false;
    }
    if w.purpose == StatusPurpose::Suspension && !v && cur.get(i) {
      self.rep.inc("cred_unsuspend_ok");
    }
    self.rep.inc("cred_writes_ok");
    true
  }

  /// set_credential_status(cred, i, v). Returns false if the world is unusable.
  fn cred_set_status(&mut self, w: &mut CredWorld, cred: &mut Credential, i: usize, v: bool) -> Option<Option<StatusSpec>> {
    let call = format!("set_credential_status(_, {}, {})", i, v);
    w.hist.push(call.clone());
    let before = w.model.clone();
    let r = {
      let lc = &mut w.lc;
      catch(|| lc.set_credential_status(cred, i, v))
    };
    let mut spec = None;
    let (ok, err) = match &r {
      Err(p) => {
        let p = p.clone();
        self.on_panic("set_credential_status", i >= before.len(), &p, self.cred_case(w, &call, json!({"len":before.len()})));
        return if self.rebuild_world(w) { Some(None) } else { None };
      }
      Ok(Ok(_)) => (true, String::new()),
      Ok(Err(e)) => (false, e.to_string()),
    };
    let accepted = self.judge_cred_write(w, &before, i, v, ok, &err, &call);
    if accepted {
      w.model.set(i, v);
    }
    if let Ok(Ok(entry)) = &r {
      // the returned entry and the credential's credentialStatus describe this list and index
      let good = entry.index() == i
        && entry.purpose() == w.purpose
        && entry.status_list_credential().as_str() == w.sid
        && cred.credential_status.as_ref().and_then(|s| StatusList2021Entry::try_from(s).ok()).as_ref() == Some(entry);
      if !good {
        self.rep.violation(
          "credential:returned-entry-wrong",
          &format!("{}: returned entry / credentialStatus does not name this list, purpose and index", call),
          self.cred_case(w, &call, json!({"entry": serde_json::to_value(entry).ok()})),
        );
      }
      spec = Some(StatusSpec { url: w.sid.clone(), purpose: w.purpose, index: i, made_by: "set_credential_status" });
    }
    let model_now = w.model.clone();
    if self.cred_compare(w, &[&model_now], &before, &[(i, v, accepted)], &call) && !self.rebuild_world(w) {
      return None;
    }
    Some(spec)
  }

  /// update(|m| m.set_entry(..)...). `propagate`: the closure stops at the first error and returns it.
  fn cred_update(&mut self, w: &mut CredWorld, writes: &[(usize, bool)], propagate: bool) -> bool {
    let call = format!(
      "update(|m| {{ {} }})",
      writes.iter().map(|(i, v)| format!("m.set_entry({},{}){}", i, v, if propagate { "?" } else { "" })).collect::<Vec<_>>().join("; ")
    );
    w.hist.push(call.clone());
    let before = w.model.clone();
    let mut inner: Vec<Result<(), StatusList2021CredentialError>> = Vec::new();
    let r = {
      let lc = &mut w.lc;
      let inner = &mut inner;
      catch(move || {
        lc.update(|m| {
          for (i, v) in writes {
            let r = m.set_entry(*i, *v);
            inner.push(r.clone());
            if propagate {
              r?;
            }
          }
          Ok(())
        })
      })
    };
    let res = match r {
      Err(p) => {
        let oob = writes.get(inner.len()).map(|(i, _)| *i >= before.len()).unwrap_or(false);
        self.on_panic("StatusList2021Credential::update", oob, &p, self.cred_case(w, &call, json!({"len":before.len(),"writes_completed":inner.len()})));
        return self.rebuild_world(w);
      }
      Ok(r) => r,
    };
    self.rep.inc("cred_update_calls");
    let mut cur = before.clone();
    let mut judged: Vec<(usize, bool, bool)> = Vec::new();
    let mut any_err = false;
    for (k, r) in inner.iter().enumerate() {
      let (i, v) = writes[k];
      let (ok, err) = match r {
        Ok(()) => (true, String::new()),
        Err(e) => (false, e.to_string()),
      };
      any_err |= !ok;
      let acc = self.judge_cred_write(w, &cur, i, v, ok, &err, &call);
      if acc {
        cur.set(i, v);
      }
      judged.push((i, v, acc));
    }
    let changed = match (&res, propagate && any_err) {
      (Ok(()), false) => {
        w.model = cur.clone();
        self.cred_compare(w, &[&cur], &before, &judged, &call)
      }
      (Err(_), true) => {
        // Latitude: an aborted update may keep nothing or the writes made before the refusal.
        let keep_prefix = cur.clone();
        let Some(actual) = self.cred_state(w) else { return self.rebuild_world(w) };
        if actual == keep_prefix.bytes {
          w.model = keep_prefix;
          false
        } else {
          let none: Vec<(usize, bool, bool)> = judged.iter().map(|x| (x.0, x.1, false)).collect();
          self.cred_compare(w, &[&before], &before, &none, &call)
        }
      }
      (Ok(()), true) => {
        // the closure returned the error but update reported success: accept either state, count it
        self.rep.inc("cred_update_swallowed_error");
        w.model = cur.clone();
        self.cred_compare(w, &[&cur, &before], &before, &judged, &call)
      }
      (Err(e), false) => {
        self.rep.violation(
          "credential:update-failed-without-refusal",
          &format!("{} = Err({}) although the closure returned Ok", call, e),
          self.cred_case(w, &call, json!(null)),
        );
        true
      }
    };
    if changed {
      return self.rebuild_world(w);
    }
    true
  }

  fn status_json(spec: &StatusSpec, numeric_index: bool) -> Value {
    let idx = if numeric_index { json!(spec.index) } else { json!(spec.index.to_string()) };
    json!({
      "id": format!("{}#{}", spec.url.split('#').next().unwrap_or(""), spec.index),
      "type": "StatusList2021Entry",
      "statusPurpose": purpose_str(spec.purpose),
      "statusListIndex": idx,
      "statusListCredential": spec.url,
    })
  }

  fn check_status(&mut self, w: &CredWorld, cred: &Credential, spec: Option<&StatusSpec>, mode: StatusCheck) {
    let mode_s = format!("{:?}", mode);
    let call = format!(
      "check_status_with_status_list_2021(cred[{}], list, {})",
      spec.map(|s| format!("statusListCredential={} purpose={} index={} via {}", s.url, purpose_str(s.purpose), s.index, s.made_by)).unwrap_or_else(|| "no credentialStatus".into()),
      mode_s
    );
    self.rep.inc("status_checks");
    let oob = spec.map(|s| s.index >= w.model.len()).unwrap_or(false);
    let verdict = match catch(|| JwtCredentialValidatorUtils::check_status_with_status_list_2021(cred, &w.lc, mode)) {
      Err(p) => {
        self.on_panic("check_status_with_status_list_2021", oob, &p, self.cred_case(w, &call, json!({"len":w.model.len()})));
        return;
      }
      Ok(Ok(())) => Verdict::Ok,
      Ok(Err(JwtValidationError::Revoked)) => Verdict::Revoked,
      Ok(Err(JwtValidationError::Suspended)) => Verdict::Suspended,
      Ok(Err(e)) => Verdict::OtherErr(e.to_string()),
    };
    let bad = |cx: &mut Ctx, sig: &str, why: &str| {
      cx.rep.violation(sig, &format!("{} = {:?}: {}", call, verdict, why), cx.cred_case(w, &call, json!({"verdict":format!("{:?}", verdict)})));
    };
    if matches!(mode, StatusCheck::SkipAll) {
      self.rep.inc("status_skipall");
      if !matches!(verdict, Verdict::Ok) {
        bad(self, "status:skipall-not-skipped", "SkipAll must not evaluate the status");
      }
      return;
    }
    let Some(s) = spec else {
      self.rep.inc("status_absent");
      if !matches!(verdict, Verdict::Ok) {
        bad(self, "status:no-status-rejected", "a credential without credentialStatus has no entry to be set");
      }
      return;
    };
    let purpose_ok = s.purpose == w.purpose;
    let exact = s.url == w.cid;
    let ambiguous = !exact && (s.url == w.sid || s.url.split('#').next() == w.cid.split('#').next());
    if !purpose_ok || (!exact && !ambiguous) {
      // a list of another purpose / another list: never revoked or suspended by it
      self.rep.inc("status_mismatch");
      match verdict {
        Verdict::Revoked | Verdict::Suspended => bad(self, "status:reported-on-mismatch", "the list does not match the credential's status entry"),
        Verdict::Ok => self.rep.inc("status_mismatch_passed"),
        Verdict::OtherErr(_) => self.rep.inc("status_mismatch_error"),
      }
      return;
    }
    if oob {
      self.rep.inc("status_oob");
      self.rep.inc("oob_probes");
      match verdict {
        Verdict::Ok if exact => bad(self, "status:out-of-range-accepted", "statusListIndex is outside the list"),
        Verdict::Revoked | Verdict::Suspended => bad(self, "status:out-of-range-reported", "statusListIndex is outside the list; no entry is set"),
        _ => self.rep.inc("oob_rejected"),
      }
      return;
    }
    let set = w.model.get(s.index);
    let want_kind = match w.purpose {
      StatusPurpose::Revocation => "Revoked",
      StatusPurpose::Suspension => "Suspended",
    };
    if ambiguous {
      // The entry names the list by credentialSubject.id (what set_credential_status writes) while the
      // validator matches on the credential id. Either reading is accepted; only a wrong polarity is not.
      self.rep.inc("status_ambiguous_id");
      match (&verdict, set) {
        (Verdict::OtherErr(_), _) => {
          self.rep.inc("status_ambiguous_id_invalidstatus");
          if s.made_by == "set_credential_status" {
            self.rep.inc("status_own_entry_not_matched");
            if self.strict_own_entry {
              bad(self, "status:own-entry-not-matched", "the entry was written by set_credential_status of this very list credential");
            }
          }
        }
        (Verdict::Ok, false) => {}
        (Verdict::Revoked, true) if want_kind == "Revoked" => {}
        (Verdict::Suspended, true) if want_kind == "Suspended" => {}
        _ => bad(self, "status:wrong-verdict", &format!("entry is {} in a {} list", set, purpose_str(w.purpose))),
      }
      return;
    }
    self.rep.inc("status_matching");
    match (&verdict, set) {
      (Verdict::Ok, false) => self.rep.inc("status_valid"),
      (Verdict::Revoked, true) if want_kind == "Revoked" => self.rep.inc("status_revoked"),
      (Verdict::Suspended, true) if want_kind == "Suspended" => self.rep.inc("status_suspended"),
      (Verdict::Ok, true) => bad(self, "status:set-entry-not-reported", &format!("entry {} is set in the matching {} list", s.index, purpose_str(w.purpose))),
      (Verdict::Revoked, false) | (Verdict::Suspended, false) => bad(self, "status:unset-entry-reported", &format!("entry {} is not set", s.index)),
      (Verdict::Revoked, true) | (Verdict::Suspended, true) => bad(self, "status:wrong-kind", &format!("a set entry of a {} list must be reported as {}", purpose_str(w.purpose), want_kind)),
      (Verdict::OtherErr(_), _) => bad(self, "status:matching-entry-errored", "list id, purpose and index all match and are in range"),
    }
  }

  /// Smallest credential-level histories, run first so that the first witness per signature is minimal.
  fn canon_cred(&mut self, template: &Credential) {
    for purpose in [StatusPurpose::Revocation, StatusPurpose::Suspension] {
      self.rep.eval();
      let model = Model { bytes: vec![0; MIN_ENTRIES / 8] };
      let cid = "https://example.com/status/1".to_string();
      let origin = json!({"list_credential":"StatusList2021CredentialBuilder::new(StatusList2021::default())","id":cid,
        "credentialSubject.id":cid,"purpose":purpose_str(purpose)});
      let Some(lc) = self.make_list_cred(&model, purpose, true, &cid, &cid, 0, &origin) else { continue };
      self.rep.inc("list_credentials");
      let mut w = CredWorld { lc, model, purpose, cid: cid.clone(), sid: cid.clone(), origin, hist: Vec::new() };
      let len = w.model.len();
      let mut c0 = template.clone();
      let Some(s0) = self.cred_set_status(&mut w, &mut c0, 0, true) else { continue };
      // clearing an entry that is not set is allowed for both purposes and must not touch entry 0
      let mut c1 = template.clone();
      if self.cred_set_status(&mut w, &mut c1, 1, false).is_none() {
        continue;
      }
      self.cred_entry(&w, 0);
      self.check_status(&w, &c0, s0.as_ref(), StatusCheck::Strict);
      // one-way rule on entry 0
      let mut c2 = template.clone();
      if self.cred_set_status(&mut w, &mut c2, 0, false).is_none() {
        continue;
      }
      self.cred_entry(&w, 0);
      self.check_status(&w, &c0, s0.as_ref(), StatusCheck::Strict);
      // a statusListIndex from outside that lies beyond the list
      let spec = StatusSpec { url: cid.clone(), purpose, index: len, made_by: "harness(index out of range)" };
      if let Ok(Ok(st)) = catch(|| serde_json::from_value::<Status>(Ctx::status_json(&spec, false))) {
        let mut c3 = template.clone();
        c3.credential_status = Some(st);
        self.check_status(&w, &c3, Some(&spec), StatusCheck::Strict);
      }
      self.cred_entry(&w, len);
      let mut c4 = template.clone();
      let _ = self.cred_set_status(&mut w, &mut c4, len, true);
      self.rep.distinct("nontrivial", &format!("canon-cred|{}", purpose_str(purpose)));
    }
  }

  fn run_cred_scenario(&mut self, rng: &mut Rng, nops: usize, big: bool, template: &Credential) {
    self.rep.eval();
    let purpose = if rng.bool() { StatusPurpose::Revocation } else { StatusPurpose::Suspension };
    let via_builder = rng.chance(1, 2);
    // id layout: 0 = cid == sid (what the builder produces); 1 = sid carries a fragment; 2 = unrelated ids (W3C example shape)
    let layout = if via_builder { if rng.chance(1, 5) { 1 } else { 0 } } else { *rng.pick(&[0u8, 0, 1, 2]) };
    let n = rng.below(1000);
    let (cid, sid) = match layout {
      0 => (format!("https://example.com/status/{}", n), format!("https://example.com/status/{}", n)),
      1 => (format!("https://example.com/status/{}", n), format!("https://example.com/status/{}#list", n)),
      _ => (format!("https://example.com/credentials/status/{}", n), format!("https://example.com/status/{}#list", n)),
    };
    let nbytes = if big { 131_072 } else { *rng.pick(&[16_384usize, 16_384, 16_384, 16_385, 20_000]) };
    let pattern = *rng.pick(&[0u64, 0, 1, 1, 2, 3, 5, 6]);
    let gz = rng.below(5);
    let pseed = rng.next_u64();
    let model = Model { bytes: pattern_bytes(pattern, nbytes, pseed) };
    let origin = json!({
      "list_credential": if via_builder { "StatusList2021CredentialBuilder" } else { "deserialised from JSON" },
      "id": cid, "credentialSubject.id": sid, "purpose": purpose_str(purpose),
      "nbytes": nbytes, "pattern": PATTERN_NAMES[pattern as usize], "pattern_seed": pseed, "gzip": GZ_NAMES[gz as usize],
    });
    let Some(lc) = self.make_list_cred(&model, purpose, via_builder, &cid, &sid, gz, &origin) else { return };
    self.rep.inc("list_credentials");
    let mut w = CredWorld { lc, model, purpose, cid, sid, origin, hist: Vec::new() };
    // the credential exposes exactly the list it was made from
    let m0 = w.model.clone();
    if self.cred_compare(&w, &[&m0], &m0, &[], "construction") {
      return;
    }
    let len = w.model.len();
    let nb = len / 8;
    let hot: Vec<usize> = (0..3).map(|k| match (k, rng.below(4)) {
      (0, 0) => 0,
      (1, 0) => nb - 1,
      _ => rng.usize(nb),
    }).collect();
    let mut pool: Vec<(Credential, Option<StatusSpec>)> = vec![(template.clone(), None)];
    let mut ops_done = 0u32;
    let pick_idx = |rng: &mut Rng| -> usize {
      let r = rng.below(100);
      if r < 75 {
        *rng.pick(&hot) * 8 + rng.usize(8)
      } else if r < 88 {
        rng.usize(len)
      } else {
        *rng.pick(&[len - 1, len, len + 1, len + 7, len + 8, usize::MAX, len * 2, usize::MAX - 7])
      }
    };
    for _ in 0..nops {
      ops_done += 1;
      match rng.below(100) {
        0..=34 => {
          let (i, v) = (pick_idx(rng), rng.chance(11, 20));
          let mut cred = template.clone();
          match self.cred_set_status(&mut w, &mut cred, i, v) {
            None => return,
            Some(Some(spec)) => {
              if pool.len() < 24 {
                pool.push((cred, Some(spec)));
              }
            }
            Some(None) => {}
          }
          if i < len {
            self.cred_entry(&w, i);
          }
        }
        35..=54 => {
          let k = 1 + rng.usize(3);
          let mut writes: Vec<(usize, bool)> = (0..k).map(|_| (pick_idx(rng), rng.chance(1, 2))).collect();
          // Keep root causes apart: inside one call no two writes go to different entries of the same byte
          // (a write that disturbed its neighbours would otherwise be indistinguishable from a wrong result for
          // the neighbour's own write). Same-byte interplay is exercised across calls and at list level;
          // repeated writes to the same entry (set then clear inside one update) stay.
          let mut kept: Vec<(usize, bool)> = Vec::new();
          for (i, v) in writes.drain(..) {
            if !kept.iter().any(|(j, _)| *j != i && *j / 8 == i / 8) {
              kept.push((i, v));
            }
          }
          let writes = kept;
          if !self.cred_update(&mut w, &writes, rng.chance(2, 3)) {
            return;
          }
        }
        55..=64 => {
          let i = pick_idx(rng);
          self.cred_entry(&w, i);
        }
        65..=72 => {
          // harness-made status entries: exact, wrong purpose, wrong list, out of range
          let kind = rng.below(8);
          let other_purpose = if purpose == StatusPurpose::Revocation { StatusPurpose::Suspension } else { StatusPurpose::Revocation };
          let idx = if kind == 3 { *rng.pick(&[len, len + 1, len + 8, usize::MAX, len * 3]) } else { *rng.pick(&hot) * 8 + rng.usize(8) };
          let spec = match kind {
            1 => StatusSpec { url: w.cid.clone(), purpose: other_purpose, index: idx, made_by: "harness(other purpose)" },
            2 => StatusSpec { url: format!("{}/other", w.cid), purpose, index: idx, made_by: "harness(other list)" },
            3 => StatusSpec { url: w.cid.clone(), purpose, index: idx, made_by: "harness(index out of range)" },
            4 => StatusSpec { url: w.sid.clone(), purpose, index: idx, made_by: "harness(names credentialSubject.id)" },
            _ => StatusSpec { url: w.cid.clone(), purpose, index: idx, made_by: "harness" },
          };
          let sj = Ctx::status_json(&spec, rng.chance(1, 3));
          match catch(|| serde_json::from_value::<Status>(sj)) {
            Ok(Ok(st)) => {
              let mut c = template.clone();
              c.credential_status = Some(st);
              if pool.len() < 24 {
                pool.push((c, Some(spec)));
              } else {
                let k = 1 + rng.usize(pool.len() - 1);
                pool[k] = (c, Some(spec));
              }
            }
            Ok(Err(_)) => self.rep.inc("status_json_rejected"),
            Err(p) => self.on_panic("Status::deserialize", false, &p, json!({"spec":format!("{:?}", spec)})),
          }
        }
        73..=94 => {
          let k = rng.usize(pool.len());
          let mode = *rng.pick(&[StatusCheck::Strict, StatusCheck::Strict, StatusCheck::SkipUnsupported, StatusCheck::SkipUnsupported, StatusCheck::SkipAll]);
          let (c, s) = (&pool[k].0, pool[k].1.as_ref());
          self.check_status(&w, c, s, mode);
        }
        _ => {
          // publish / fetch: JSON round trip of the status-list credential keeps the list
          w.hist.push("to_json/from_json".into());
          let r = catch(|| serde_json::to_string(&w.lc).ok().and_then(|s| serde_json::from_str::<StatusList2021Credential>(&s).ok()));
          match r {
            Err(p) => self.on_panic("StatusList2021Credential::json", false, &p, w.origin.clone()),
            Ok(None) => self.rep.violation("credential:json-roundtrip-failed", "the status-list credential does not survive its own JSON form", self.cred_case(&w, "to_json/from_json", json!(null))),
            Ok(Some(back)) => {
              self.rep.inc("cred_json_roundtrips");
              w.lc = back;
              let m = w.model.clone();
              if self.cred_compare(&w, &[&m], &m, &[], "to_json/from_json") && !self.rebuild_world(&mut w) {
                return;
              }
            }
          }
        }
      }
    }
    // closing: every pooled credential under Strict, and a few entries read back
    for k in 0..pool.len() {
      let (c, s) = (&pool[k].0, pool[k].1.as_ref());
      self.check_status(&w, c, s, StatusCheck::Strict);
    }
    self.rep.distinct(
      "nontrivial",
      &format!("cred|{}|{}|{}|{}|{}|{}", purpose_str(purpose), via_builder, layout, size_class(nbytes), pattern, (ops_done / 10).min(9)),
    );
    if self.rep.want_sample() {
      let tail: Vec<&String> = w.hist.iter().take(4).collect();
      self.rep.sample(json!({"kind":"credential scenario","origin":w.origin,"first_calls":tail,"calls":w.hist.len()}));
    }
  }

  // ----------------------------------------------------------------------------------------
  // several status lists with near-miss identifiers: a status is only ever answered from the referenced list
  // ----------------------------------------------------------------------------------------

  /// `cred` (status entry `spec`) has its entry in `owner`; it is checked against `other`, a different list that
  /// neither by its `id` nor by its `credentialSubject.id` is the one named in `statusListCredential`.
  /// The statement ties the reported status to the credential's own entry: refusing is always fine (any error),
  /// but a verdict that contradicts the owner's bit is a status taken from the wrong list.
  fn check_foreign(&mut self, owner: &CredWorld, other: &CredWorld, cred: &Credential, spec: &StatusSpec, mode: StatusCheck, kind: &str) {
    if spec.index >= owner.model.len() || spec.index >= other.model.len() {
      return;
    }
    let truth = owner.model.get(spec.index);
    let other_bit = other.model.get(spec.index);
    let call = format!(
      "check_status_with_status_list_2021(cred[statusListCredential={} purpose={} index={} via {}], OTHER list id={} credentialSubject.id={} purpose={}, {:?})",
      spec.url, purpose_str(spec.purpose), spec.index, spec.made_by, other.cid, other.sid, purpose_str(other.purpose), mode
    );
    self.rep.inc("foreign_checks");
    if other.purpose == owner.purpose && other_bit != truth {
      self.rep.inc("foreign_checks_bits_differ");
    }
    let verdict = match catch(|| JwtCredentialValidatorUtils::check_status_with_status_list_2021(cred, &other.lc, mode)) {
      Err(p) => {
        self.on_panic("check_status_with_status_list_2021", false, &p, self.cred_case(other, &call, json!({"len":other.model.len()})));
        return;
      }
      Ok(Ok(())) => Verdict::Ok,
      Ok(Err(JwtValidationError::Revoked)) => Verdict::Revoked,
      Ok(Err(JwtValidationError::Suspended)) => Verdict::Suspended,
      Ok(Err(e)) => Verdict::OtherErr(e.to_string()),
    };
    let case = json!({
      "near_miss_kind": kind,
      "credential_status": {"statusListCredential": spec.url, "statusPurpose": purpose_str(spec.purpose), "statusListIndex": spec.index, "made_by": spec.made_by},
      "own_list": {"id": owner.cid, "credentialSubject.id": owner.sid, "purpose": purpose_str(owner.purpose), "entry_at_index": truth, "origin": owner.origin,
                   "recent_calls": owner.hist.iter().rev().take(6).rev().collect::<Vec<_>>()},
      "checked_against": {"id": other.cid, "credentialSubject.id": other.sid, "purpose": purpose_str(other.purpose), "entry_at_index": other_bit, "origin": other.origin,
                   "recent_calls": other.hist.iter().rev().take(6).rev().collect::<Vec<_>>()},
      "mode": format!("{:?}", mode), "verdict": format!("{:?}", verdict),
    });
    let own_kind_revoked = owner.purpose == StatusPurpose::Revocation;
    match (&verdict, truth) {
      (Verdict::OtherErr(_), _) => self.rep.inc("foreign_refused"),
      (Verdict::Ok, false) => self.rep.inc("foreign_consistent_with_own_list"),
      (Verdict::Ok, true) => self.rep.violation(
        "status:set-entry-passed-by-other-list",
        &format!("{} = Ok(()): the credential's entry {} is set in its own {} list {}; the list given is a different one (entry there: {})", call, spec.index, purpose_str(owner.purpose), spec.url, other_bit),
        case,
      ),
      (Verdict::Revoked, false) | (Verdict::Suspended, false) => self.rep.violation(
        "status:reported-from-other-list",
        &format!("{} = {:?}: the credential's entry {} is not set in its own list {}; the verdict comes from a different list (entry there: {})", call, verdict, spec.index, spec.url, other_bit),
        case,
      ),
      (Verdict::Revoked, true) if own_kind_revoked => self.rep.inc("foreign_consistent_with_own_list"),
      (Verdict::Suspended, true) if !own_kind_revoked => self.rep.inc("foreign_consistent_with_own_list"),
      (Verdict::Revoked, true) | (Verdict::Suspended, true) => self.rep.violation(
        "status:wrong-kind-from-other-list",
        &format!("{} = {:?}: the credential's entry is set in a {} list; the kind reported is that of a different list", call, verdict, purpose_str(owner.purpose)),
        case,
      ),
    }
  }

  /// Builds one world and makes sure the identifiers the oracle reasons with are the ones the credential carries
  /// (a set-up guard, not an oracle: on a difference the scenario is skipped and counted).
  fn foreign_world(&mut self, model: Model, purpose: StatusPurpose, via_builder: bool, cid: &str, sid: &str, gz: u64, origin: Value) -> Option<CredWorld> {
    let lc = self.make_list_cred(&model, purpose, via_builder, cid, sid, gz, &origin)?;
    let ids = catch(|| serde_json::to_value(&lc)).ok().and_then(|r| r.ok()).map(|v| {
      (v.get("id").and_then(|x| x.as_str()).map(str::to_string), v.get("credentialSubject").and_then(|s| s.get("id")).and_then(|x| x.as_str()).map(str::to_string))
    });
    if ids != Some((Some(cid.to_string()), Some(sid.to_string()))) {
      self.rep.inc("foreign_setup_ids_differ");
      return None;
    }
    self.rep.inc("list_credentials");
    let w = CredWorld { lc, model, purpose, cid: cid.to_string(), sid: sid.to_string(), origin, hist: Vec::new() };
    let m0 = w.model.clone();
    if self.cred_compare(&w, &[&m0], &m0, &[], "construction") {
      return None;
    }
    Some(w)
  }

  /// Every pooled credential against every list: its own list through the ordinary oracle, every other list
  /// through `check_foreign` unless that list shares the identifier named by the entry (then the entry is
  /// genuinely ambiguous and nothing is claimed).
  fn foreign_closing(&mut self, worlds: &[CredWorld], pool: &[(Credential, StatusSpec, usize)], modes: &[StatusCheck], kind: &str) {
    for (cred, spec, owner) in pool {
      for (j, wj) in worlds.iter().enumerate() {
        for mode in modes {
          if j == *owner {
            // only when no other list shares that identifier either
            if worlds.iter().enumerate().any(|(k, wk)| k != j && (wk.cid == spec.url || wk.sid == spec.url)) {
              self.rep.inc("foreign_skipped_shared_id");
              continue;
            }
            self.check_status(wj, cred, Some(spec), *mode);
          } else if wj.cid == spec.url || wj.sid == spec.url {
            self.rep.inc("foreign_skipped_shared_id");
          } else {
            self.check_foreign(&worlds[*owner], wj, cred, spec, *mode, kind);
          }
        }
      }
    }
  }

  /// The smallest two-list history: two lists published in one document, told apart by the fragment of their
  /// credentialSubject.id only (the builder gives both the same credential id).
  fn canon_foreign(&mut self, template: &Credential) {
    for purpose in [StatusPurpose::Revocation, StatusPurpose::Suspension] {
      for (kind, ida, idb) in [
        ("fragment", "https://example.com/status#list-a", "https://example.com/status#list-b"),
        ("query", "https://example.com/status?list=a", "https://example.com/status?list=b"),
        ("prefix", "https://example.com/status/1", "https://example.com/status/10"),
      ] {
        self.rep.eval();
        let mut worlds: Vec<CredWorld> = Vec::new();
        for sid in [ida, idb] {
          let cid = sid.split('#').next().unwrap_or("").to_string();
          let origin = json!({"list_credential":"StatusList2021CredentialBuilder::new(StatusList2021::default())","id":cid,"credentialSubject.id":sid,"purpose":purpose_str(purpose)});
          if let Some(w) = self.foreign_world(Model { bytes: vec![0; MIN_ENTRIES / 8] }, purpose, true, &cid, sid, 0, origin) {
            worlds.push(w);
          }
        }
        if worlds.len() != 2 {
          continue;
        }
        let mut pool: Vec<(Credential, StatusSpec, usize)> = Vec::new();
        // alice: set in A[7]; bob: clear in A[8]; carol: set in B[8]
        for (owner, i, v) in [(0usize, 7usize, true), (0, 8, false), (1, 8, true)] {
          let mut c = template.clone();
          match self.cred_set_status(&mut worlds[owner], &mut c, i, v) {
            None => return,
            Some(Some(spec)) => pool.push((c, spec, owner)),
            Some(None) => {}
          }
        }
        self.foreign_closing(&worlds, &pool, &[StatusCheck::Strict], kind);
        self.rep.distinct("nontrivial", &format!("canon-foreign|{}|{}", purpose_str(purpose), kind));
      }
    }
  }

  fn run_foreign_scenario(&mut self, rng: &mut Rng, nops: usize, template: &Credential) {
    self.rep.eval();
    let kind = rng.usize(NEAR_MISS_KINDS.len());
    let kind_s = NEAR_MISS_KINDS[kind];
    let n = rng.below(1000);
    let mut variants = near_miss_urls(kind, n);
    rng.shuffle(&mut variants);
    let nworlds = if rng.chance(1, 3) { 3 } else { 2 }.min(variants.len());
    variants.truncate(nworlds);
    // id layout: 0 = builder (credentialSubject.id = variant, id = variant without fragment); 1 = JSON, id = credentialSubject.id = variant;
    // 2 = JSON, ids are the near-miss variants, subject ids unrelated; 3 = JSON, subject ids are the variants, ids unrelated
    let layout = *rng.pick(&[0u8, 0, 0, 0, 1, 1, 2, 3, 3]);
    let main_purpose = if rng.bool() { StatusPurpose::Revocation } else { StatusPurpose::Suspension };
    let pattern = *rng.pick(&[0u64, 0, 1, 2, 3, 6]);
    let pseed = rng.next_u64();
    let base_bytes = pattern_bytes(pattern, 16_384, pseed);
    let mut worlds: Vec<CredWorld> = Vec::new();
    for (k, v) in variants.iter().enumerate() {
      let (cid, sid) = match layout {
        0 => (v.split('#').next().unwrap_or("").to_string(), v.clone()),
        1 => (v.clone(), v.clone()),
        2 => (v.clone(), format!("https://example.com/subjects/{}/{}#list", n, k)),
        _ => (format!("https://example.com/credentials/status/{}/{}", n, k), v.clone()),
      };
      let purpose = if k == 0 || rng.chance(4, 5) {
        main_purpose
      } else if main_purpose == StatusPurpose::Revocation {
        StatusPurpose::Suspension
      } else {
        StatusPurpose::Revocation
      };
      let nbytes = *rng.pick(&[16_384usize, 16_384, 16_385, 20_000]);
      // list k>0: the complement of list 0 (every entry differs), or an unrelated pattern
      let complement = k > 0 && rng.chance(2, 3);
      let mut bytes = if k == 0 || complement { base_bytes.clone() } else { pattern_bytes(*rng.pick(&[0u64, 1, 2, 6]), 16_384, rng.next_u64()) };
      if complement {
        bytes.iter_mut().for_each(|b| *b = !*b);
      }
      bytes.resize(nbytes, 0x5A);
      let gz = rng.below(5);
      let origin = json!({
        "list_credential": if layout == 0 { "StatusList2021CredentialBuilder" } else { "deserialised from JSON" },
        "id": cid, "credentialSubject.id": sid, "purpose": purpose_str(purpose), "nbytes": nbytes,
        "pattern": if complement { format!("complement of list 0 ({})", PATTERN_NAMES[pattern as usize]) } else if k == 0 { PATTERN_NAMES[pattern as usize].to_string() } else { "unrelated".to_string() },
        "pattern_seed": pseed, "gzip": GZ_NAMES[gz as usize],
      });
      match self.foreign_world(Model { bytes }, purpose, layout == 0, &cid, &sid, gz, origin) {
        Some(w) => worlds.push(w),
        None => return,
      }
    }
    let min_len = 16_384 * 8;
    let hot: Vec<usize> = (0..4).map(|k| match (k, rng.below(3)) {
      (0, 0) => 0,
      (1, 0) => min_len - 1,
      _ => rng.usize(min_len),
    }).collect();
    let mut pool: Vec<(Credential, StatusSpec, usize)> = Vec::new();
    for _ in 0..nops {
      let a = rng.usize(worlds.len());
      let i = *rng.pick(&hot);
      match rng.below(10) {
        0..=5 => {
          // the issuer of list a gives a credential entry i; another list sometimes gets the opposite value at the same index
          let v = rng.bool();
          let mut c = template.clone();
          match self.cred_set_status(&mut worlds[a], &mut c, i, v) {
            None => return,
            Some(Some(spec)) => pool.push((c, spec, a)),
            Some(None) => {}
          }
          if rng.chance(1, 2) {
            let b = (a + 1 + rng.usize(worlds.len() - 1)) % worlds.len();
            let want = !worlds[a].model.get(i);
            if rng.bool() {
              let mut c2 = template.clone();
              match self.cred_set_status(&mut worlds[b], &mut c2, i, want) {
                None => return,
                Some(Some(spec)) => pool.push((c2, spec, b)),
                Some(None) => {}
              }
            } else if !self.cred_update(&mut worlds[b], &[(i, want)], true) {
              return;
            }
          }
        }
        6..=7 => {
          // an entry written by hand that names list a by its credential id
          let spec = StatusSpec { url: worlds[a].cid.clone(), purpose: worlds[a].purpose, index: i, made_by: "harness" };
          let sj = Ctx::status_json(&spec, rng.chance(1, 3));
          match catch(|| serde_json::from_value::<Status>(sj)) {
            Ok(Ok(st)) => {
              let mut c = template.clone();
              c.credential_status = Some(st);
              pool.push((c, spec, a));
            }
            Ok(Err(_)) => self.rep.inc("status_json_rejected"),
            Err(p) => self.on_panic("Status::deserialize", false, &p, json!({"spec":format!("{:?}", spec)})),
          }
        }
        8 => {
          // a later write to the owner's list changes the truth for credentials already pooled
          let v = rng.bool();
          if !self.cred_update(&mut worlds[a], &[(i, v)], rng.bool()) {
            return;
          }
        }
        _ => {
          // publish / fetch
          let wa = &mut worlds[a];
          wa.hist.push("to_json/from_json".into());
          let r = catch(|| serde_json::to_string(&wa.lc).ok().and_then(|s| serde_json::from_str::<StatusList2021Credential>(&s).ok()));
          if let Ok(Some(back)) = r {
            self.rep.inc("cred_json_roundtrips");
            wa.lc = back;
            let m = wa.model.clone();
            let bad = self.cred_compare(&worlds[a], &[&m], &m, &[], "to_json/from_json");
            if bad && !self.rebuild_world(&mut worlds[a]) {
              return;
            }
          }
        }
      }
    }
    let modes: &[StatusCheck] = if rng.chance(1, 3) { &[StatusCheck::Strict, StatusCheck::SkipUnsupported] } else { &[StatusCheck::Strict] };
    self.foreign_closing(&worlds, &pool, modes, kind_s);
    self.rep.inc("foreign_scenarios");
    self.rep.distinct("nontrivial", &format!("foreign|{}|{}|{}|{}|{}", kind_s, layout, worlds.len(), purpose_str(main_purpose), worlds.iter().any(|w| w.purpose != main_purpose)));
    if self.rep.want_sample() {
      self.rep.sample(json!({"kind":"near-miss list identifiers","near_miss_kind":kind_s,"lists":worlds.iter().map(|w| w.origin.clone()).collect::<Vec<_>>(),"credentials":pool.len()}));
    }
  }
}

const NEAR_MISS_KINDS: [&str; 7] = ["fragment", "query", "trailing-slash", "path-case", "prefix", "scheme-port", "host"];

/// Identifiers that differ from one another only slightly (all already in the normal form of the URL parser).
fn near_miss_urls(kind: usize, n: u64) -> Vec<String> {
  let base = format!("https://example.com/status/{}", n);
  match kind {
    0 => vec![format!("{base}#list-a"), format!("{base}#list-b"), format!("{base}#list-a2"), format!("{base}#"), format!("{base}#List-a"), base.clone()],
    1 => vec![format!("{base}?v=1"), format!("{base}?v=2"), format!("{base}?v=1&x"), format!("{base}?"), base.clone(), format!("{base}?v=1#list")],
    2 => vec![base.clone(), format!("{base}/"), format!("{base}//"), format!("{base}/#list")],
    3 => vec![format!("{base}/List"), format!("{base}/list"), format!("{base}/LIST"), format!("{base}/list#List"), format!("{base}/list#list")],
    4 => vec![base.clone(), format!("{base}0"), format!("{base}/0"), format!("{base}.json"), format!("{base}#0")],
    5 => vec![base.clone(), format!("http://example.com/status/{n}"), format!("https://example.com:8443/status/{n}"), format!("http://example.com:8080/status/{n}")],
    _ => vec![base.clone(), format!("https://example.org/status/{n}"), format!("https://www.example.com/status/{n}"), format!("https://example.com.evil.test/status/{n}")],
  }
}

// ------------------------------------------------------------------------------------------
// main
// ------------------------------------------------------------------------------------------

fn scaled(n: u64, scale: u64) -> u64 {
  (n * scale / 1000).max(1)
}

fn main() {
  let args = Args::parse();
  let scale = args.extra_u64("scale", 1000);
  let thorough = args.thorough;
  let mut cx = Ctx { rep: Report::new("C12"), crc: crc_table(), strict_own_entry: args.extra_u64("strict-own-entry", 0) != 0 };
  cx.rep.rule(
    "cases = (1) exhaustive single writes: every (byte value, bit offset, written value) at fixed byte positions of a list \
     decoded from bytes the harness gzip+base64-encoded itself, neighbours non-zero (distinct by construction); \
     (2) seeded write/read histories of 200 calls over lists made by new(n) / default() / decoding harness-encoded byte patterns, \
     indices clustered in a few bytes plus len-1, len, len+1.., usize::MAX; (2b, full scale only) histories of 60 calls over new(n) for \
     n around 2^31 .. 2^35 judged by a sparse model: indices clustered around 0, the powers of two, the end and entries whose index is an \
     earlier index modulo / plus / minus a power of two; after each write those related entries, all written entries and both ends are read \
     (such lists are never swept or encoded); (3) status-list-credential scenarios \
     (set_credential_status, update/set_entry, entry, JSON round trip, check_status_with_status_list_2021) for both purposes. \
     (3b) two or three status-list credentials whose identifiers differ only by fragment / query / trailing slash / letter case / \
     being a prefix / scheme+port / host and whose entries differ: credentials given a status in one list (set_credential_status or a \
     hand-written entry) are checked against every list; against a list that the entry does not name only a refusal or a verdict that agrees \
     with the credential's own entry is accepted. \
     Every case is judged against the harness's own byte-vector model and own decoder. non-trivial+distinct: histories classed by \
     (creation route, size class, pattern, gzip flavour, #writes, #reads, #out-of-range probes); scenarios by (purpose, route, id layout, size, pattern, #calls)",
  );
  cx.rep.note("scale_permille", json!(scale));
  // `--huge 0` switches the very-large-list stage off; it is also off below full scale and on 32-bit targets
  let huge = scale >= 1000 && args.extra_u64("huge", 1) != 0 && cfg!(target_pointer_width = "64");
  cx.rep.note("huge_list_stage", json!(huge));
  cx.rep.note("assumption_bit_order", json!("entry i is bit (0x80 >> i%8) of byte i/8 of the gunzipped bitstring (W3C: left-most bit is index 0)"));

  // ---- (0) canonical minimal histories first, so that the first witness recorded per signature is the smallest
  if args.shard == 0 {
    let t = true;
    let f = false;
    let len = MIN_ENTRIES;
    cx.run_sequence(&Route::Default, None, &[Op::Get(len)], 0, "canon");
    cx.run_sequence(&Route::Default, None, &[Op::Set(0, t), Op::Set(1, t), Op::Set(1, f), Op::Get(0)], 0, "canon");
    cx.run_sequence(&Route::Default, None, &[Op::Set(0, t), Op::Set(1, t), Op::Set(2, t), Op::Set(7, t), Op::Set(2, f), Op::Get(0), Op::Get(1), Op::Get(7)], 0, "canon");
    cx.run_sequence(
      &Route::Default,
      None,
      &[Op::Get(len - 1), Op::Set(len - 1, t), Op::Get(len - 1), Op::Set(len, t), Op::Set(len + 1, f), Op::Set(usize::MAX, t), Op::Get(len + 1), Op::Get(usize::MAX), Op::Get(usize::MAX - 7)],
      0,
      "canon",
    );
    for n in [MIN_ENTRIES, MIN_ENTRIES + 1, MIN_ENTRIES + 7, MIN_ENTRIES + 8, MIN_ENTRIES + 9, 1_000_000] {
      let l = n.div_ceil(8) * 8;
      cx.run_sequence(&Route::New(n), None, &[Op::Set(n - 1, t), Op::Get(n - 1), Op::Set(l - 1, t), Op::Set(l - 2, f), Op::Get(l - 1), Op::Set(l, t), Op::Get(l), Op::Get(l + 7)], 0, "canon");
    }
    // large size classes (1 MiB of bits and beyond): nothing in the statement caps the length (skipped at the reduced
    // scale of the Miri/sanitizer stages)
    if scale >= 1000 {
      for n in [8usize << 20, (8 << 20) + 8, (16 << 20) + 64] {
        let m = 8usize << 20;
        cx.rep.inc("large_list_sequences");
        cx.run_sequence(&Route::New(n), None, &[Op::Set(n - 1, t), Op::Set(m - 1, t), Op::Set(m.min(n - 1), t), Op::Get(n - 1), Op::Set(0, t), Op::Set(n - 2, f), Op::Get(n), Op::Get(m - 1)], 0, "canon");
      }
    }
    // very large size classes (2^31 .. 2^35 entries and more): sparse model, a handful of writes and reads around the
    // powers of two, the two ends and the entries whose index is the written one modulo / plus / minus a power of two
    #[cfg(target_pointer_width = "64")]
    if huge {
      let p32 = 1usize << 32;
      cx.run_huge(p32 + 64, &[Op::Set(p32, t), Op::Get(0), Op::Get(p32)], "canon");
      cx.run_huge(p32 + 64, &[Op::Set(5, t), Op::Set(p32 + 5, t), Op::Set(5, f), Op::Get(p32 + 5), Op::Get(5)], "canon");
      for n in [p32 + 64, p32, p32 + 1, (1 << 31) + 64, (1 << 33) + 8, p32 + (1 << 31) + 24, (1 << 35) + 64] {
        let len = n.div_ceil(8) * 8;
        // b = the largest power of two below the length
        let b = 1usize << (usize::BITS - 1 - (len - 1).leading_zeros());
        cx.run_huge(
          n,
          &[
            Op::Set(b, t), Op::Get(0), Op::Set(b + 5, t), Op::Get(5), Op::Set(17, t), Op::Get(b + 17), Op::Set(5, t), Op::Set(5, f), Op::Get(b + 5),
            Op::Set(b - 1, t), Op::Get(b - 1), Op::Set(len - 1, t), Op::Get(len - 1), Op::Set(len - 2, f), Op::Get(63), Op::Set(b + 5, f), Op::Get(5),
            Op::Get(len), Op::Set(len, t), Op::Set(len + p32, f), Op::Set(len + 7, t), Op::Get(usize::MAX), Op::Set(usize::MAX, t), Op::Get(0),
          ],
          "canon",
        );
      }
    }
    // below the documented minimum: Err is fine; if accepted it must hold that many entries
    for n in [0usize, 1, 8, 100, MIN_ENTRIES - 8, MIN_ENTRIES - 1] {
      cx.rep.eval();
      match catch(|| StatusList2021::new(n)) {
        Err(p) => cx.on_panic("new", false, &p, json!({"num_entries":n})),
        Ok(Err(_)) => cx.rep.inc("new_rejected_below_minimum"),
        Ok(Ok(l)) => {
          cx.rep.inc("new_accepted_below_minimum");
          if l.len() < n {
            cx.rep.violation("len-mismatch:new", &format!("new({}) has len() = {}", n, l.len()), json!({"num_entries":n}));
          }
        }
      }
    }
    // lists shorter than the minimum arrive through the decoder
    for nbytes in [0usize, 1, 2] {
      let route = Route::Decoded { nbytes, pattern: 2, pseed: 0, gz: 0 };
      let l = nbytes * 8;
      cx.run_sequence(&route, None, &[Op::Get(0), Op::Get(l), Op::Set(l, t), Op::Set(0, f), Op::Get(l + 8)], 0, "canon");
    }
  }

  let template: Credential = CredentialBuilder::default()
    .id(Url::parse("https://example.edu/credentials/3732").expect("url"))
    .issuer(Url::parse("https://example.edu/issuers/14").expect("url"))
    .type_("UniversityDegreeCredential")
    .subject(Subject::with_id(Url::parse("did:example:ebfeb1f712ebc6f1c276e12ec21").expect("url")))
    .build()
    .expect("template credential");
  if args.shard == 0 {
    cx.canon_cred(&template);
    cx.canon_foreign(&template);
  }

  // ---- (1) exhaustive single-write table
  {
    let nbytes_a = MIN_ENTRIES / 8;
    let mut positions: Vec<(usize, usize)> = vec![(nbytes_a, 0), (nbytes_a, nbytes_a / 2 - 1), (nbytes_a, nbytes_a - 1)];
    if thorough {
      positions.extend_from_slice(&[(nbytes_a, 1), (nbytes_a, 255), (nbytes_a, 256), (nbytes_a, nbytes_a - 2), (nbytes_a + 1, nbytes_a), (nbytes_a + 1, nbytes_a - 1), (20_001, 12_345)]);
    }
    // fixed background (seed-independent): dense pseudo-random bytes
    let stride = (1000 / scale.clamp(1, 1000)).max(1);
    let mut idx: u64 = 0;
    for (pi, (nbytes, pos)) in positions.iter().enumerate() {
      let mut base = pattern_bytes(0, *nbytes, 0xC12_0000 + pi as u64);
      // neighbours all-ones / mixed so that any spill-over into them or from them is visible
      if *pos > 0 {
        base[*pos - 1] = 0xFF;
      }
      if *pos + 1 < *nbytes {
        base[*pos + 1] = 0xA5;
      }
      for b in 0u32..256 {
        for off in 0usize..8 {
          for v in [false, true] {
            idx += 1;
            // offset the stride per position so that a reduced scale still meets every offset and value
            if !args.mine(idx) || (idx / args.nshards.max(1)) % stride != 0 {
              continue;
            }
            base[*pos] = b as u8;
            let route = Route::Bytes { what: format!("{} bytes, byte[{}]={:#010b}, neighbours 0xFF/0xA5, rest pseudo-random", nbytes, pos, b), gz: (idx % 5) };
            cx.rep.eval();
            cx.rep.inc("table_cases");
            cx.rep.count("distinct_exact", 1);
            let Some((mut list, mut model)) = cx.build(&route, Some(&base)) else { continue };
            let origin = route.json();
            let d = cx.window(&list, &model, *pos, &origin);
            if !d.is_empty() {
              cx.rep.violation(
                "get-mismatch-on-fresh-list",
                &format!("{}: entries {:?} read differently from the bytes the list was created from", route.short(), d),
                json!({"origin":origin,"entries":d}),
              );
              continue;
            }
            let i = *pos * 8 + off;
            let hist = [Op::Set(i, v)];
            // reduced scale (Miri/sanitizer runs): the gzip round trip only on every 4th table case
            cx.do_set(&mut list, &mut model, i, v, &route, &hist, scale >= 100 || idx % 4 == 0);
          }
        }
      }
    }
    cx.rep.note("table_positions", json!(positions));
  }

  // ---- (2) random histories
  let mut rng = args.rng(12);
  let n_seq = scaled(if thorough { 24_000 } else { 800 }, scale);
  let per_shard = n_seq.div_ceil(args.nshards.max(1));
  for s in 0..per_shard {
    let route = gen_route(&mut rng, true);
    let len = match &route {
      Route::New(n) => n.div_ceil(8) * 8,
      Route::Default => MIN_ENTRIES,
      Route::Decoded { nbytes, .. } => nbytes * 8,
      Route::Bytes { .. } => unreachable!(),
    };
    let nops = if scale < 100 { 40 } else { 200 };
    let ops = gen_ops(&mut rng, len, nops);
    let full_every = if thorough || s % 4 == 0 { 50 } else { 0 };
    cx.run_sequence(&route, None, &ops, full_every, "hist");
  }

  // ---- (2b) random histories over very large lists (not at the reduced scale of the Miri/sanitizer stages)
  #[cfg(target_pointer_width = "64")]
  if huge {
    let mut rng2b = args.rng(1232);
    let n_huge = if thorough { 4_800 } else { 160 };
    let per_shard = (n_huge as u64).div_ceil(args.nshards.max(1));
    for _ in 0..per_shard {
      let n = gen_huge_size(&mut rng2b, thorough);
      let ops = gen_huge_ops(&mut rng2b, n.div_ceil(8) * 8, 60);
      cx.run_huge(n, &ops, "hist");
    }
  }

  // ---- (3) credential level
  let mut rng3 = args.rng(1203);
  let n_sc = scaled(if thorough { 8_000 } else { 320 }, scale);
  let per_shard = n_sc.div_ceil(args.nshards.max(1));
  for s in 0..per_shard {
    let big = s % 16 == 7 && scale >= 100;
    let nops = if scale < 100 { 12 } else if big { 15 } else { 40 };
    cx.run_cred_scenario(&mut rng3, nops, big, &template);
  }

  // ---- (3b) several status lists with near-miss identifiers
  let mut rng3b = args.rng(1204);
  let n_fs = scaled(if thorough { 4_000 } else { 160 }, scale);
  let per_shard = n_fs.div_ceil(args.nshards.max(1));
  for _ in 0..per_shard {
    let nops = if scale < 100 { 4 } else { 10 };
    cx.run_foreign_scenario(&mut rng3b, nops, &template);
  }
  cx.rep.finish();
}
