//! C19 — Ordered-set collections keep order and key-uniqueness over all op sequences.
//! Oracle: the harness's own duplicate-free `Vec` model; own JSON rendering of the elements.
use identity_core::common::{KeyComparable, OneOrMany, OneOrSet, OrderedSet};
use identity_core::convert::{FromJson, ToJson};
use serde::de::DeserializeOwned;
use serde::{Deserialize, Serialize};
use serde_json::{json, Value};
use std::collections::{BTreeSet, VecDeque};
use std::fmt::Debug;
use vh::panicmon::catch;
use vh::{Args, Report, Rng};

// ------------------------------------------------------------------------------------------------
// element kinds
// ------------------------------------------------------------------------------------------------

/// Element whose key is a projection (`k`); `v` is the payload.
#[derive(Clone, Copy, Debug, PartialEq, Eq, Serialize, Deserialize)]
struct P {
  k: u8,
  v: u8,
}

impl KeyComparable for P {
  type Key = u8;
  fn key(&self) -> &u8 {
    &self.k
  }
}

/// What the harness knows about an element type independently of the library.
trait Elem: KeyComparable + Clone + PartialEq + Debug + Serialize + DeserializeOwned + 'static {
  /// the harness's own notion of the key
  type K: Clone + PartialEq + Debug;
  /// sized value handed to `replace`/`remove`/`contains` as the key carrier
  type KeyArg: KeyComparable<Key = <Self as KeyComparable>::Key>;
  const KIND: &'static str;
  fn hkey(&self) -> Self::K;
  fn key_arg(k: &Self::K) -> Self::KeyArg;
  /// own JSON rendering
  fn jval(&self) -> Value;
  fn show(&self) -> String;
  fn show_key(k: &Self::K) -> String;
}

impl Elem for u8 {
  type K = u8;
  type KeyArg = u8;
  const KIND: &'static str = "u8";
  fn hkey(&self) -> u8 {
    *self
  }
  fn key_arg(k: &u8) -> u8 {
    *k
  }
  fn jval(&self) -> Value {
    json!(*self)
  }
  fn show(&self) -> String {
    self.to_string()
  }
  fn show_key(k: &u8) -> String {
    k.to_string()
  }
}

impl Elem for P {
  type K = u8;
  type KeyArg = u8;
  const KIND: &'static str = "proj";
  fn hkey(&self) -> u8 {
    self.k
  }
  fn key_arg(k: &u8) -> u8 {
    *k
  }
  fn jval(&self) -> Value {
    json!({"k": self.k, "v": self.v})
  }
  fn show(&self) -> String {
    format!("{}:{}", self.k, self.v)
  }
  fn show_key(k: &u8) -> String {
    k.to_string()
  }
}

impl Elem for String {
  type K = String;
  type KeyArg = String;
  const KIND: &'static str = "string";
  fn hkey(&self) -> String {
    self.clone()
  }
  fn key_arg(k: &String) -> String {
    k.clone()
  }
  fn jval(&self) -> Value {
    Value::String(self.clone())
  }
  fn show(&self) -> String {
    format!("{:?}", self)
  }
  fn show_key(k: &String) -> String {
    format!("{:?}", k)
  }
}

/// Element whose own JSON form is an ARRAY (`[k,v]`, as serde writes every tuple struct); the key is a projection.
#[derive(Clone, Copy, Debug, PartialEq, Eq, Serialize, Deserialize)]
struct Tup(u8, u8);

impl KeyComparable for Tup {
  type Key = u8;
  fn key(&self) -> &u8 {
    &self.0
  }
}

impl Elem for Tup {
  type K = u8;
  type KeyArg = u8;
  const KIND: &'static str = "tuple";
  fn hkey(&self) -> u8 {
    self.0
  }
  fn key_arg(k: &u8) -> u8 {
    *k
  }
  fn jval(&self) -> Value {
    json!([self.0, self.1])
  }
  fn show(&self) -> String {
    format!("({},{})", self.0, self.1)
  }
  fn show_key(k: &u8) -> String {
    k.to_string()
  }
}

/// Element whose own JSON form is `null` or a number (a newtype around `Option<u8>`); the key is the value.
#[derive(Clone, Copy, Debug, PartialEq, Eq, Serialize, Deserialize)]
struct Nul(Option<u8>);

impl KeyComparable for Nul {
  type Key = Option<u8>;
  fn key(&self) -> &Option<u8> {
    &self.0
  }
}

impl Elem for Nul {
  type K = Option<u8>;
  type KeyArg = Nul;
  const KIND: &'static str = "nullable";
  fn hkey(&self) -> Option<u8> {
    self.0
  }
  fn key_arg(k: &Option<u8>) -> Nul {
    Nul(*k)
  }
  fn jval(&self) -> Value {
    match self.0 {
      None => Value::Null,
      Some(n) => json!(n),
    }
  }
  fn show(&self) -> String {
    match self.0 {
      None => "null".into(),
      Some(n) => format!("some{}", n),
    }
  }
  fn show_key(k: &Option<u8>) -> String {
    Nul(*k).show()
  }
}

/// Element whose own JSON form varies with the value: a string (`"A"`), an object holding a number (`{"B":1}`) or an
/// object holding an array (`{"C":[1,2]}`), as serde writes an externally tagged enum; the key is the value.
#[derive(Clone, Copy, Debug, PartialEq, Eq, Serialize, Deserialize)]
enum En {
  A,
  B(u8),
  C(u8, u8),
}

impl KeyComparable for En {
  type Key = En;
  fn key(&self) -> &En {
    self
  }
}

impl Elem for En {
  type K = En;
  type KeyArg = En;
  const KIND: &'static str = "enum";
  fn hkey(&self) -> En {
    *self
  }
  fn key_arg(k: &En) -> En {
    *k
  }
  fn jval(&self) -> Value {
    match self {
      En::A => json!("A"),
      En::B(x) => json!({"B": x}),
      En::C(x, y) => json!({"C": [x, y]}),
    }
  }
  fn show(&self) -> String {
    match self {
      En::A => "A".into(),
      En::B(x) => format!("B{}", x),
      En::C(x, y) => format!("C{}.{}", x, y),
    }
  }
  fn show_key(k: &En) -> String {
    k.show()
  }
}

// ------------------------------------------------------------------------------------------------
// the library's own element types whose key is the value (`impl KeyComparable for X { type Key = X }`): Url, CoreDID, DIDUrl
// ------------------------------------------------------------------------------------------------

/// A library value type whose `KeyComparable` key is the value itself. The harness only knows its serialised string.
trait LibVal: KeyComparable<Key = Self> + PartialEq + Sized + Clone + Debug + Serialize + DeserializeOwned + 'static {
  const KIND: &'static str;
  const DIRECT: &'static str;
  /// the serialised string of the value: the harness's notion of the key AND of value identity
  fn s(&self) -> String;
  fn parse(s: &str) -> Option<Self>;
}

impl LibVal for identity_core::common::Url {
  const KIND: &'static str = "url";
  const DIRECT: &'static str = "url-direct";
  fn s(&self) -> String {
    self.as_str().to_owned()
  }
  fn parse(s: &str) -> Option<Self> {
    identity_core::common::Url::parse(s).ok()
  }
}

impl LibVal for identity_did::CoreDID {
  const KIND: &'static str = "coredid";
  const DIRECT: &'static str = "coredid-direct";
  fn s(&self) -> String {
    self.to_string()
  }
  fn parse(s: &str) -> Option<Self> {
    identity_did::CoreDID::parse(s).ok()
  }
}

impl LibVal for identity_did::DIDUrl {
  const KIND: &'static str = "didurl";
  const DIRECT: &'static str = "didurl-direct";
  fn s(&self) -> String {
    self.to_string()
  }
  fn parse(s: &str) -> Option<Self> {
    identity_did::DIDUrl::parse(s).ok()
  }
}

/// Harness wrapper around a library value: key type, key function and key equality are the LIBRARY's
/// (`<X as KeyComparable>`), value equality (what the oracle compares with) is the harness's: the serialised strings.
#[derive(Clone, Debug, Serialize, Deserialize)]
#[serde(transparent)]
#[serde(bound(serialize = "X: Serialize", deserialize = "X: DeserializeOwned"))]
struct W<X: LibVal>(X);

impl<X: LibVal> PartialEq for W<X> {
  fn eq(&self, o: &Self) -> bool {
    self.0.s() == o.0.s()
  }
}

impl<X: LibVal> KeyComparable for W<X> {
  type Key = <X as KeyComparable>::Key;
  fn key(&self) -> &Self::Key {
    KeyComparable::key(&self.0)
  }
}

impl<X: LibVal> Elem for W<X> {
  type K = String;
  type KeyArg = W<X>;
  const KIND: &'static str = X::KIND;
  fn hkey(&self) -> String {
    self.0.s()
  }
  fn key_arg(k: &String) -> W<X> {
    W(X::parse(k).expect("key strings of the universe re-parse"))
  }
  fn jval(&self) -> Value {
    Value::String(self.0.s())
  }
  fn show(&self) -> String {
    self.0.s()
  }
  fn show_key(k: &String) -> String {
    k.clone()
  }
}

/// Parses the candidates, keeps those that parse, whose string re-parses to the same string and whose own serde form is
/// that string, distinct by string (several spellings may normalise to one value: those are ONE element of the universe).
fn lib_universe<X: LibVal>(cands: &[&str]) -> Vec<W<X>> {
  let mut out: Vec<W<X>> = Vec::new();
  for c in cands {
    let r = catch(|| {
      let x = X::parse(c)?;
      let s = x.s();
      let again = X::parse(&s)?;
      if again.s() != s || serde_json::to_value(&x).ok()? != Value::String(s.clone()) {
        return None;
      }
      let back: X = serde_json::from_value(Value::String(s.clone())).ok()?;
      if back.s() != s {
        return None;
      }
      Some(W(x))
    });
    if let Ok(Some(w)) = r {
      if !out.iter().any(|o| o == &w) {
        out.push(w);
      }
    }
  }
  out
}

fn show_list<T: Elem>(m: &[T]) -> String {
  format!("[{}]", m.iter().map(|e| e.show()).collect::<Vec<_>>().join(","))
}
fn jarr<T: Elem>(m: &[T]) -> Value {
  Value::Array(m.iter().map(|e| e.jval()).collect())
}
fn keys_unique<T: Elem>(m: &[T]) -> bool {
  for i in 0..m.len() {
    for j in 0..i {
      if m[i].hkey() == m[j].hkey() {
        return false;
      }
    }
  }
  true
}
/// first occurrence of every key, in order
fn dedup_first<T: Elem>(m: &[T]) -> Vec<T> {
  let mut out: Vec<T> = Vec::new();
  for e in m {
    if !out.iter().any(|o| o.hkey() == e.hkey()) {
      out.push(e.clone());
    }
  }
  out
}

// ------------------------------------------------------------------------------------------------
// operations, model, library application
// ------------------------------------------------------------------------------------------------

#[derive(Clone, Debug)]
enum Op<T: Elem> {
  Append(T),
  Prepend(T),
  Update(T),
  Replace(T::K, T),
  Remove(T::K),
}

impl<T: Elem> Op<T> {
  fn name(&self) -> &'static str {
    match self {
      Op::Append(_) => "append",
      Op::Prepend(_) => "prepend",
      Op::Update(_) => "update",
      Op::Replace(..) => "replace",
      Op::Remove(_) => "remove",
    }
  }
  fn code(&self) -> usize {
    match self {
      Op::Append(_) => 0,
      Op::Prepend(_) => 1,
      Op::Update(_) => 2,
      Op::Replace(..) => 3,
      Op::Remove(_) => 4,
    }
  }
  fn show(&self) -> String {
    match self {
      Op::Append(x) => format!("append({})", x.show()),
      Op::Prepend(x) => format!("prepend({})", x.show()),
      Op::Update(x) => format!("update({})", x.show()),
      Op::Replace(k, x) => format!("replace(key {},{})", T::show_key(k), x.show()),
      Op::Remove(k) => format!("remove(key {})", T::show_key(k)),
    }
  }
}

fn all_ops<T: Elem>(elems: &[T], keys: &[T::K]) -> Vec<Op<T>> {
  let mut v = Vec::new();
  for e in elems {
    v.push(Op::Append(e.clone()));
  }
  for e in elems {
    v.push(Op::Prepend(e.clone()));
  }
  for e in elems {
    v.push(Op::Update(e.clone()));
  }
  for k in keys {
    for e in elems {
      v.push(Op::Replace(k.clone(), e.clone()));
    }
  }
  for k in keys {
    v.push(Op::Remove(k.clone()));
  }
  v
}

#[derive(Clone, Debug, PartialEq)]
enum Out<T> {
  Flag(bool),
  Removed(Option<T>),
}

impl<T: Elem> Out<T> {
  fn show(&self) -> String {
    match self {
      Out::Flag(b) => b.to_string(),
      Out::Removed(None) => "None".into(),
      Out::Removed(Some(x)) => format!("Some({})", x.show()),
    }
  }
}

struct Exp<T> {
  out: Out<T>,
  state: Vec<T>,
}

fn mpos<T: Elem>(m: &[T], k: &T::K) -> Option<usize> {
  m.iter().position(|e| &e.hkey() == k)
}

const PCLS: [&str; 5] = ["absent", "present", "upd-key-only", "both", "same-slot"];

/// The abstract duplicate-free list. Returns the expected outcome, an optional second admissible
/// outcome (latitude), and the presence class of the operands
/// (0 no operand key present, 1 the (current) key present only, 2 only the update's key present
/// [replace], 3 both at different positions [replace], 4 both at the same position [replace]).
fn model_apply<T: Elem>(m: &[T], op: &Op<T>) -> (Exp<T>, Option<Exp<T>>, usize) {
  let same = |flag: Out<T>| Exp { out: flag, state: m.to_vec() };
  match op {
    Op::Append(x) => match mpos(m, &x.hkey()) {
      Some(_) => (same(Out::Flag(false)), None, 1),
      None => {
        let mut v = Vec::with_capacity(m.len() + 1);
        v.extend(m.iter().cloned());
        v.push(x.clone());
        (Exp { out: Out::Flag(true), state: v }, None, 0)
      }
    },
    Op::Prepend(x) => match mpos(m, &x.hkey()) {
      Some(_) => (same(Out::Flag(false)), None, 1),
      None => {
        let mut v = Vec::with_capacity(m.len() + 1);
        v.push(x.clone());
        v.extend(m.iter().cloned());
        (Exp { out: Out::Flag(true), state: v }, None, 0)
      }
    },
    Op::Update(x) => match mpos(m, &x.hkey()) {
      Some(i) => {
        let mut v = m.to_vec();
        v[i] = x.clone();
        (Exp { out: Out::Flag(true), state: v }, None, 1)
      }
      None => (same(Out::Flag(false)), None, 0),
    },
    Op::Replace(k, x) => match (mpos(m, k), mpos(m, &x.hkey())) {
      (None, None) => (same(Out::Flag(false)), None, 0),
      (Some(i), None) => {
        let mut v = m.to_vec();
        v[i] = x.clone();
        (Exp { out: Out::Flag(true), state: v }, None, 1)
      }
      (None, Some(j)) => {
        // `current` is not in the set but the update's key is: the list model of DESIGN.md ("upd goes to the first
        // position holding either key") replaces that entry in place and reports true. The alternative reading
        // "nothing to replace -> false, unchanged" was accepted in an earlier version of this monitor; it is no longer,
        // because it leaves a stale value under the update's key while the model (and the anchored `change`) do not.
        let mut v = m.to_vec();
        v[j] = x.clone();
        (Exp { out: Out::Flag(true), state: v }, None, 2)
      }
      (Some(i), Some(j)) if i == j => {
        let mut v = m.to_vec();
        v[i] = x.clone();
        (Exp { out: Out::Flag(true), state: v }, None, 4)
      }
      (Some(i), Some(j)) => {
        let (lo, hi) = (i.min(j), i.max(j));
        let mut v = m.to_vec();
        v[lo] = x.clone();
        v.remove(hi);
        (Exp { out: Out::Flag(true), state: v }, None, 3)
      }
    },
    Op::Remove(k) => match mpos(m, k) {
      Some(i) => {
        let mut v = m.to_vec();
        let e = v.remove(i);
        (Exp { out: Out::Removed(Some(e)), state: v }, None, 1)
      }
      None => (same(Out::Removed(None)), None, 0),
    },
  }
}

fn lib_apply<T: Elem>(s: &mut OrderedSet<T>, op: &Op<T>) -> Out<T> {
  match op {
    Op::Append(x) => Out::Flag(s.append(x.clone())),
    Op::Prepend(x) => Out::Flag(s.prepend(x.clone())),
    Op::Update(x) => Out::Flag(s.update(x.clone())),
    Op::Replace(k, x) => Out::Flag(s.replace(&T::key_arg(k), x.clone())),
    Op::Remove(k) => Out::Removed(s.remove(&T::key_arg(k))),
  }
}

struct Bad {
  sig: String,
  desc: String,
  detail: Value,
}

struct StepOk<T: Elem> {
  set: OrderedSet<T>,
  model: Vec<T>,
  out: Out<T>,
  pcls: usize,
  alt: bool,
}

/// Applies `op` to a clone of `set`, judges result flag and resulting order against the model.
fn step<T: Elem>(set: &OrderedSet<T>, model: &[T], op: &Op<T>) -> Result<StepOk<T>, Bad> {
  let (prim, alt, pcls) = model_apply(model, op);
  let r = catch(|| {
    let mut s = set.clone();
    let out = lib_apply(&mut s, op);
    let which = if out == prim.out && s.as_slice() == prim.state.as_slice() {
      1
    } else if alt.as_ref().map(|a| out == a.out && s.as_slice() == a.state.as_slice()).unwrap_or(false) {
      2
    } else {
      0
    };
    (s, out, which)
  });
  match r {
    Err(p) => Err(Bad {
      sig: format!("oset-{}-panic@{}", op.name(), p.file_only()),
      desc: format!("{} on {} panicked: {} at {}", op.show(), show_list(model), p.msg, p.loc()),
      detail: json!({"kind":T::KIND,"before":show_list(model),"op":op.show()}),
    }),
    Ok((s, out, 1)) => Ok(StepOk { set: s, model: prim.state, out, pcls, alt: false }),
    Ok((s, out, 2)) => Ok(StepOk { set: s, model: alt.map(|a| a.state).unwrap_or_default(), out, pcls, alt: true }),
    Ok((s, out, _)) => {
      let got = catch(|| s.as_slice().to_vec()).unwrap_or_default();
      let flag_ok = out == prim.out || alt.as_ref().map(|a| out == a.out).unwrap_or(false);
      let what = if flag_ok { "content" } else { "result" };
      Err(Bad {
        sig: format!("oset-{}-{}:{}", op.name(), what, PCLS[pcls]),
        desc: format!(
          "[{}] {} on {} returned {} leaving {}; list model: {} leaving {}",
          T::KIND,
          op.show(),
          show_list(model),
          out.show(),
          show_list(&got),
          prim.out.show(),
          show_list(&prim.state)
        ),
        detail: json!({"kind":T::KIND,"before":show_list(model),"op":op.show(),"got_result":out.show(),"got_state":show_list(&got),
          "want_result":prim.out.show(),"want_state":show_list(&prim.state)}),
      })
    }
  }
}

// ------------------------------------------------------------------------------------------------
// context, counters
// ------------------------------------------------------------------------------------------------

#[derive(Default)]
struct Hot {
  nodes: u64,
  flag_true: u64,
  flag_false: u64,
  rem_some: u64,
  rem_none: u64,
  alt: u64,
  /// (op code 5) x (presence class 5) x (length before 0..=7)
  class: Vec<bool>,
}

impl Hot {
  fn new() -> Hot {
    Hot { class: vec![false; 5 * 5 * 8], ..Default::default() }
  }
  #[inline]
  fn record<T: Elem>(&mut self, op: &Op<T>, len_before: usize, ok: &StepOk<T>) {
    self.nodes += 1;
    match &ok.out {
      Out::Flag(true) => self.flag_true += 1,
      Out::Flag(false) => self.flag_false += 1,
      Out::Removed(Some(_)) => self.rem_some += 1,
      Out::Removed(None) => self.rem_none += 1,
    }
    if ok.alt {
      self.alt += 1;
    }
    self.class[(op.code() * 5 + ok.pcls) * 8 + len_before.min(7)] = true;
  }
  fn flush(&mut self, rep: &mut Report, phase: &str, kind: &str) {
    rep.count("evaluations", self.nodes);
    rep.count(&format!("oset_{}_steps", phase), self.nodes);
    rep.count("oset_ops_checked", self.nodes);
    rep.count("oset_flag_true", self.flag_true);
    rep.count("oset_flag_false", self.flag_false);
    rep.count("oset_removed_some", self.rem_some);
    rep.count("oset_removed_none", self.rem_none);
    rep.count("oset_replace_latitude_false_taken", self.alt);
    for (i, b) in self.class.iter().enumerate() {
      if *b {
        rep.distinct("nontrivial", &format!("oset|{}|{}|op{}|p{}|len{}", phase, kind, i / 40, (i / 8) % 5, i % 8));
      }
    }
    *self = Hot::new();
  }
}

struct Ctx {
  rep: Report,
  args: Args,
  scale: u64,
}

impl Ctx {
  fn bad(&mut self, b: Bad, history: Value) {
    let mut d = b.detail;
    if let Value::Object(m) = &mut d {
      m.insert("history".into(), history);
    }
    self.rep.violation(&b.sig, &b.desc, d);
  }
  fn scaled(&self, n: u64) -> u64 {
    (n.saturating_mul(self.scale) / 1000).max(1)
  }
}

// ------------------------------------------------------------------------------------------------
// phase 1: exhaustive operation sequences (iterative deepening so the first witness is a shortest one)
// ------------------------------------------------------------------------------------------------

struct Dfs<'a, T: Elem> {
  ops: &'a [Op<T>],
  limit: usize,
  path: Vec<usize>,
  hot: Hot,
  bads: Vec<(Bad, Vec<usize>)>,
}

fn dfs<T: Elem>(d: &mut Dfs<T>, args: &Args, set: &OrderedSet<T>, model: &[T], depth: usize, pref: u64) {
  let nops = d.ops.len() as u64;
  let ops = d.ops;
  for (i, op) in ops.iter().enumerate() {
    let dd = depth + 1;
    let pidx = if dd <= 2 { pref * nops + i as u64 } else { pref };
    if dd == d.limit.min(2) && !args.mine(pidx) {
      continue;
    }
    d.path.push(i);
    match step(set, model, op) {
      Ok(ok) => {
        if dd == d.limit {
          d.hot.record(op, model.len(), &ok);
        } else {
          dfs(d, args, &ok.set, &ok.model, dd, pidx);
        }
      }
      Err(b) => {
        // shorter prefixes were judged by an earlier iteration; a failing prefix is not extended
        if dd == d.limit && d.bads.len() < 64 {
          d.bads.push((b, d.path.clone()));
        }
      }
    }
    d.path.pop();
  }
}

fn exhaustive_sequences<T: Elem>(cx: &mut Ctx, label: &str, elems: &[T], keys: &[T::K], max_len: usize) {
  let ops = all_ops(elems, keys);
  let nops = ops.len() as u128;
  // --scale shrinks the node budget; the length is the largest one fitting into it (at least 2)
  let budget = (nops.pow(max_len as u32) * cx.scale as u128 / 1000).max(1);
  let mut len = max_len;
  while len > 2 && nops.pow(len as u32) > budget {
    len -= 1;
  }
  let empty: OrderedSet<T> = catch(OrderedSet::new).expect("OrderedSet::new");
  let mut d = Dfs { ops: &ops, limit: 1, path: Vec::new(), hot: Hot::new(), bads: Vec::new() };
  for limit in 1..=len {
    d.limit = limit;
    let args = cx.args.clone();
    dfs(&mut d, &args, &empty, &[], 0, 0);
    let bads = std::mem::take(&mut d.bads);
    for (b, path) in bads {
      let hist: Vec<String> = path.iter().map(|i| ops[*i].show()).collect();
      cx.bad(b, json!(hist));
    }
  }
  cx.rep.count("distinct_exact", d.hot.nodes);
  cx.rep.count("oset_exhaustive_sequences", d.hot.nodes);
  d.hot.flush(&mut cx.rep, "exh", label);
  cx.rep.note(&format!("exhaustive_{}", label), json!({"ops_per_step": ops.len(), "max_len": len}));
}

// ------------------------------------------------------------------------------------------------
// own JSON through the remaining serialisation forms and deserialisation entry points
// ------------------------------------------------------------------------------------------------

/// The compact string form (`to_json` -> `from_json`) is judged by the caller, `val` is that (already accepted) form parsed by
/// the harness. Here the same value goes through `to_json_value` -> `from_json_value`, `to_json_vec` -> `from_json_slice`,
/// `to_json_pretty` -> `from_json` and the compact form through an `io::Read` deserializer: every form must denote the same JSON
/// and every entry point must give back an equal value. Returns the first failing (path, what happened).
fn own_json_other_paths<C>(v: &C, val: &Value) -> Result<(), (&'static str, String)>
where
  C: Serialize + DeserializeOwned + PartialEq,
{
  fn back<C: PartialEq>(v: &C, r: Result<C, String>) -> Result<(), String> {
    match r {
      Ok(b) if &b == v => Ok(()),
      Ok(_) => Err("deserialises to a different value".into()),
      Err(e) => Err(format!("is rejected: {}", e)),
    }
  }
  let r = catch(|| -> Result<(), (&'static str, String)> {
    // serde_json::Value
    let jv = v.to_json_value().map_err(|e| ("value", format!("to_json_value failed: {}", e)))?;
    if &jv != val {
      return Err(("value", format!("to_json_value gives {} but to_json gives {}", jv, val)));
    }
    back(v, C::from_json_value(jv).map_err(|e| e.to_string())).map_err(|e| ("value", format!("own JSON value {} {}", val, e)))?;
    // bytes
    let bytes = v.to_json_vec().map_err(|e| ("slice", format!("to_json_vec failed: {}", e)))?;
    if serde_json::from_slice::<Value>(&bytes).ok().as_ref() != Some(val) {
      return Err(("slice", format!("to_json_vec gives {} but to_json gives {}", String::from_utf8_lossy(&bytes), val)));
    }
    back(v, C::from_json_slice(&bytes).map_err(|e| e.to_string())).map_err(|e| ("slice", format!("own JSON bytes {} {}", val, e)))?;
    // io::Read
    back(v, serde_json::from_reader::<_, C>(&bytes[..]).map_err(|e| e.to_string())).map_err(|e| ("reader", format!("own JSON {} read from a reader {}", val, e)))?;
    // pretty-printed text
    let pretty = v.to_json_pretty().map_err(|e| ("pretty", format!("to_json_pretty failed: {}", e)))?;
    if serde_json::from_str::<Value>(&pretty).ok().as_ref() != Some(val) {
      return Err(("pretty", format!("to_json_pretty gives {:?} but to_json gives {}", pretty, val)));
    }
    back(v, C::from_json(&pretty).map_err(|e| e.to_string())).map_err(|e| ("pretty", format!("own pretty-printed JSON {:?} {}", pretty, e)))?;
    Ok(())
  });
  match r {
    Ok(x) => x,
    Err(p) => Err(("panic", format!("panicked: {} at {}", p.msg, p.loc()))),
  }
}

// ------------------------------------------------------------------------------------------------
// full observation of one OrderedSet state (accessors + JSON)
// ------------------------------------------------------------------------------------------------

fn check_state<T: Elem>(cx: &mut Ctx, set: &OrderedSet<T>, model: &[T], keys: &[T::K], hist: &dyn Fn() -> Value) -> bool {
  cx.rep.inc("oset_state_checks");
  let r = catch(|| {
    let sl = set.as_slice().to_vec();
    let it: Vec<T> = set.iter().cloned().collect();
    let de: Vec<T> = (**set).to_vec();
    let cl = set.clone();
    let cl_eq = &cl == set;
    let iv = cl.clone().into_vec();
    let ii: Vec<T> = cl.into_iter().collect();
    let cont: Vec<bool> = keys.iter().map(|k| set.contains(&T::key_arg(k))).collect();
    let _ = format!("{:?}", set);
    (sl, it, de, cl_eq, iv, ii, cont, set.len(), set.is_empty(), set.head().cloned(), set.tail().cloned())
  });
  let (sl, it, de, cl_eq, iv, ii, cont, len, emp, head, tail) = match r {
    Ok(x) => x,
    Err(p) => {
      cx.rep.violation(
        &format!("oset-accessor-panic@{}", p.file_only()),
        &format!("[{}] accessor on {} panicked: {} at {}", T::KIND, show_list(model), p.msg, p.loc()),
        json!({"kind":T::KIND,"state":show_list(model),"history":hist()}),
      );
      return false;
    }
  };
  let mut wrong: Vec<&str> = Vec::new();
  if sl != model {
    wrong.push("as_slice");
  }
  if it != model {
    wrong.push("iter");
  }
  if de != model {
    wrong.push("deref");
  }
  if !cl_eq {
    wrong.push("clone-eq");
  }
  if iv != model {
    wrong.push("into_vec");
  }
  if ii != model {
    wrong.push("into_iter");
  }
  if len != model.len() || emp != model.is_empty() {
    wrong.push("len");
  }
  if head.as_ref() != model.first() {
    wrong.push("head");
  }
  if tail.as_ref() != model.last() {
    wrong.push("tail");
  }
  for (i, k) in keys.iter().enumerate() {
    if cont[i] != mpos(model, k).is_some() {
      wrong.push("contains");
      break;
    }
  }
  if !keys_unique(&sl) {
    wrong.push("duplicate-keys");
  }
  if let Some(w) = wrong.first() {
    cx.rep.violation(
      &format!("oset-accessor-mismatch:{}", w),
      &format!("[{}] set observed as {} but the model holds {} (disagreeing: {:?})", T::KIND, show_list(&sl), show_list(model), wrong),
      json!({"kind":T::KIND,"state":show_list(model),"observed":show_list(&sl),"history":hist()}),
    );
    return false;
  }
  // JSON: an array of the elements in order; own JSON deserialises to an equal value
  match catch(|| set.to_json()) {
    Ok(Ok(js)) => {
      let val: Option<Value> = serde_json::from_str(&js).ok();
      if val.as_ref() != Some(&jarr(model)) {
        cx.rep.violation(
          "oset-json-form",
          &format!("[{}] set {} serialised as {}", T::KIND, show_list(model), js),
          json!({"kind":T::KIND,"state":show_list(model),"json":js,"history":hist()}),
        );
        return false;
      }
      match catch(|| OrderedSet::<T>::from_json(&js).map(|b| (&b == set, b.as_slice().to_vec()))) {
        Ok(Ok((true, v))) if v == model => {
          cx.rep.inc("json_roundtrips");
          if let Err((path, what)) = own_json_other_paths(set, val.as_ref().unwrap_or(&Value::Null)) {
            cx.rep.violation(
              &format!("oset-json-roundtrip:{}", path),
              &format!("[{}] set {}: {}", T::KIND, show_list(model), what),
              json!({"kind":T::KIND,"state":show_list(model),"json":js,"path":path,"history":hist()}),
            );
            return false;
          }
          cx.rep.inc("json_other_path_roundtrips");
        }
        Ok(other) => {
          cx.rep.violation(
            "oset-json-roundtrip",
            &format!("[{}] own JSON {} does not deserialise to an equal set: {:?}", T::KIND, js, other.map(|(e, v)| (e, show_list(&v))).map_err(|e| e.to_string())),
            json!({"kind":T::KIND,"state":show_list(model),"json":js,"history":hist()}),
          );
          return false;
        }
        Err(p) => {
          cx.rep.violation(&format!("oset-json-panic@{}", p.file_only()), &format!("from_json({}) panicked: {}", js, p.msg), json!({"json":js}));
          return false;
        }
      }
    }
    Ok(Err(e)) => {
      cx.rep.violation("oset-json-form", &format!("[{}] to_json failed on {}: {}", T::KIND, show_list(model), e), json!({"state":show_list(model)}));
      return false;
    }
    Err(p) => {
      cx.rep.violation(&format!("oset-json-panic@{}", p.file_only()), &format!("to_json panicked: {}", p.msg), json!({"state":show_list(model)}));
      return false;
    }
  }
  true
}

/// Iterator with a caller-chosen size hint (honest hints only unless stated otherwise).
struct Hinted<T> {
  items: std::vec::IntoIter<T>,
  hint: (usize, Option<usize>),
}
impl<T> Iterator for Hinted<T> {
  type Item = T;
  fn next(&mut self) -> Option<T> {
    self.items.next()
  }
  fn size_hint(&self) -> (usize, Option<usize>) {
    self.hint
  }
}
fn hinted<T>(v: Vec<T>, hint: (usize, Option<usize>)) -> Hinted<T> {
  Hinted { items: v.into_iter(), hint }
}

/// Builds a set holding exactly `model` (duplicate-free) through one of the construction paths.
fn build<T: Elem>(cx: &mut Ctx, model: &[T], mode: u64) -> Option<OrderedSet<T>> {
  let m = model.to_vec();
  let (name, r) = match mode % 5 {
    0 => ("appends", catch(|| {
      let mut s = OrderedSet::new();
      for e in m.iter() {
        s.append(e.clone());
      }
      Ok(s)
    })),
    1 => ("prepends", catch(|| {
      let mut s = OrderedSet::with_capacity(m.len() / 2);
      for e in m.iter().rev() {
        s.prepend(e.clone());
      }
      Ok(s)
    })),
    2 => ("collect", catch(|| Ok(m.iter().cloned().collect::<OrderedSet<T>>()))),
    3 => ("try_from", catch(|| OrderedSet::try_from(m.clone()).map_err(|e| e.to_string()))),
    _ => ("from_json", catch(|| OrderedSet::<T>::from_json(&jarr(&m).to_string()).map_err(|e| e.to_string()))),
  };
  match r {
    Ok(Ok(s)) => {
      if catch(|| s.as_slice() == model).unwrap_or(false) {
        Some(s)
      } else {
        let got = catch(|| s.as_slice().to_vec()).unwrap_or_default();
        cx.rep.violation(
          &format!("oset-build-content:{}", name),
          &format!("[{}] building {} through {} gave {}", T::KIND, show_list(model), name, show_list(&got)),
          json!({"kind":T::KIND,"list":show_list(model),"path":name}),
        );
        None
      }
    }
    Ok(Err(e)) => {
      cx.rep.violation(
        &format!("oset-build-rejects-unique:{}", name),
        &format!("[{}] duplicate-free list {} rejected by {}: {}", T::KIND, show_list(model), name, e),
        json!({"kind":T::KIND,"list":show_list(model),"path":name}),
      );
      None
    }
    Err(p) => {
      cx.rep.violation(&format!("oset-build-panic@{}", p.file_only()), &format!("{} of {} panicked: {}", name, show_list(model), p.msg), json!({"list":show_list(model)}));
      None
    }
  }
}

// ------------------------------------------------------------------------------------------------
// phase 2: every reachable state x every operation (closure of the state graph), full observation
// ------------------------------------------------------------------------------------------------

fn closure<T: Elem>(cx: &mut Ctx, label: &str, elems: &[T], keys: &[T::K]) {
  let ops = all_ops(elems, keys);
  // breadth-first enumeration of the model's states
  let mut seen: BTreeSet<String> = BTreeSet::new();
  let mut states: Vec<Vec<T>> = Vec::new();
  let mut q: VecDeque<Vec<T>> = VecDeque::new();
  seen.insert(show_list::<T>(&[]));
  q.push_back(Vec::new());
  while let Some(m) = q.pop_front() {
    for op in &ops {
      let (prim, alt, _) = model_apply(&m, op);
      for e in [Some(prim), alt].into_iter().flatten() {
        if seen.insert(show_list(&e.state)) {
          q.push_back(e.state);
        }
      }
    }
    states.push(m);
  }
  let stride = (1000 / cx.scale.max(1)).max(1);
  let mut hot = Hot::new();
  let mut done = 0u64;
  for (i, m) in states.iter().enumerate() {
    let i = i as u64;
    if !cx.args.mine(i) || (i / cx.args.nshards.max(1)) % stride != 0 {
      continue;
    }
    let Some(set) = build(cx, m, i / cx.args.nshards.max(1)) else { continue };
    done += 1;
    let hist0 = || json!({"state": show_list(m)});
    if !check_state(cx, &set, m, keys, &hist0) {
      continue;
    }
    for op in &ops {
      match step(&set, m, op) {
        Ok(ok) => {
          hot.record(op, m.len(), &ok);
          let h = || json!({"state": show_list(m), "op": op.show()});
          check_state(cx, &ok.set, &ok.model, keys, &h);
        }
        Err(b) => cx.bad(b, json!({"state": show_list(m)})),
      }
    }
  }
  cx.rep.count("oset_closure_states", done);
  cx.rep.note(&format!("closure_{}", label), json!({"states": states.len(), "ops_per_state": ops.len()}));
  hot.flush(&mut cx.rep, "closure", label);
}

// ------------------------------------------------------------------------------------------------
// phase 3: random long sequences
// ------------------------------------------------------------------------------------------------

fn random_sequences<T: Elem>(cx: &mut Ctx, rng: &mut Rng, label: &str, pool_elems: &[T], n_seq: u64, len: usize) {
  let mut hot = Hot::new();
  for _ in 0..n_seq {
    // sub-universe of this sequence
    let ne = 2 + rng.usize(pool_elems.len() - 1);
    let mut elems: Vec<T> = pool_elems.to_vec();
    rng.shuffle(&mut elems);
    elems.truncate(ne);
    let mut keys: Vec<T::K> = Vec::new();
    for e in pool_elems {
      if !keys.contains(&e.hkey()) {
        keys.push(e.hkey());
      }
    }
    // initial state
    let init_len = rng.usize(6);
    let raw: Vec<T> = (0..init_len).map(|_| rng.pick(&elems).clone()).collect();
    let mut model = dedup_first(&raw);
    let mode = rng.below(5);
    let Some(mut set) = build(cx, &model, mode) else { continue };
    let mut hist: Vec<String> = vec![format!("start {} (build path {})", show_list(&model), mode)];
    let this_len = if rng.chance(1, 8) { len * 3 } else { len };
    let mut ok_all = true;
    for s in 0..this_len {
      let op: Op<T> = match rng.below(5) {
        0 => Op::Append(rng.pick(&elems).clone()),
        1 => Op::Prepend(rng.pick(&elems).clone()),
        2 => Op::Update(rng.pick(&elems).clone()),
        3 => Op::Replace(rng.pick(&keys).clone(), rng.pick(&elems).clone()),
        _ => Op::Remove(rng.pick(&keys).clone()),
      };
      hist.push(op.show());
      match step(&set, &model, &op) {
        Ok(ok) => {
          hot.record(&op, model.len(), &ok);
          set = ok.set;
          model = ok.model;
        }
        Err(b) => {
          cx.bad(b, json!(hist));
          ok_all = false;
          break;
        }
      }
      if s % 16 == 15 {
        let h = || json!(hist);
        if !check_state(cx, &set, &model, &keys, &h) {
          ok_all = false;
          break;
        }
      }
    }
    if ok_all {
      let h = || json!(hist);
      check_state(cx, &set, &model, &keys, &h);
      if cx.rep.want_sample() {
        cx.rep.sample(json!({"kind":T::KIND,"history":hist.iter().take(12).collect::<Vec<_>>(),"final":show_list(&model)}));
      }
    }
    cx.rep.inc("oset_random_sequences");
  }
  hot.flush(&mut cx.rep, "rand", label);
}

// ------------------------------------------------------------------------------------------------
// phase 4: every list of length 0..=n over a small universe offered to every constructor and to serde
// ------------------------------------------------------------------------------------------------

fn for_each_list<T: Elem>(universe: &[T], max_len: usize, mut f: impl FnMut(u64, &[T])) {
  let n = universe.len();
  let mut idx = 0u64;
  for len in 0..=max_len {
    let total = (n as u64).pow(len as u32);
    for code in 0..total {
      let mut c = code;
      let mut l: Vec<T> = Vec::with_capacity(len);
      for _ in 0..len {
        l.push(universe[(c % n as u64) as usize].clone());
        c /= n as u64;
      }
      f(idx, &l);
      idx += 1;
    }
  }
}

fn oset_lists<T: Elem>(cx: &mut Ctx, universe: &[T], max_len: usize) {
  let mut keys: Vec<T::K> = Vec::new();
  for e in universe {
    if !keys.contains(&e.hkey()) {
      keys.push(e.hkey());
    }
  }
  let args = cx.args.clone();
  let stride = (1000 / cx.scale.max(1)).max(1).min(16);
  let mut lists: Vec<Vec<T>> = Vec::new();
  for_each_list(universe, max_len, |i, l| {
    if args.mine(i) && (l.len() <= 2 || (i / args.nshards.max(1)) % stride == 0) {
      lists.push(l.to_vec());
    }
  });
  for l in &lists {
    cx.rep.eval();
    cx.rep.inc("oset_list_cases");
    let uniq = keys_unique(l);
    let dedup = dedup_first(l);
    let ls = show_list(l);
    cx.rep.distinct("nontrivial", &format!("oset-list|{}|len{}|uniq{}|dedup{}", T::KIND, l.len(), uniq, dedup.len()));
    let hist = || json!({"list": show_list(l)});
    // TryFrom<Vec<T>>
    match catch(|| OrderedSet::try_from(l.clone())) {
      Ok(Ok(s)) => {
        cx.rep.inc("oset_tryfrom_accepted");
        if !uniq {
          cx.rep.violation("oset-tryfrom-accepts-duplicates", &format!("[{}] OrderedSet::try_from({}) accepted", T::KIND, ls), json!({"kind":T::KIND,"list":ls}));
        } else {
          check_state(cx, &s, l, &keys, &hist);
        }
      }
      Ok(Err(_)) => {
        cx.rep.inc("oset_tryfrom_rejected");
        if uniq {
          cx.rep.violation("oset-tryfrom-rejects-unique", &format!("[{}] OrderedSet::try_from({}) rejected", T::KIND, ls), json!({"kind":T::KIND,"list":ls}));
        }
      }
      Err(p) => cx.rep.violation(&format!("oset-tryfrom-panic@{}", p.file_only()), &format!("try_from({}) panicked: {}", ls, p.msg), json!({"list":ls})),
    }
    // FromIterator under different honest size hints: first occurrences are kept
    let n = l.len();
    let hints: [(&str, (usize, Option<usize>)); 5] =
      [("exact", (n, Some(n))), ("unbounded", (0, None)), ("loose", (0, Some(n + 3))), ("lower-only", (n, None)), ("loose-upper-max", (0, Some(usize::MAX)))];
    for (hname, h) in hints {
      match catch(|| hinted(l.clone(), h).collect::<OrderedSet<T>>()) {
        Ok(s) => {
          cx.rep.inc("oset_collect_checked");
          let got = catch(|| s.as_slice().to_vec()).unwrap_or_default();
          if got != dedup {
            cx.rep.violation(
              "oset-collect-content",
              &format!("[{}] collect({}) = {} but first occurrences are {}", T::KIND, ls, show_list(&got), show_list(&dedup)),
              json!({"kind":T::KIND,"list":ls,"hint":hname}),
            );
          } else if hname == "exact" {
            check_state(cx, &s, &dedup, &keys, &hist);
          }
        }
        Err(p) => cx.rep.violation(
          &format!("oset-collect-panic:{}", hname),
          &format!(
            "[{}] collecting {} from an iterator whose (honest) size_hint is {:?} panicked: {} at {}",
            T::KIND, ls, h, p.msg, p.loc()
          ),
          json!({"kind":T::KIND,"list":ls,"size_hint":format!("{:?}", h)}),
        ),
      }
    }
    // serde: JSON array
    let js = jarr(l).to_string();
    match catch(|| OrderedSet::<T>::from_json(&js)) {
      Ok(Ok(s)) => {
        cx.rep.inc("json_accepted");
        if !uniq {
          cx.rep.violation("oset-json-accepts-duplicates", &format!("[{}] OrderedSet::from_json({}) accepted", T::KIND, js), json!({"kind":T::KIND,"json":js}));
        } else {
          check_state(cx, &s, l, &keys, &hist);
        }
      }
      Ok(Err(_)) => {
        cx.rep.inc("json_rejected");
        if uniq {
          cx.rep.violation("oset-json-rejects-unique", &format!("[{}] OrderedSet::from_json({}) rejected", T::KIND, js), json!({"kind":T::KIND,"json":js}));
        }
      }
      Err(p) => cx.rep.violation(&format!("oset-json-panic@{}", p.file_only()), &format!("from_json({}) panicked: {}", js, p.msg), json!({"json":js})),
    }
  }
}

// ------------------------------------------------------------------------------------------------
// phase 5: OneOrSet
// ------------------------------------------------------------------------------------------------

fn universe_keys<T: Elem>(universe: &[T]) -> Vec<T::K> {
  let mut keys: Vec<T::K> = Vec::new();
  for e in universe {
    if !keys.contains(&e.hkey()) {
      keys.push(e.hkey());
    }
  }
  keys
}

/// Full observation of a OneOrSet that must hold exactly `model` (non-empty, duplicate-free).
/// `ctor`: built through constructors/operations only (then a singleton must serialise bare).
fn check_oos<T: Elem>(cx: &mut Ctx, v: &OneOrSet<T>, model: &[T], keys: &[T::K], ctor: bool, origin: &str, hist: &dyn Fn() -> Value) -> bool {
  cx.rep.inc("oneorset_checks");
  let r = catch(|| {
    let sl = v.as_slice().to_vec();
    let it: Vec<T> = v.iter().cloned().collect();
    let de: Vec<T> = (**v).to_vec();
    let ar: Vec<T> = v.as_ref().to_vec();
    let gets: Vec<Option<T>> = (0..=v.len() + 1).map(|i| v.get(i).cloned()).collect();
    let cont: Vec<bool> = keys.iter().map(|k| v.contains(&T::key_arg(k))).collect();
    let cl = v.clone();
    let cl_eq = &cl == v;
    let iv = cl.clone().into_vec();
    let vv: Vec<T> = Vec::from(cl.clone());
    let os: Vec<T> = OrderedSet::from(cl).into_vec();
    let _ = format!("{:?}", v);
    (sl, it, de, ar, gets, cont, cl_eq, iv, vv, os, v.len())
  });
  let (sl, it, de, ar, gets, cont, cl_eq, iv, vv, os, len) = match r {
    Ok(x) => x,
    Err(p) => {
      cx.rep.violation(
        &format!("oneorset-accessor-panic@{}", p.file_only()),
        &format!("[{}] accessor on OneOrSet {} ({}) panicked: {} at {}", T::KIND, show_list(model), origin, p.msg, p.loc()),
        json!({"kind":T::KIND,"state":show_list(model),"origin":origin,"history":hist()}),
      );
      return false;
    }
  };
  if sl.is_empty() {
    cx.rep.violation(&format!("oneorset-empty:{}", origin), &format!("[{}] an empty OneOrSet exists ({})", T::KIND, origin), json!({"kind":T::KIND,"origin":origin,"history":hist()}));
    return false;
  }
  if !keys_unique(&sl) {
    cx.rep.violation(
      &format!("oneorset-duplicate-keys:{}", origin),
      &format!("[{}] OneOrSet holds duplicate keys: {} ({})", T::KIND, show_list(&sl), origin),
      json!({"kind":T::KIND,"observed":show_list(&sl),"origin":origin,"history":hist()}),
    );
    return false;
  }
  let mut wrong: Vec<&str> = Vec::new();
  if sl != model {
    wrong.push("as_slice");
  }
  if it != model {
    wrong.push("iter");
  }
  if de != model || ar != model {
    wrong.push("deref");
  }
  if iv != model || vv != model {
    wrong.push("into_vec");
  }
  if os != model {
    wrong.push("into-ordered-set");
  }
  if len != model.len() {
    wrong.push("len");
  }
  if !cl_eq {
    wrong.push("clone-eq");
  }
  for (i, g) in gets.iter().enumerate() {
    if g.as_ref() != model.get(i) {
      wrong.push("get");
      break;
    }
  }
  for (i, k) in keys.iter().enumerate() {
    if cont[i] != mpos(model, k).is_some() {
      wrong.push("contains");
      break;
    }
  }
  if let Some(w) = wrong.first() {
    cx.rep.violation(
      &format!("oneorset-content:{}:{}", origin, w),
      &format!("[{}] OneOrSet observed as {} but the model holds {} ({}; disagreeing {:?})", T::KIND, show_list(&sl), show_list(model), origin, wrong),
      json!({"kind":T::KIND,"state":show_list(model),"observed":show_list(&sl),"origin":origin,"history":hist()}),
    );
    return false;
  }
  // JSON
  match catch(|| v.to_json()) {
    Ok(Ok(js)) => {
      let val: Option<Value> = serde_json::from_str(&js).ok();
      let bare = model.len() == 1 && val.as_ref() == Some(&model[0].jval());
      let array = val.as_ref() == Some(&jarr(model));
      if model.len() == 1 && ctor {
        if bare {
          cx.rep.inc("oneorset_singleton_bare");
        } else {
          cx.rep.violation(
            &format!("oneorset-singleton-not-bare:{}", origin),
            &format!("[{}] singleton OneOrSet {} built by {} serialises as {}", T::KIND, show_list(model), origin, js),
            json!({"kind":T::KIND,"state":show_list(model),"json":js,"origin":origin,"history":hist()}),
          );
          return false;
        }
      } else if !(array || bare) {
        cx.rep.violation(
          "oneorset-json-form",
          &format!("[{}] OneOrSet {} serialises as {}", T::KIND, show_list(model), js),
          json!({"kind":T::KIND,"state":show_list(model),"json":js,"origin":origin,"history":hist()}),
        );
        return false;
      }
      match catch(|| OneOrSet::<T>::from_json(&js).map(|b| (&b == v, b.as_slice().to_vec()))) {
        Ok(Ok((true, c))) if c == model => {
          cx.rep.inc("json_roundtrips");
          if let Err((path, what)) = own_json_other_paths(v, val.as_ref().unwrap_or(&Value::Null)) {
            cx.rep.violation(
              &format!("oneorset-json-roundtrip:{}", path),
              &format!("[{}] OneOrSet {} ({}): {}", T::KIND, show_list(model), origin, what),
              json!({"kind":T::KIND,"state":show_list(model),"json":js,"origin":origin,"path":path,"history":hist()}),
            );
            return false;
          }
          cx.rep.inc("json_other_path_roundtrips");
        }
        Ok(other) => {
          cx.rep.violation(
            "oneorset-json-roundtrip",
            &format!("[{}] own JSON {} of OneOrSet ({}) does not deserialise to an equal value: {:?}", T::KIND, js, origin, other.map(|(e, c)| (e, show_list(&c))).map_err(|e| e.to_string())),
            json!({"kind":T::KIND,"state":show_list(model),"json":js,"origin":origin,"history":hist()}),
          );
          return false;
        }
        Err(p) => {
          cx.rep.violation(&format!("oneorset-json-panic@{}", p.file_only()), &format!("from_json({}) panicked: {}", js, p.msg), json!({"json":js}));
          return false;
        }
      }
    }
    Ok(Err(e)) => {
      cx.rep.violation("oneorset-json-form", &format!("to_json failed on {}: {}", show_list(model), e), json!({"state":show_list(model)}));
      return false;
    }
    Err(p) => {
      cx.rep.violation(&format!("oneorset-json-panic@{}", p.file_only()), &format!("to_json panicked: {}", p.msg), json!({"state":show_list(model)}));
      return false;
    }
  }
  true
}

/// Judges a constructor outcome for a list `l`: must be rejected iff empty or (when `dups_matter`) duplicate keys.
fn judge_oos_ctor<T: Elem, E: std::fmt::Display>(
  cx: &mut Ctx,
  res: Result<Result<OneOrSet<T>, E>, vh::panicmon::PanicRec>,
  l: &[T],
  expect_content: &[T],
  must_reject: Option<&str>,
  keys: &[T::K],
  ctor: bool,
  origin: &str,
) -> Option<OneOrSet<T>> {
  let ls = show_list(l);
  match res {
    Err(p) => {
      cx.rep.violation(&format!("oneorset-{}-panic@{}", origin, p.file_only()), &format!("[{}] {}({}) panicked: {} at {}", T::KIND, origin, ls, p.msg, p.loc()), json!({"kind":T::KIND,"input":ls}));
      None
    }
    Ok(Ok(v)) => {
      cx.rep.inc("oneorset_accepted");
      if let Some(why) = must_reject {
        cx.rep.violation(
          &format!("oneorset-accepts-{}:{}", why, origin),
          &format!("[{}] OneOrSet {}({}) accepted although the input is {}", T::KIND, origin, ls, why),
          json!({"kind":T::KIND,"input":ls,"origin":origin}),
        );
        return None;
      }
      let hist = || json!({"input": show_list(l), "origin": origin});
      if check_oos(cx, &v, expect_content, keys, ctor, origin, &hist) {
        Some(v)
      } else {
        None
      }
    }
    Ok(Err(e)) => {
      match must_reject {
        Some("empty") => cx.rep.inc("oneorset_rejected_empty"),
        Some(_) => cx.rep.inc("oneorset_rejected_duplicates"),
        None => cx.rep.violation(
          &format!("oneorset-rejects-valid:{}", origin),
          &format!("[{}] OneOrSet {}({}) rejected a non-empty duplicate-free input: {}", T::KIND, origin, ls, e),
          json!({"kind":T::KIND,"input":ls,"origin":origin}),
        ),
      }
      None
    }
  }
}

fn oos_appends<T: Elem>(cx: &mut Ctx, start: &OneOrSet<T>, model: &[T], universe: &[T], keys: &[T::K], ctor: bool, depth: usize, hist: &mut Vec<String>) {
  for x in universe {
    let want_flag = mpos(model, &x.hkey()).is_none();
    let mut want = model.to_vec();
    if want_flag {
      want.push(x.clone());
    }
    hist.push(format!("append({})", x.show()));
    cx.rep.inc("oneorset_append_checked");
    match catch(|| {
      let mut v = start.clone();
      let f = v.append(x.clone());
      (v, f)
    }) {
      Err(p) => cx.rep.violation(&format!("oneorset-append-panic@{}", p.file_only()), &format!("append({}) on {} panicked: {}", x.show(), show_list(model), p.msg), json!({"history":hist})),
      Ok((v, f)) => {
        if f != want_flag {
          cx.rep.violation(
            "oneorset-append-result",
            &format!("[{}] OneOrSet {}.append({}) returned {}", T::KIND, show_list(model), x.show(), f),
            json!({"kind":T::KIND,"history":hist}),
          );
        } else {
          let h = || json!(hist);
          // a value that came out of serde as a one-element array stays outside the "built by constructors" rule until it grows
          let ctor_now = ctor || want.len() > 1;
          if check_oos(cx, &v, &want, keys, ctor_now, "append", &h) && depth > 1 {
            oos_appends(cx, &v, &want, universe, keys, ctor_now, depth - 1, hist);
          }
        }
      }
    }
    hist.pop();
  }
}

/// `map`/`try_map`: the statement only demands non-emptiness, key uniqueness and normalisation of the result;
/// additionally every result element must be an image and every image key must be represented.
fn oos_map<T: Elem, S: Elem>(cx: &mut Ctx, src: &OneOrSet<T>, model: &[T], fname: &str, f: &dyn Fn(&T) -> S, fails: &dyn Fn(&T) -> bool) {
  let images: Vec<S> = model.iter().map(f).collect();
  let any_fail = model.iter().any(fails);
  let skeys = universe_keys(&images);
  for try_variant in [false, true] {
    if !try_variant && any_fail {
      continue;
    }
    cx.rep.inc("oneorset_map_checked");
    let origin = if try_variant { "try_map" } else { "map" };
    let r: Result<Result<OneOrSet<S>, String>, _> = catch(|| {
      if try_variant {
        src.clone().try_map(|t| if fails(&t) { Err(t.show()) } else { Ok(f(&t)) })
      } else {
        Ok(src.clone().map(|t| f(&t)))
      }
    });
    let desc = format!("[{}->{}] {}({}) on {}", T::KIND, S::KIND, origin, fname, show_list(model));
    match r {
      Err(p) => cx.rep.violation(&format!("oneorset-{}-panic@{}", origin, p.file_only()), &format!("{} panicked: {} at {}", desc, p.msg, p.loc()), json!({"case":desc})),
      Ok(Err(_)) => {
        if !any_fail {
          cx.rep.violation("oneorset-try_map-spurious-error", &format!("{} failed although the closure never failed", desc), json!({"case":desc}));
        }
      }
      Ok(Ok(out)) => {
        if any_fail {
          // the closure's error was swallowed; the statement does not speak about it, only the invariants are judged
          cx.rep.inc("oneorset_try_map_error_swallowed");
        }
        let got = catch(|| out.as_slice().to_vec()).unwrap_or_default();
        let sub = got.iter().all(|g| images.iter().any(|i| i == g));
        let covered = any_fail || images.iter().all(|i| got.iter().any(|g| g.hkey() == i.hkey()));
        if !sub || !covered {
          cx.rep.violation(
            &format!("oneorset-{}-content", origin),
            &format!("{} = {}; images are {}", desc, show_list(&got), show_list(&images)),
            json!({"case":desc,"got":show_list(&got),"images":show_list(&images)}),
          );
        } else {
          let h = || json!({"case": desc});
          // judge the invariants against what the library holds (its choice among equal-key images is free)
          check_oos(cx, &out, &got, &skeys, true, origin, &h);
        }
      }
    }
  }
}

trait MapSuite: Elem {
  fn map_suite(cx: &mut Ctx, src: &OneOrSet<Self>, model: &[Self]);
}
impl MapSuite for u8 {
  fn map_suite(cx: &mut Ctx, src: &OneOrSet<u8>, model: &[u8]) {
    let never = |_: &u8| false;
    oos_map::<u8, u8>(cx, src, model, "x%2", &|x| x % 2, &never);
    oos_map::<u8, u8>(cx, src, model, "const", &|_| 7, &never);
    oos_map::<u8, u8>(cx, src, model, "id", &|x| *x, &|x| *x == 2);
    oos_map::<u8, P>(cx, src, model, "P{k:x/2,v:x}", &|x| P { k: x / 2, v: *x }, &never);
    oos_map::<u8, String>(cx, src, model, "str(x%3)", &|x| (x % 3).to_string(), &|x| *x == 0);
    oos_map::<u8, Tup>(cx, src, model, "Tup(x/2,x)", &|x| Tup(x / 2, *x), &never);
    oos_map::<u8, Nul>(cx, src, model, "Nul(odd?x:null)", &|x| Nul(if x % 2 == 1 { Some(*x) } else { None }), &never);
    oos_map::<u8, En>(cx, src, model, "En(x)", &|x| match x % 3 { 0 => En::A, 1 => En::B(*x), _ => En::C(*x, 0) }, &|x| *x == 4);
  }
}
impl MapSuite for P {
  fn map_suite(cx: &mut Ctx, src: &OneOrSet<P>, model: &[P]) {
    let never = |_: &P| false;
    oos_map::<P, u8>(cx, src, model, "p.v", &|p| p.v, &never);
    oos_map::<P, u8>(cx, src, model, "p.k", &|p| p.k, &|p| p.v == 1 && p.k == 2);
    oos_map::<P, P>(cx, src, model, "swap", &|p| P { k: p.v, v: p.k }, &never);
    oos_map::<P, P>(cx, src, model, "P{k:0,v:p.k}", &|p| P { k: 0, v: p.k }, &never);
    oos_map::<P, String>(cx, src, model, "str(p.v)", &|p| p.v.to_string(), &never);
  }
}
impl MapSuite for Tup {
  fn map_suite(cx: &mut Ctx, src: &OneOrSet<Tup>, model: &[Tup]) {
    let never = |_: &Tup| false;
    oos_map::<Tup, u8>(cx, src, model, "t.1", &|t| t.1, &never);
    oos_map::<Tup, Tup>(cx, src, model, "swap", &|t| Tup(t.1, t.0), &|t| t.0 == 3);
    oos_map::<Tup, Tup>(cx, src, model, "Tup(0,t.0)", &|t| Tup(0, t.0), &never);
    oos_map::<Tup, Nul>(cx, src, model, "Nul(t.1>0?t.0:null)", &|t| Nul(if t.1 > 0 { Some(t.0) } else { None }), &never);
    oos_map::<Tup, P>(cx, src, model, "P{k:t.0,v:t.1}", &|t| P { k: t.0, v: t.1 }, &never);
  }
}
impl MapSuite for Nul {
  fn map_suite(cx: &mut Ctx, src: &OneOrSet<Nul>, model: &[Nul]) {
    let never = |_: &Nul| false;
    oos_map::<Nul, Nul>(cx, src, model, "null", &|_| Nul(None), &never);
    oos_map::<Nul, Nul>(cx, src, model, "id", &|n| *n, &|n| n.0 == Some(1));
    oos_map::<Nul, Tup>(cx, src, model, "Tup(n?1:0,n|0)", &|n| Tup(n.0.is_some() as u8, n.0.unwrap_or(0)), &never);
    oos_map::<Nul, u8>(cx, src, model, "n|9", &|n| n.0.unwrap_or(9), &never);
  }
}
impl MapSuite for En {
  fn map_suite(cx: &mut Ctx, src: &OneOrSet<En>, model: &[En]) {
    let never = |_: &En| false;
    oos_map::<En, En>(cx, src, model, "A", &|_| En::A, &never);
    oos_map::<En, Tup>(cx, src, model, "Tup(variant,payload)", &|e| match e { En::A => Tup(0, 0), En::B(x) => Tup(1, *x), En::C(x, _) => Tup(2, *x) }, &never);
    oos_map::<En, Nul>(cx, src, model, "Nul(payload)", &|e| match e { En::A => Nul(None), En::B(x) => Nul(Some(*x)), En::C(_, y) => Nul(Some(*y)) }, &|e| *e == En::B(2));
  }
}
impl MapSuite for String {
  fn map_suite(cx: &mut Ctx, src: &OneOrSet<String>, model: &[String]) {
    let never = |_: &String| false;
    oos_map::<String, u8>(cx, src, model, "len", &|s| s.len() as u8, &never);
    oos_map::<String, String>(cx, src, model, "lower", &|s| s.to_lowercase(), &|s| s.is_empty());
  }
}

impl<X: LibVal> MapSuite for W<X> {
  fn map_suite(cx: &mut Ctx, src: &OneOrSet<W<X>>, model: &[W<X>]) {
    let never = |_: &W<X>| false;
    // images collide exactly where the harness's string keys collide
    oos_map::<W<X>, String>(cx, src, model, "str", &|w| w.0.s(), &never);
    oos_map::<W<X>, W<X>>(cx, src, model, "trim-trailing-slashes", &|w| X::parse(w.0.s().trim_end_matches('/')).map(W).unwrap_or_else(|| w.clone()), &never);
    oos_map::<W<X>, W<X>>(cx, src, model, "id", &|w| w.clone(), &|w| w.0.s().ends_with("//"));
    oos_map::<W<X>, String>(cx, src, model, "lower", &|w| w.0.s().to_lowercase(), &never);
    oos_map::<W<X>, u8>(cx, src, model, "len%3", &|w| (w.0.s().len() % 3) as u8, &never);
  }
}

fn oos_lists<T: MapSuite>(cx: &mut Ctx, universe: &[T], max_len: usize, append_depth: usize) {
  let keys = universe_keys(universe);
  let args = cx.args.clone();
  let stride = (1000 / cx.scale.max(1)).max(1).min(16);
  let mut lists: Vec<Vec<T>> = Vec::new();
  for_each_list(universe, max_len, |i, l| {
    if args.mine(i) && (l.len() <= 2 || (i / args.nshards.max(1)) % stride == 0) {
      lists.push(l.to_vec());
    }
  });
  for l in &lists {
    cx.rep.eval();
    cx.rep.inc("oneorset_list_cases");
    let uniq = keys_unique(l);
    let dedup = dedup_first(l);
    cx.rep.distinct("nontrivial", &format!("oneorset|{}|len{}|uniq{}|dedup{}", T::KIND, l.len(), uniq, dedup.len()));
    let reject = if l.is_empty() { Some("empty") } else if !uniq { Some("duplicates") } else { None };
    // TryFrom<Vec<T>>
    let a = judge_oos_ctor(cx, catch(|| OneOrSet::try_from(l.clone())), l, l, reject, &keys, true, "try_from_vec");
    // new_set / TryFrom<OrderedSet> on the collected (first-occurrence) set
    let empty_only = if l.is_empty() { Some("empty") } else { None };
    let b = judge_oos_ctor(cx, catch(|| OneOrSet::new_set(l.iter().cloned().collect::<OrderedSet<T>>())), l, &dedup, empty_only, &keys, true, "new_set");
    judge_oos_ctor(cx, catch(|| OneOrSet::try_from(l.iter().cloned().collect::<OrderedSet<T>>())), l, &dedup, empty_only, &keys, true, "try_from_set");
    // serde, JSON array
    let js = jarr(l).to_string();
    let c = judge_oos_ctor(cx, catch(|| OneOrSet::<T>::from_json(&js)), l, l, reject, &keys, false, "from_json");
    if l.len() == 1 {
      judge_oos_ctor(cx, catch(|| Ok::<_, String>(OneOrSet::new_one(l[0].clone()))), l, l, None, &keys, true, "new_one");
      judge_oos_ctor(cx, catch(|| Ok::<_, String>(OneOrSet::from(l[0].clone()))), l, l, None, &keys, true, "from_value");
      // serde, bare value
      judge_oos_ctor(cx, catch(|| OneOrSet::<T>::from_json(&l[0].jval().to_string())), l, l, None, &keys, true, "from_json_bare");
    }
    for (v, model, ctor) in [(a, l.clone(), true), (b, dedup.clone(), true), (c, l.clone(), false)] {
      let Some(v) = v else { continue };
      let mut hist = vec![format!("start {}{}", show_list(&model), if ctor { "" } else { " (from JSON array)" })];
      oos_appends(cx, &v, &model, universe, &keys, ctor, append_depth, &mut hist);
      T::map_suite(cx, &v, &model);
    }
  }
}

// ------------------------------------------------------------------------------------------------
// phase 6: OneOrMany
// ------------------------------------------------------------------------------------------------

fn check_oom<T: Elem>(cx: &mut Ctx, v: &OneOrMany<T>, model: &[T], ctor: bool, origin: &str, hist: &dyn Fn() -> Value) -> bool {
  cx.rep.inc("oneormany_checks");
  let probe: Vec<T> = model.to_vec();
  let r = catch(|| {
    let sl = v.as_slice().to_vec();
    let it: Vec<T> = v.iter().cloned().collect();
    let de: Vec<T> = (**v).to_vec();
    let ar: Vec<T> = v.as_ref().to_vec();
    let gets: Vec<Option<T>> = (0..=v.len() + 1).map(|i| v.get(i).cloned()).collect();
    let mut cl = v.clone();
    let cl_eq = &cl == v;
    let gm: Vec<Option<T>> = (0..=v.len() + 1).map(|i| cl.get_mut(i).cloned()).collect();
    let cont = probe.iter().all(|e| v.contains(e));
    let iv = cl.clone().into_vec();
    let vv: Vec<T> = Vec::from(cl.clone());
    let ii: Vec<T> = cl.into_iter().collect();
    let _ = format!("{:?}", v);
    (sl, it, de, ar, gets, gm, cont, cl_eq, iv, vv, ii, v.len(), v.is_empty())
  });
  let (sl, it, de, ar, gets, gm, cont, cl_eq, iv, vv, ii, len, emp) = match r {
    Ok(x) => x,
    Err(p) => {
      cx.rep.violation(
        &format!("oneormany-accessor-panic@{}", p.file_only()),
        &format!("[{}] accessor on OneOrMany {} ({}) panicked: {} at {}", T::KIND, show_list(model), origin, p.msg, p.loc()),
        json!({"kind":T::KIND,"state":show_list(model),"origin":origin,"history":hist()}),
      );
      return false;
    }
  };
  let mut wrong: Vec<&str> = Vec::new();
  if sl != model {
    wrong.push("as_slice");
  }
  if it != model || ii != model {
    wrong.push("iter");
  }
  if de != model || ar != model {
    wrong.push("deref");
  }
  if iv != model || vv != model {
    wrong.push("into_vec");
  }
  if len != model.len() || emp != model.is_empty() {
    wrong.push("len");
  }
  if !cl_eq {
    wrong.push("clone-eq");
  }
  if !cont {
    wrong.push("contains");
  }
  for (i, g) in gets.iter().enumerate() {
    if g.as_ref() != model.get(i) || gm[i].as_ref() != model.get(i) {
      wrong.push("get");
      break;
    }
  }
  if let Some(w) = wrong.first() {
    cx.rep.violation(
      &format!("oneormany-content:{}:{}", origin, w),
      &format!("[{}] OneOrMany observed as {} but the model holds {} ({}; disagreeing {:?})", T::KIND, show_list(&sl), show_list(model), origin, wrong),
      json!({"kind":T::KIND,"state":show_list(model),"observed":show_list(&sl),"origin":origin,"history":hist()}),
    );
    return false;
  }
  match catch(|| v.to_json()) {
    Ok(Ok(js)) => {
      let val: Option<Value> = serde_json::from_str(&js).ok();
      let bare = model.len() == 1 && val.as_ref() == Some(&model[0].jval());
      let array = val.as_ref() == Some(&jarr(model));
      if model.len() == 1 && ctor {
        if bare {
          cx.rep.inc("oneormany_singleton_bare");
        } else {
          cx.rep.violation(
            &format!("oneormany-singleton-not-bare:{}", origin),
            &format!("[{}] singleton OneOrMany {} built by {} serialises as {}", T::KIND, show_list(model), origin, js),
            json!({"kind":T::KIND,"state":show_list(model),"json":js,"origin":origin,"history":hist()}),
          );
          return false;
        }
      } else if !(array || bare) {
        cx.rep.violation(
          "oneormany-json-form",
          &format!("[{}] OneOrMany {} serialises as {}", T::KIND, show_list(model), js),
          json!({"kind":T::KIND,"state":show_list(model),"json":js,"origin":origin,"history":hist()}),
        );
        return false;
      }
      match catch(|| OneOrMany::<T>::from_json(&js).map(|b| (&b == v, b.as_slice().to_vec()))) {
        Ok(Ok((true, c))) if c == model => {
          cx.rep.inc("json_roundtrips");
          if let Err((path, what)) = own_json_other_paths(v, val.as_ref().unwrap_or(&Value::Null)) {
            cx.rep.violation(
              &format!("oneormany-json-roundtrip:{}", path),
              &format!("[{}] OneOrMany {} ({}): {}", T::KIND, show_list(model), origin, what),
              json!({"kind":T::KIND,"state":show_list(model),"json":js,"origin":origin,"path":path,"history":hist()}),
            );
            return false;
          }
          cx.rep.inc("json_other_path_roundtrips");
        }
        Ok(other) => {
          cx.rep.violation(
            "oneormany-json-roundtrip",
            &format!("[{}] own JSON {} of OneOrMany ({}) does not deserialise to an equal value: {:?}", T::KIND, js, origin, other.map(|(e, c)| (e, show_list(&c))).map_err(|e| e.to_string())),
            json!({"kind":T::KIND,"state":show_list(model),"json":js,"origin":origin,"history":hist()}),
          );
          return false;
        }
        Err(p) => {
          cx.rep.violation(&format!("oneormany-json-panic@{}", p.file_only()), &format!("from_json({}) panicked: {}", js, p.msg), json!({"json":js}));
          return false;
        }
      }
    }
    Ok(Err(e)) => {
      cx.rep.violation("oneormany-json-form", &format!("to_json failed on {}: {}", show_list(model), e), json!({"state":show_list(model)}));
      return false;
    }
    Err(p) => {
      cx.rep.violation(&format!("oneormany-json-panic@{}", p.file_only()), &format!("to_json panicked: {}", p.msg), json!({"state":show_list(model)}));
      return false;
    }
  }
  true
}

fn oom_pushes<T: Elem>(cx: &mut Ctx, start: &OneOrMany<T>, model: &[T], universe: &[T], ctor: bool, depth: usize, hist: &mut Vec<String>) {
  for x in universe {
    let mut want = model.to_vec();
    want.push(x.clone());
    hist.push(format!("push({})", x.show()));
    cx.rep.inc("oneormany_push_checked");
    match catch(|| {
      let mut v = start.clone();
      v.push(x.clone());
      v
    }) {
      Err(p) => cx.rep.violation(&format!("oneormany-push-panic@{}", p.file_only()), &format!("push({}) on {} panicked: {}", x.show(), show_list(model), p.msg), json!({"history":hist})),
      Ok(v) => {
        let h = || json!(hist);
        if check_oom(cx, &v, &want, ctor, "push", &h) && depth > 1 {
          oom_pushes(cx, &v, &want, universe, ctor, depth - 1, hist);
        }
      }
    }
    hist.pop();
  }
}

fn oom_lists<T: Elem>(cx: &mut Ctx, universe: &[T], max_len: usize, push_depth: usize) {
  let args = cx.args.clone();
  let stride = (1000 / cx.scale.max(1)).max(1).min(16);
  let mut lists: Vec<Vec<T>> = Vec::new();
  for_each_list(universe, max_len, |i, l| {
    if args.mine(i) && (l.len() <= 2 || (i / args.nshards.max(1)) % stride == 0) {
      lists.push(l.to_vec());
    }
  });
  for l in &lists {
    cx.rep.eval();
    cx.rep.inc("oneormany_list_cases");
    cx.rep.distinct("nontrivial", &format!("oneormany|{}|len{}|uniq{}", T::KIND, l.len(), keys_unique(l)));
    let ls = show_list(l);
    let hist = || json!({"input": show_list(l)});
    let mut starts: Vec<(OneOrMany<T>, bool)> = Vec::new();
    // From<Vec<T>>
    match catch(|| OneOrMany::from(l.clone())) {
      Ok(v) => {
        if check_oom(cx, &v, l, true, "from_vec", &hist) {
          starts.push((v, true));
        }
      }
      Err(p) => cx.rep.violation(&format!("oneormany-from_vec-panic@{}", p.file_only()), &format!("OneOrMany::from({}) panicked: {}", ls, p.msg), json!({"input":ls})),
    }
    // the public variants, built directly: whatever their form, their own JSON must deserialise to an equal value
    match catch(|| OneOrMany::Many(l.clone())) {
      Ok(v) => {
        check_oom(cx, &v, l, false, "variant_many", &hist);
      }
      Err(p) => cx.rep.violation(&format!("oneormany-variant-panic@{}", p.file_only()), &p.msg, json!({"input":ls})),
    }
    if l.len() == 1 {
      if let Ok(v) = catch(|| OneOrMany::One(l[0].clone())) {
        check_oom(cx, &v, l, true, "variant_one", &hist);
      }
    }
    // FromIterator under honest and dishonest (small) size hints
    let n = l.len();
    let hints: [(usize, Option<usize>); 10] =
      [(n, Some(n)), (0, None), (0, Some(0)), (0, Some(1)), (1, Some(1)), (1, None), (1, Some(0)), (2, Some(1)), (0, Some(usize::MAX)), (n, None)];
    for h in hints {
      match catch(|| hinted(l.clone(), h).collect::<OneOrMany<T>>()) {
        Ok(v) => {
          cx.rep.inc("oneormany_collect_checked");
          let hh = || json!({"input": show_list(l), "size_hint": format!("{:?}", h)});
          check_oom(cx, &v, l, true, "from_iter", &hh);
        }
        Err(p) => cx.rep.violation(
          &format!("oneormany-from_iter-panic@{}", p.file_only()),
          &format!("collect of {} with size_hint {:?} panicked: {} at {}", ls, h, p.msg, p.loc()),
          json!({"input":ls,"size_hint":format!("{:?}", h)}),
        ),
      }
    }
    if l.is_empty() {
      match catch(OneOrMany::<T>::default) {
        Ok(v) => {
          if check_oom(cx, &v, l, true, "default", &hist) {
            starts.push((v, true));
          }
        }
        Err(p) => cx.rep.violation(&format!("oneormany-default-panic@{}", p.file_only()), &p.msg, json!({})),
      }
    }
    if l.len() == 1 {
      if let Ok(v) = catch(|| <OneOrMany<T> as From<T>>::from(l[0].clone())) {
        check_oom(cx, &v, l, true, "from_value", &hist);
      }
      match catch(|| OneOrMany::<T>::from_json(&l[0].jval().to_string())) {
        Ok(Ok(v)) => {
          cx.rep.inc("json_accepted");
          check_oom(cx, &v, l, true, "from_json_bare", &hist);
        }
        Ok(Err(e)) => cx.rep.violation("oneormany-json-rejects-valid", &format!("[{}] bare value {} rejected: {}", T::KIND, l[0].jval(), e), json!({"input":ls})),
        Err(p) => cx.rep.violation(&format!("oneormany-json-panic@{}", p.file_only()), &p.msg, json!({"input":ls})),
      }
    }
    // serde: JSON array (duplicates and emptiness are allowed here)
    let js = jarr(l).to_string();
    match catch(|| OneOrMany::<T>::from_json(&js)) {
      Ok(Ok(v)) => {
        cx.rep.inc("json_accepted");
        if check_oom(cx, &v, l, false, "from_json", &hist) {
          starts.push((v, false));
        }
      }
      Ok(Err(e)) => cx.rep.violation("oneormany-json-rejects-valid", &format!("[{}] OneOrMany::from_json({}) rejected: {}", T::KIND, js, e), json!({"json":js})),
      Err(p) => cx.rep.violation(&format!("oneormany-json-panic@{}", p.file_only()), &format!("from_json({}) panicked: {}", js, p.msg), json!({"json":js})),
    }
    // get_mut writes through
    if !l.is_empty() {
      let i = l.len() - 1;
      let x = universe[0].clone();
      let mut want = l.clone();
      want[i] = x.clone();
      if let Ok(v) = catch(|| {
        let mut v = OneOrMany::from(l.clone());
        if let Some(slot) = v.get_mut(i) {
          *slot = x.clone();
        }
        v
      }) {
        check_oom(cx, &v, &want, true, "get_mut", &hist);
      }
    }
    for (v, ctor) in starts {
      // a deserialised one-element array is outside the "built by constructors" rule; once pushed to it has >= 2 elements
      let mut h = vec![format!("start {}{}", ls, if ctor { "" } else { " (from JSON array)" })];
      oom_pushes(cx, &v, l, universe, true, push_depth, &mut h);
    }
  }
}

// ------------------------------------------------------------------------------------------------
// phase 7: other JSON values offered for deserialisation: totality + invariants of whatever is accepted
// ------------------------------------------------------------------------------------------------

fn hostile_json<T: MapSuite>(cx: &mut Ctx, universe: &[T]) {
  let keys = universe_keys(universe);
  let e0 = universe[0].jval().to_string();
  let e1 = universe[universe.len() - 1].jval().to_string();
  let mut inputs: Vec<String> = vec![
    "".into(), " ".into(), "null".into(), "[]".into(), "[ ]".into(), "[null]".into(), "{}".into(), "[{}]".into(), "[[]]".into(), "\"\"".into(), "[\"\"]".into(),
    "true".into(), "[true]".into(), "-1".into(), "256".into(), "[256]".into(), "1.5".into(), "[1,\"1\"]".into(), "[".into(), "]".into(), "[,]".into(),
    "[1,0]".into(), "[[1,0]]".into(), "[[1,0],[1,1]]".into(), "[[1,0],[2,0]]".into(), "{\"k\":1}".into(), "{\"k\":1,\"v\":2,\"x\":3}".into(),
    "[{\"k\":1,\"v\":2,\"x\":3},{\"k\":1,\"v\":3}]".into(), "{\"k\":1,\"v\":2,\"k\":3}".into(), "{\"v\":2,\"k\":1}".into(),
  ];
  inputs.push(format!("[{}]", e0));
  inputs.push(format!("[{},{}]", e0, e0));
  inputs.push(format!("[{},{},]", e0, e1));
  inputs.push(format!("[[{}]]", e0));
  inputs.push(format!("[{},null]", e0));
  inputs.push(format!("[{},[{}]]", e0, e1));
  inputs.push(format!(" [ {} , {} ] ", e0, e1));
  inputs.push(format!("{} {}", e0, e1));
  inputs.push(format!("[{}", vec![e0.clone(); 300].join(",")));
  inputs.push(format!("[{}]", vec![e0.clone(); 300].join(",")));
  inputs.push(format!("{}{}{}", "[".repeat(200), e0, "]".repeat(200)));
  for (i, js) in inputs.iter().enumerate() {
    if !cx.args.mine(i as u64) {
      continue;
    }
    cx.rep.eval();
    cx.rep.inc("hostile_json_cases");
    let hist = || json!({"json": js});
    match catch(|| OrderedSet::<T>::from_json(js)) {
      Ok(Ok(s)) => {
        cx.rep.inc("json_accepted");
        let got = catch(|| s.as_slice().to_vec()).unwrap_or_default();
        if !keys_unique(&got) {
          cx.rep.violation("oset-json-accepts-duplicates", &format!("[{}] OrderedSet::from_json({}) = {}", T::KIND, js, show_list(&got)), json!({"json":js}));
        } else {
          check_state(cx, &s, &got, &keys, &hist);
        }
      }
      Ok(Err(_)) => cx.rep.inc("json_rejected"),
      Err(p) => cx.rep.violation(&format!("oset-json-panic@{}", p.file_only()), &format!("OrderedSet::from_json({}) panicked: {}", js, p.msg), json!({"json":js})),
    }
    match catch(|| OneOrSet::<T>::from_json(js)) {
      Ok(Ok(v)) => {
        cx.rep.inc("json_accepted");
        let got = catch(|| v.as_slice().to_vec()).unwrap_or_default();
        let gk = universe_keys(&got);
        check_oos(cx, &v, &got, &gk, false, "from_json", &hist);
      }
      Ok(Err(_)) => cx.rep.inc("json_rejected"),
      Err(p) => cx.rep.violation(&format!("oneorset-json-panic@{}", p.file_only()), &format!("OneOrSet::from_json({}) panicked: {}", js, p.msg), json!({"json":js})),
    }
    match catch(|| OneOrMany::<T>::from_json(js)) {
      Ok(Ok(v)) => {
        cx.rep.inc("json_accepted");
        let got = catch(|| v.as_slice().to_vec()).unwrap_or_default();
        check_oom(cx, &v, &got, false, "from_json", &hist);
      }
      Ok(Err(_)) => cx.rep.inc("json_rejected"),
      Err(p) => cx.rep.violation(&format!("oneormany-json-panic@{}", p.file_only()), &format!("OneOrMany::from_json({}) panicked: {}", js, p.msg), json!({"json":js})),
    }
  }
}

// ------------------------------------------------------------------------------------------------

// ------------------------------------------------------------------------------------------------
// phase 8: items that borrow from the input (`&str` is KeyComparable out of the box): own JSON read zero-copy
// ------------------------------------------------------------------------------------------------

/// `own` is the collection's own JSON text; deserialising it with a borrowing deserializer must give an equal value.
/// (Only escape-free strings are used: a `&str` can never be borrowed out of a JSON string holding an escape.)
fn borrowed_back<'a, C>(cx: &mut Ctx, what: &str, origin: &str, v: &C, own: &'a str)
where
  C: Deserialize<'a> + PartialEq,
{
  cx.rep.inc("borrowed_checks");
  match catch(|| serde_json::from_str::<C>(own).map(|b| &b == v)) {
    Ok(Ok(true)) => cx.rep.inc("json_borrowed_roundtrips"),
    Ok(Ok(false)) => cx.rep.violation(
      &format!("{}-json-roundtrip:borrowed", what),
      &format!("[&str] own JSON {} of a {} ({}) deserialises (borrowing) to a different value", own, what, origin),
      json!({"kind":"&str","json":own,"origin":origin}),
    ),
    Ok(Err(e)) => cx.rep.violation(
      &format!("{}-json-roundtrip:borrowed", what),
      &format!("[&str] own JSON {} of a {} ({}) is rejected when the items borrow from the input: {}", own, what, origin, e),
      json!({"kind":"&str","json":own,"origin":origin}),
    ),
    Err(p) => cx.rep.violation(&format!("{}-json-panic@{}", what, p.file_only()), &format!("from_str({}) panicked: {}", own, p.msg), json!({"json":own})),
  }
}

fn own_text<C: Serialize>(cx: &mut Ctx, what: &str, v: &C, want: &[Value]) -> Option<String> {
  match catch(|| v.to_json()) {
    Ok(Ok(js)) => {
      let val: Option<Value> = serde_json::from_str(&js).ok();
      if want.iter().any(|w| Some(w) == val.as_ref()) {
        Some(js)
      } else {
        cx.rep.violation(&format!("{}-json-form", what), &format!("[&str] {} serialises as {}; expected one of {:?}", what, js, want.iter().map(|w| w.to_string()).collect::<Vec<_>>()), json!({"kind":"&str","json":js}));
        None
      }
    }
    Ok(Err(e)) => {
      cx.rep.violation(&format!("{}-json-form", what), &format!("[&str] to_json failed: {}", e), json!({"kind":"&str"}));
      None
    }
    Err(p) => {
      cx.rep.violation(&format!("{}-json-panic@{}", what, p.file_only()), &format!("to_json panicked: {}", p.msg), json!({"kind":"&str"}));
      None
    }
  }
}

fn borrowed_items(cx: &mut Ctx, universe: &[&'static str], max_len: usize) {
  let owned: Vec<String> = universe.iter().map(|s| s.to_string()).collect();
  let args = cx.args.clone();
  let mut lists: Vec<Vec<usize>> = Vec::new();
  let idx: Vec<u8> = (0..universe.len() as u8).collect();
  for_each_list(&idx, max_len, |i, l| {
    if args.mine(i) {
      lists.push(l.iter().map(|x| *x as usize).collect());
    }
  });
  for li in &lists {
    cx.rep.eval();
    cx.rep.inc("borrowed_list_cases");
    let l: Vec<&'static str> = li.iter().map(|i| universe[*i]).collect();
    let lo: Vec<String> = li.iter().map(|i| owned[*i].clone()).collect();
    let uniq = keys_unique(&lo);
    cx.rep.distinct("nontrivial", &format!("borrowed|len{}|uniq{}", l.len(), uniq));
    let arr = json!(l);
    let bare: Vec<Value> = if l.len() == 1 { vec![json!(l[0])] } else { vec![arr.clone()] };
    let either: Vec<Value> = if l.len() == 1 { vec![json!(l[0]), arr.clone()] } else { vec![arr.clone()] };
    // OneOrMany (duplicates and emptiness allowed)
    if let Ok(v) = catch(|| <OneOrMany<&'static str> as From<Vec<&'static str>>>::from(l.clone())) {
      if let Some(js) = own_text(cx, "oneormany", &v, &bare) {
        borrowed_back(cx, "oneormany", "from_vec", &v, &js);
      }
    }
    if let Ok(v) = catch(|| OneOrMany::Many(l.clone())) {
      if let Some(js) = own_text(cx, "oneormany", &v, &either) {
        borrowed_back(cx, "oneormany", "variant_many", &v, &js);
      }
    }
    if !uniq {
      continue;
    }
    // OrderedSet
    if let Ok(Ok(v)) = catch(|| OrderedSet::try_from(l.clone())) {
      if let Some(js) = own_text(cx, "oset", &v, &[arr.clone()]) {
        borrowed_back(cx, "oset", "try_from", &v, &js);
      }
    }
    // OneOrSet (non-empty)
    if l.is_empty() {
      continue;
    }
    if let Ok(Ok(v)) = catch(|| OneOrSet::try_from(l.clone())) {
      if let Some(js) = own_text(cx, "oneorset", &v, &bare) {
        borrowed_back(cx, "oneorset", "try_from_vec", &v, &js);
      }
    }
    if l.len() == 1 {
      if let Ok(v) = catch(|| OneOrSet::new_one(l[0])) {
        if let Some(js) = own_text(cx, "oneorset", &v, &bare) {
          borrowed_back(cx, "oneorset", "new_one", &v, &js);
        }
      }
    }
    // grown by an operation
    let extra = universe[universe.len() - 1];
    if let Ok(Ok((v, grown))) = catch(|| {
      OneOrSet::try_from(l.clone()).map(|mut v| {
        let g = v.append(extra);
        (v, g)
      })
    }) {
      let mut want = l.clone();
      if grown {
        want.push(extra);
      }
      let form: Vec<Value> = if want.len() == 1 { vec![json!(want[0])] } else { vec![json!(want)] };
      if let Some(js) = own_text(cx, "oneorset", &v, &form) {
        borrowed_back(cx, "oneorset", "append", &v, &js);
      }
    }
  }
}

// ------------------------------------------------------------------------------------------------
// phase 9: the library's own value-keyed element types used DIRECTLY (OrderedSet<Url>, OneOrSet<Url>, ...): the same list model,
// every observation through the serialised strings only (never through the type's own `==`)
// ------------------------------------------------------------------------------------------------

fn strs_of<X: LibVal>(it: &[X]) -> Vec<String> {
  it.iter().map(|x| x.s()).collect()
}

fn direct_apply<X: LibVal>(s: &mut OrderedSet<X>, op: &Op<W<X>>) -> Out<W<X>> {
  match op {
    Op::Append(x) => Out::Flag(s.append(x.0.clone())),
    Op::Prepend(x) => Out::Flag(s.prepend(x.0.clone())),
    Op::Update(x) => Out::Flag(s.update(x.0.clone())),
    Op::Replace(k, x) => Out::Flag(s.replace(&W::<X>::key_arg(k).0, x.0.clone())),
    Op::Remove(k) => Out::Removed(s.remove(&W::<X>::key_arg(k).0).map(W)),
  }
}

/// Own JSON of a directly used collection: must be `want` (one of them) and must deserialise to the same strings.
fn direct_json<X: LibVal, C: Serialize + DeserializeOwned>(cx: &mut Ctx, what: &str, v: &C, want: &[Value], model: &[String], strings: &dyn Fn(&C) -> Vec<String>, hist: &dyn Fn() -> Value) {
  let r = catch(|| -> Result<(String, bool, Result<Vec<String>, String>), String> {
    let js = v.to_json().map_err(|e| e.to_string())?;
    let val: Option<Value> = serde_json::from_str(&js).ok();
    let form_ok = want.iter().any(|w| Some(w) == val.as_ref());
    let back = C::from_json(&js).map(|b| strings(&b)).map_err(|e| e.to_string());
    Ok((js, form_ok, back))
  });
  match r {
    Err(p) => cx.rep.violation(&format!("{}-json-panic@{}", what, p.file_only()), &format!("[{}] JSON round trip of {:?} panicked: {} at {}", X::DIRECT, model, p.msg, p.loc()), json!({"kind":X::DIRECT,"state":model,"history":hist()})),
    Ok(Err(e)) => cx.rep.violation(&format!("{}-json-form", what), &format!("[{}] to_json failed on {:?}: {}", X::DIRECT, model, e), json!({"kind":X::DIRECT,"state":model,"history":hist()})),
    Ok(Ok((js, false, _))) => cx.rep.violation(&format!("{}-json-form", what), &format!("[{}] {} {:?} serialises as {}", X::DIRECT, what, model, js), json!({"kind":X::DIRECT,"state":model,"json":js,"history":hist()})),
    Ok(Ok((js, true, back))) => {
      if back.as_ref().ok().map(|b| b.as_slice() == model).unwrap_or(false) {
        cx.rep.inc("json_roundtrips");
        cx.rep.inc("direct_json_roundtrips");
      } else {
        cx.rep.violation(
          &format!("{}-json-roundtrip", what),
          &format!("[{}] own JSON {} of a {} does not deserialise to an equal value: {:?}", X::DIRECT, js, what, back),
          json!({"kind":X::DIRECT,"state":model,"json":js,"history":hist()}),
        );
      }
    }
  }
}

/// One list (possibly with duplicate keys / empty) through the constructors and serde of OrderedSet<X> and OneOrSet<X>.
fn direct_list<X: LibVal>(cx: &mut Ctx, l: &[W<X>], universe: &[W<X>]) {
  cx.rep.eval();
  cx.rep.inc("direct_list_cases");
  let uniq = keys_unique(l);
  let dedup: Vec<String> = dedup_first(l).iter().map(|w| w.0.s()).collect();
  let ls: Vec<String> = l.iter().map(|w| w.0.s()).collect();
  let raw: Vec<X> = l.iter().map(|w| w.0.clone()).collect();
  let arr = json!(ls);
  let js = arr.to_string();
  cx.rep.distinct("nontrivial", &format!("direct-list|{}|len{}|uniq{}|dedup{}", X::DIRECT, l.len(), uniq, dedup.len()));
  let hist = || json!({"list": ls});
  let oset_strings = |s: &OrderedSet<X>| strs_of(s.as_slice());
  let oos_strings = |s: &OneOrSet<X>| strs_of(s.as_slice());
  // OrderedSet: TryFrom<Vec>, serde, collect
  for (origin, r) in [
    ("tryfrom", catch(|| OrderedSet::try_from(raw.clone()).map_err(|e| e.to_string()))),
    ("json", catch(|| OrderedSet::<X>::from_json(&js).map_err(|e| e.to_string()))),
  ] {
    match r {
      Err(p) => cx.rep.violation(&format!("oset-{}-panic@{}", origin, p.file_only()), &format!("[{}] {} of {:?} panicked: {} at {}", X::DIRECT, origin, ls, p.msg, p.loc()), json!({"kind":X::DIRECT,"list":ls})),
      Ok(Ok(s)) => {
        cx.rep.inc("direct_ctor_accepted");
        let got = catch(|| oset_strings(&s)).unwrap_or_default();
        if !uniq {
          cx.rep.violation(&format!("oset-{}-accepts-duplicates", origin), &format!("[{}] OrderedSet {}({:?}) accepted", X::DIRECT, origin, ls), json!({"kind":X::DIRECT,"list":ls}));
        } else if got != ls {
          cx.rep.violation(&format!("oset-build-content:{}", origin), &format!("[{}] OrderedSet {}({:?}) holds {:?}", X::DIRECT, origin, ls, got), json!({"kind":X::DIRECT,"list":ls,"got":got}));
        } else {
          direct_json::<X, _>(cx, "oset", &s, &[arr.clone()], &ls, &oset_strings, &hist);
        }
      }
      Ok(Err(e)) => {
        cx.rep.inc("direct_ctor_rejected");
        if uniq {
          cx.rep.violation(&format!("oset-{}-rejects-unique", origin), &format!("[{}] OrderedSet {}({:?}) rejected a duplicate-free list: {}", X::DIRECT, origin, ls, e), json!({"kind":X::DIRECT,"list":ls}));
        }
      }
    }
  }
  match catch(|| raw.iter().cloned().collect::<OrderedSet<X>>()) {
    Err(p) => cx.rep.violation("oset-collect-panic:exact", &format!("[{}] collect({:?}) panicked: {} at {}", X::DIRECT, ls, p.msg, p.loc()), json!({"kind":X::DIRECT,"list":ls})),
    Ok(s) => {
      cx.rep.inc("oset_collect_checked");
      let got = catch(|| oset_strings(&s)).unwrap_or_default();
      if got != dedup {
        cx.rep.violation("oset-collect-content", &format!("[{}] collect({:?}) = {:?} but first occurrences are {:?}", X::DIRECT, ls, got, dedup), json!({"kind":X::DIRECT,"list":ls,"got":got}));
      } else {
        let contains_ok = catch(|| universe.iter().all(|u| s.contains(&u.0) == dedup.contains(&u.0.s()))).unwrap_or(false);
        if !contains_ok {
          cx.rep.violation("oset-accessor-mismatch:contains", &format!("[{}] contains() on {:?} disagrees with the model", X::DIRECT, dedup), json!({"kind":X::DIRECT,"state":dedup}));
        }
      }
    }
  }
  // OneOrSet: TryFrom<Vec>, serde (array), bare value, then one append of every universe element
  let reject = if l.is_empty() { Some("empty") } else if !uniq { Some("duplicates") } else { None };
  let mut routes = vec![
    ("try_from_vec", true, catch(|| OneOrSet::try_from(raw.clone()).map_err(|e| e.to_string()))),
    ("from_json", false, catch(|| OneOrSet::<X>::from_json(&js).map_err(|e| e.to_string()))),
  ];
  if l.len() == 1 {
    routes.push(("new_one", true, catch(|| Ok(OneOrSet::new_one(raw[0].clone())))));
    routes.push(("from_json_bare", true, catch(|| OneOrSet::<X>::from_json(&json!(ls[0]).to_string()).map_err(|e| e.to_string()))));
  }
  for (origin, ctor, r) in routes {
    match r {
      Err(p) => cx.rep.violation(&format!("oneorset-{}-panic@{}", origin, p.file_only()), &format!("[{}] {}({:?}) panicked: {} at {}", X::DIRECT, origin, ls, p.msg, p.loc()), json!({"kind":X::DIRECT,"input":ls})),
      Ok(Err(e)) => match reject {
        Some("empty") => cx.rep.inc("oneorset_rejected_empty"),
        Some(_) => cx.rep.inc("oneorset_rejected_duplicates"),
        None => cx.rep.violation(&format!("oneorset-rejects-valid:{}", origin), &format!("[{}] OneOrSet {}({:?}) rejected a non-empty duplicate-free input: {}", X::DIRECT, origin, ls, e), json!({"kind":X::DIRECT,"input":ls,"origin":origin})),
      },
      Ok(Ok(v)) => {
        cx.rep.inc("oneorset_accepted");
        if let Some(why) = reject {
          cx.rep.violation(&format!("oneorset-accepts-{}:{}", why, origin), &format!("[{}] OneOrSet {}({:?}) accepted although the input is {}", X::DIRECT, origin, ls, why), json!({"kind":X::DIRECT,"input":ls,"origin":origin}));
          continue;
        }
        let got = catch(|| oos_strings(&v)).unwrap_or_default();
        if got != ls {
          cx.rep.violation(&format!("oneorset-content:{}:as_slice", origin), &format!("[{}] OneOrSet {}({:?}) holds {:?}", X::DIRECT, origin, ls, got), json!({"kind":X::DIRECT,"input":ls,"got":got}));
          continue;
        }
        let form = |m: &[String], ctor: bool| -> Vec<Value> {
          if m.len() == 1 && ctor { vec![json!(m[0])] } else if m.len() == 1 { vec![json!(m[0]), json!(m)] } else { vec![json!(m)] }
        };
        direct_json::<X, _>(cx, "oneorset", &v, &form(&ls, ctor), &ls, &oos_strings, &hist);
        for x in universe {
          cx.rep.inc("oneorset_append_checked");
          let want_flag = !ls.contains(&x.0.s());
          let mut want = ls.clone();
          if want_flag {
            want.push(x.0.s());
          }
          let h = || json!({"start": ls, "origin": origin, "op": format!("append({})", x.0.s())});
          match catch(|| {
            let mut c = v.clone();
            let f = c.append(x.0.clone());
            let g = oos_strings(&c);
            (c, f, g)
          }) {
            Err(p) => cx.rep.violation(&format!("oneorset-append-panic@{}", p.file_only()), &format!("[{}] append({}) on {:?} panicked: {}", X::DIRECT, x.0.s(), ls, p.msg), json!({"kind":X::DIRECT,"history":h()})),
            Ok((c, f, g)) => {
              if f != want_flag {
                cx.rep.violation("oneorset-append-result", &format!("[{}] OneOrSet {:?}.append({}) returned {}", X::DIRECT, ls, x.0.s(), f), json!({"kind":X::DIRECT,"history":h()}));
              } else if g != want {
                cx.rep.violation("oneorset-content:append:as_slice", &format!("[{}] OneOrSet {:?}.append({}) left {:?}", X::DIRECT, ls, x.0.s(), g), json!({"kind":X::DIRECT,"history":h()}));
              } else {
                direct_json::<X, _>(cx, "oneorset", &c, &form(&want, ctor || want.len() > 1), &want, &oos_strings, &h);
              }
            }
          }
        }
      }
    }
  }
}

fn direct_lists<X: LibVal>(cx: &mut Ctx, universe: &[W<X>], max_len: usize) {
  let args = cx.args.clone();
  let stride = (1000 / cx.scale.max(1)).max(1).min(16);
  let mut lists: Vec<Vec<W<X>>> = Vec::new();
  for_each_list(universe, max_len, |i, l| {
    if args.mine(i) && (l.len() <= 2 || (i / args.nshards.max(1)) % stride == 0) {
      lists.push(l.to_vec());
    }
  });
  for l in &lists {
    direct_list(cx, l, universe);
  }
}

/// Random histories on an `OrderedSet<X>` itself, judged by the list model over the wrapped values (string keys).
fn direct_sequences<X: LibVal>(cx: &mut Ctx, rng: &mut Rng, pool: &[W<X>], n_seq: u64, len: usize) {
  let keys = universe_keys(pool);
  let mut steps = 0u64;
  let mut classes = vec![false; 5 * 5];
  for _ in 0..n_seq {
    let ne = 2 + rng.usize(pool.len() - 1);
    let mut elems: Vec<W<X>> = pool.to_vec();
    rng.shuffle(&mut elems);
    elems.truncate(ne);
    let init_len = rng.usize(5);
    let rawl: Vec<W<X>> = (0..init_len).map(|_| rng.pick(&elems).clone()).collect();
    let mut model = dedup_first(&rawl);
    let mode = rng.below(3);
    let start: Vec<X> = model.iter().map(|w| w.0.clone()).collect();
    let built = catch(|| match mode {
      0 => {
        let mut s = OrderedSet::new();
        for e in start.iter() {
          s.append(e.clone());
        }
        Ok(s)
      }
      1 => OrderedSet::try_from(start.clone()).map_err(|e| e.to_string()),
      _ => OrderedSet::<X>::from_json(&json!(strs_of(&start)).to_string()).map_err(|e| e.to_string()),
    });
    let mstr = |m: &[W<X>]| -> Vec<String> { m.iter().map(|w| w.0.s()).collect() };
    let mut set = match built {
      Ok(Ok(s)) if catch(|| strs_of(s.as_slice())).unwrap_or_default() == mstr(&model) => s,
      other => {
        let what = match other {
          Ok(Ok(s)) => format!("holds {:?}", catch(|| strs_of(s.as_slice())).unwrap_or_default()),
          Ok(Err(e)) => format!("rejected: {}", e),
          Err(p) => format!("panicked: {} at {}", p.msg, p.loc()),
        };
        cx.rep.violation(
          &format!("oset-build-content:{}", ["appends", "try_from", "from_json"][mode as usize]),
          &format!("[{}] building the duplicate-free list {:?} (path {}) {}", X::DIRECT, mstr(&model), mode, what),
          json!({"kind":X::DIRECT,"list":mstr(&model),"path":mode}),
        );
        continue;
      }
    };
    let mut hist: Vec<String> = vec![format!("start {} (build path {})", show_list(&model), mode)];
    let mut ok_all = true;
    for _ in 0..len {
      let op: Op<W<X>> = match rng.below(5) {
        0 => Op::Append(rng.pick(&elems).clone()),
        1 => Op::Prepend(rng.pick(&elems).clone()),
        2 => Op::Update(rng.pick(&elems).clone()),
        3 => Op::Replace(rng.pick(&keys).clone(), rng.pick(&elems).clone()),
        _ => Op::Remove(rng.pick(&keys).clone()),
      };
      hist.push(op.show());
      let (prim, _, pcls) = model_apply(&model, &op);
      let r = catch(|| {
        let mut s = set.clone();
        let out = direct_apply(&mut s, &op);
        let got = strs_of(s.as_slice());
        (s, out, got)
      });
      match r {
        Err(p) => {
          cx.rep.violation(&format!("oset-{}-panic@{}", op.name(), p.file_only()), &format!("[{}] {} on {} panicked: {} at {}", X::DIRECT, op.show(), show_list(&model), p.msg, p.loc()), json!({"kind":X::DIRECT,"history":hist}));
          ok_all = false;
          break;
        }
        Ok((s, out, got)) => {
          let flag_ok = out == prim.out;
          if flag_ok && got == mstr(&prim.state) {
            steps += 1;
            classes[op.code() * 5 + pcls] = true;
            set = s;
            model = prim.state;
          } else {
            cx.rep.violation(
              &format!("oset-{}-{}:{}", op.name(), if flag_ok { "content" } else { "result" }, PCLS[pcls]),
              &format!("[{}] {} on {} returned {} leaving {:?}; list model: {} leaving {}", X::DIRECT, op.show(), show_list(&model), out.show(), got, prim.out.show(), show_list(&prim.state)),
              json!({"kind":X::DIRECT,"before":show_list(&model),"op":op.show(),"got_result":out.show(),"got_state":got,"want_result":prim.out.show(),"want_state":show_list(&prim.state),"history":hist}),
            );
            ok_all = false;
            break;
          }
        }
      }
    }
    if ok_all {
      let m = mstr(&model);
      let h = || json!(hist);
      direct_json::<X, _>(cx, "oset", &set, &[json!(m)], &m, &|s: &OrderedSet<X>| strs_of(s.as_slice()), &h);
    }
    cx.rep.inc("direct_sequences");
  }
  cx.rep.count("evaluations", steps);
  cx.rep.count("direct_steps", steps);
  cx.rep.count("oset_ops_checked", steps);
  for (i, b) in classes.iter().enumerate() {
    if *b {
      cx.rep.distinct("nontrivial", &format!("oset|direct|{}|op{}|p{}", X::DIRECT, i / 5, i % 5));
    }
  }
}

/// Everything for one library value type: the wrapped kind through the generic machinery, then the type itself directly.
fn lib_value_kind<X: LibVal>(cx: &mut Ctx, rng: &mut Rng, cands: &[&str], n_seq: u64) {
  let uni = lib_universe::<X>(cands);
  assert!(uni.len() >= 4, "universe of {} too small: {:?}", X::KIND, uni.iter().map(|w| w.0.s()).collect::<Vec<_>>());
  cx.rep.note(&format!("universe_{}", X::KIND), json!(uni.iter().map(|w| w.0.s()).collect::<Vec<_>>()));
  let k3 = universe_keys(&uni[..3]);
  let k2 = universe_keys(&uni[..2]);
  let k4 = universe_keys(&uni[..4]);
  let big = cx.scale >= 1000;
  // (1) exhaustive sequences over the first three / two near-miss values
  exhaustive_sequences(cx, &format!("{}x3", X::KIND), &uni[..3], &k3, if cx.args.thorough { 5 } else { 4 });
  exhaustive_sequences(cx, &format!("{}x2", X::KIND), &uni[..2], &k2, if cx.args.thorough { 7 } else { 5 });
  // (2) closure with full observation
  if big {
    closure(cx, &format!("{}x4", X::KIND), &uni[..4], &k4);
  } else {
    closure(cx, &format!("{}x3", X::KIND), &uni[..3], &k3);
  }
  // (3) random histories over the whole universe
  random_sequences(cx, rng, X::KIND, &uni, n_seq, 40);
  // (4) lists through constructors and serde, (5) odd JSON
  let sl = if big { 3 } else { 2 };
  oset_lists(cx, &uni[..3], sl);
  oos_lists(cx, &uni[..3], sl, if big { 2 } else { 1 });
  oom_lists(cx, &uni[..3], 2, 1);
  hostile_json(cx, &uni[..3]);
  // (9) the type itself
  direct_sequences(cx, rng, &uni, n_seq, 40);
  direct_lists(cx, &uni[..4.min(uni.len())], sl);
}

fn proj_universe(nkeys: u8, npay: u8) -> (Vec<P>, Vec<u8>) {
  let mut e = Vec::new();
  for k in 1..=nkeys {
    for v in 0..npay {
      e.push(P { k, v });
    }
  }
  (e, (1..=nkeys).collect())
}

fn tup_universe(nkeys: u8, npay: u8) -> (Vec<Tup>, Vec<u8>) {
  let mut e = Vec::new();
  for k in 1..=nkeys {
    for v in 0..npay {
      e.push(Tup(k, v));
    }
  }
  (e, (1..=nkeys).collect())
}

fn main() {
  let args = Args::parse();
  let scale = args.extra_u64("scale", 1000).max(1);
  let thorough = args.thorough;
  let mut cx = Ctx { rep: Report::new("C19"), args: args.clone(), scale };
  cx.rep.rule(
    "cases = (1) every operation sequence (append/prepend/update/replace/remove with every operand of a small universe) up to a \
     bounded length, from the empty set, for u8 (key == value) and a {k,v} struct keyed by k; (2) every reachable model state x every \
     operation with full accessor + JSON observation; (3) seeded random sequences of length 60/180 from states built through every \
     construction path (u8, struct, String); (4) every list of length 0..=4(5) over a small universe offered to TryFrom<Vec>, \
     FromIterator (several size hints) and serde, for OrderedSet, OneOrSet (plus append chains, map/try_map) and OneOrMany (plus push \
     chains), the element kinds including ones whose own JSON is an array (tuple struct), null-or-number (Option newtype) or \
     string-or-object (enum), plus the library's own value-keyed element types Url / CoreDID / DIDUrl over universes of near-miss values (trailing slashes, letter case, percent-encoding case, port, empty query/fragment), wrapped (library key, harness string equality) through all of (1)-(5) and used directly (OrderedSet<Url>, OneOrSet<Url>, ...) in random histories and constructor/serde lists, the model keyed on the serialised string; every accepted own JSON is also read back through from_json_value / from_json_slice / a reader / the \
     pretty-printed text; (5) malformed/odd JSON; (6) collections of &str read back zero-copy from their own JSON. Each step is judged against a duplicate-free Vec model (result flag + full order). \
     distinct_exact = exhaustive sequences (distinct by construction); nontrivial classes = (phase, element kind, operation, which \
     operand keys are present, length before) resp. (kind, list length, keys unique?, de-duplicated length)",
  );

  // ---- (1) exhaustive sequences
  let a4: Vec<u8> = vec![1, 2, 3, 4];
  let a3: Vec<u8> = vec![1, 2, 3];
  let a2: Vec<u8> = vec![1, 2];
  let (b42, b42k) = proj_universe(4, 2);
  let (b32, b32k) = proj_universe(3, 2);
  let (b22, b22k) = proj_universe(2, 2);
  if thorough {
    exhaustive_sequences(&mut cx, "u8x4", &a4, &a4, 6);
    exhaustive_sequences(&mut cx, "u8x3", &a3, &a3, 7);
    exhaustive_sequences(&mut cx, "u8x2", &a2, &a2, 8);
    exhaustive_sequences(&mut cx, "proj4x2", &b42, &b42k, 5);
    exhaustive_sequences(&mut cx, "proj3x2", &b32, &b32k, 6);
    exhaustive_sequences(&mut cx, "proj2x2", &b22, &b22k, 7);
  } else {
    exhaustive_sequences(&mut cx, "u8x4", &a4, &a4, 5);
    exhaustive_sequences(&mut cx, "u8x3", &a3, &a3, 6);
    exhaustive_sequences(&mut cx, "u8x2", &a2, &a2, 7);
    exhaustive_sequences(&mut cx, "proj4x2", &b42, &b42k, 4);
    exhaustive_sequences(&mut cx, "proj3x2", &b32, &b32k, 5);
    exhaustive_sequences(&mut cx, "proj2x2", &b22, &b22k, 6);
  }

  // ---- (2) closure of the state graph
  if thorough {
    let a5: Vec<u8> = vec![1, 2, 3, 4, 5];
    let (b52, b52k) = proj_universe(5, 2);
    closure(&mut cx, "u8x5", &a5, &a5);
    closure(&mut cx, "proj5x2", &b52, &b52k);
  } else {
    closure(&mut cx, "u8x4", &a4, &a4);
    closure(&mut cx, "proj4x2", &b42, &b42k);
  }
  let strs: Vec<String> = ["", "a", "b", "ab", "A", "\u{e9}", "a ", "b\u{0}"].iter().map(|s| s.to_string()).collect();
  closure(&mut cx, "string3", &strs[..3], &strs[..3]);
  // element types whose own JSON form is an array / null / varies with the value
  let (t32, t32k) = tup_universe(3, 2);
  let n3: Vec<Nul> = vec![Nul(None), Nul(Some(0)), Nul(Some(1))];
  let n3k: Vec<Option<u8>> = n3.iter().map(|n| n.0).collect();
  let e4: Vec<En> = vec![En::A, En::B(1), En::B(2), En::C(1, 2)];
  closure(&mut cx, "tuple3x2", &t32, &t32k);
  closure(&mut cx, "nullable3", &n3, &n3k);
  closure(&mut cx, "enum3", &e4[..3], &e4[..3]);

  // ---- (3) random sequences
  let mut rng = args.rng(19);
  let n_seq = cx.scaled(if thorough { 480_000 } else { 24_000 }) / args.nshards.max(1) / 3 + 1;
  let a8: Vec<u8> = vec![0, 1, 2, 3, 7, 128, 254, 255];
  let (b63, _) = proj_universe(6, 3);
  random_sequences(&mut cx, &mut rng, "u8", &a8, n_seq, 60);
  random_sequences(&mut cx, &mut rng, "proj", &b63, n_seq, 60);
  random_sequences(&mut cx, &mut rng, "string", &strs, n_seq, 60);

  // ---- (7) the library's own element types whose key is the value: universes of near-miss values, keyed (by the model) on the
  // serialised string. Spellings that the parser normalises to one string are one element.
  let n_lib = n_seq / 4 + 1;
  lib_value_kind::<identity_core::common::Url>(
    &mut cx,
    &mut rng,
    &[
      "https://example.com/api", "https://example.com/api/", "https://example.com/api//", "https://example.com/API", "https://example.com/api?",
      "https://example.com/api#", "https://example.com:443/api", "https://example.com:8443/api", "https://EXAMPLE.com/api/", "http://example.com/api",
      "https://example.com/a%2fb", "https://example.com/a%2Fb", "https://example.com/api/?", "https://example.com", "https://example.com//",
      "did:example:123", "did:example:123/", "https://example.com/api/#/",
    ],
    n_lib,
  );
  lib_value_kind::<identity_did::CoreDID>(
    &mut cx,
    &mut rng,
    &["did:example:abc", "did:example:ABC", "did:example:abc.", "did:exampl:abc", "did:example:abc-", "did:example:abc_", "did:example:a:bc", "did:example:abc:", "did:example:abc%2F", "did:example:abc%2f"],
    n_lib,
  );
  lib_value_kind::<identity_did::DIDUrl>(
    &mut cx,
    &mut rng,
    &[
      "did:example:abc#key", "did:example:abc/#key", "did:example:abc#key/", "did:example:abc#KEY", "did:example:abc", "did:example:abc/", "did:example:abc?",
      "did:example:abc#", "did:example:abc?a=1#key", "did:example:abc/path", "did:example:abc/path/", "did:example:ABC#key", "did:example:abc?#key",
    ],
    n_lib,
  );

  // ---- (4) lists through constructors and serde
  let ml = if thorough { 5 } else { 4 };
  let (b3x2, _) = proj_universe(3, 2);
  let s3: Vec<String> = strs[..3].to_vec();
  oset_lists(&mut cx, &a3, ml);
  oset_lists(&mut cx, &b3x2, ml);
  oset_lists(&mut cx, &s3, ml);
  oos_lists(&mut cx, &a4, 4, 2);
  oos_lists(&mut cx, &b3x2, 4, 2);
  oos_lists(&mut cx, &s3, 4, 2);
  oom_lists(&mut cx, &a3, 4, 2);
  oom_lists(&mut cx, &b3x2, 4, if thorough { 2 } else { 1 });
  oom_lists(&mut cx, &s3, 4, 2);
  let sl = if scale >= 1000 { 3 } else { 2 };
  oset_lists(&mut cx, &t32, sl);
  oset_lists(&mut cx, &n3, sl);
  oset_lists(&mut cx, &e4, sl);
  oos_lists(&mut cx, &t32, sl, 2);
  oos_lists(&mut cx, &n3, sl, 2);
  oos_lists(&mut cx, &e4, sl, 2);
  oom_lists(&mut cx, &t32, sl, 1);
  oom_lists(&mut cx, &n3, sl, 2);
  oom_lists(&mut cx, &e4, sl, 1);

  // ---- (5) odd JSON
  hostile_json(&mut cx, &a3);
  hostile_json(&mut cx, &b3x2);
  hostile_json(&mut cx, &s3);
  hostile_json(&mut cx, &t32);
  hostile_json(&mut cx, &n3);
  hostile_json(&mut cx, &e4);

  // ---- (6) items borrowing from the input
  borrowed_items(&mut cx, &["", "a", "b", "ab", "\u{e9} z"], if scale >= 1000 { 3 } else { 2 });

  // the same loose-upper-bound situation with a std-only iterator (upper bound usize::MAX, three items)
  if args.shard == 0 {
    cx.rep.eval();
    match catch(|| (0..usize::MAX).map_while(|i| if i < 3 { Some(i as u8) } else { None }).collect::<OrderedSet<u8>>()) {
      Ok(s) => {
        cx.rep.inc("oset_collect_checked");
        if catch(|| s.as_slice().to_vec()).unwrap_or_default() != vec![0u8, 1, 2] {
          cx.rep.violation("oset-collect-content", "(0..usize::MAX).map_while(i<3).collect() is not [0,1,2]", json!({}));
        }
      }
      Err(p) => cx.rep.violation(
        "oset-collect-panic:loose-upper-max",
        &format!("(0..usize::MAX).map_while(|i| (i < 3).then_some(i as u8)).collect::<OrderedSet<u8>>() panicked: {} at {}", p.msg, p.loc()),
        json!({"kind":"u8","iterator":"(0..usize::MAX).map_while(..3 items..)","size_hint":"(0, Some(usize::MAX))"}),
      ),
    }
  }
  cx.rep.finish();
}
